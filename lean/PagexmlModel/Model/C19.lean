/-
Model of pagexml/analysis/layout_stats.py (layout measurements) and `in_same_column`
of pagexml/model/physical_document_model.py.  Transcribed statement by statement; see
DESIGN §7 C19.

The one float expression of the code, `int((int_x - p1[0]) * ((p1[1] - p2[1]) / (p2[0] - p1[0])))`,
is the PARAMETER `mdt : Int → Int → Int → Int` (k, a, b ↦ trunc (k * (a / b))).  The driver
instantiates it with runtime doubles; the theorems hold for every function (C19_shift) or
for every function with the laws of `MulDivTruncLaws` (C19_interp_grid, C19_text_height).

numpy means / medians are exact rationals `(numerator, denominator)` with denominator > 0.

The numeric literals and defaults of the source that matter here (the step that reaches
compute_baseline_distances / compute_bounding_box_distances from the functions that pass none, the
fall-back step of get_text_heights, the thresholds of the is_*_overlapping calls, the divisor of
in_same_column) are NOT written here: they are `Generated.C19.*`, regenerated from the working tree
on every run (harness/props/c19.py `translate`).
-/
import PagexmlModel.Basic.Err
import PagexmlModel.Model.C03
import PagexmlModel.Generated.C19

namespace Pagexml.C19
open Pagexml.C03 (Pt Coords mkCoords)

/-- step of the line-distance functions that pass none to compute_baseline_distances (regenerated) -/
def lineStep : Int := Generated.C19.lineDistStep
/-- step with which get_line_distances reaches compute_bounding_box_distances (regenerated) -/
def bboxStep : Int := Generated.C19.bboxDistStep
/-- `N` of `if line.baseline.width <= step: step = N` in get_text_heights (regenerated) -/
def fallbackStep : Int := Generated.C19.textHeightsFallbackStep
/-- `a / d > p/q` for `d > 0`, `q > 0` (`r = (p, q)`), by cross-multiplication -/
def ratioGt (a d : Int) (r : Int × Int) : Bool := decide (a * r.2 > r.1 * d)

abbrev MulDivTrunc := Int → Int → Int → Int

/-- absolute value as an `Int` (no Mathlib in model files) -/
def iabs (a : Int) : Int := (a.natAbs : Int)

/-! ### interpolation -/

/-- Python `range(a, b, s)` (`s = 0` never reaches this function: `% step` raises first) -/
def pyRange (a b s : Int) : List Int :=
  if 0 < s then (List.range ((b - a + s - 1) / s).toNat).map (fun (i : Nat) => a + s * (i : Int))
  else if s < 0 then (List.range ((a - b + (-s) - 1) / (-s)).toNat).map (fun (i : Nat) => a + s * (i : Int))
  else []

/-- `interpolate_points` for `step ≠ 0` (Python `%` on ints is floor-mod: `Int.fmod`) -/
def interpSegPure (mdt : MulDivTrunc) (p1 p2 : Pt) (step : Int) : List Pt :=
  let a := if p1.1 > p2.1 then p2 else p1
  let b := if p1.1 > p2.1 then p1 else p2
  let startX := a.1 + step - Int.fmod a.1 step
  let endX := b.1 - Int.fmod b.1 step
  if b.1 = a.1 then []
  else (pyRange startX (endX + 1) step).map
    (fun x => (x, a.2 - mdt (x - a.1) (a.2 - b.2) (b.1 - a.1)))

/-- `list(interpolate_points(p1, p2, step))`: `p1[0] % step` is evaluated before the
    equal-x test, so `step = 0` raises ZeroDivisionError whatever the points are -/
def interpSeg (mdt : MulDivTrunc) (p1 p2 : Pt) (step : Int) : Res (List Pt) :=
  if step = 0 then .error .ZeroDivisionError else .ok (interpSegPure mdt p1 p2 step)

/-- a Python dict `int → int` in insertion order -/
abbrev Dict := List (Int × Int)

/-- `d[k] = v`: overwrite in place (the key keeps its position) or append -/
def dictSet : Dict → Int → Int → Dict
  | [], k, v => [(k, v)]
  | (k', v') :: r, k, v => if k' = k then (k, v) :: r else (k', v') :: dictSet r k v

def dictGet? : Dict → Int → Option Int
  | [], _ => none
  | (k', v') :: r, k => if k' = k then some v' else dictGet? r k

def dictSetAll (d : Dict) (kvs : List Pt) : Dict := kvs.foldl (fun d xy => dictSet d xy.1 xy.2) d

/-- consecutive pairs `(points[i], points[i+1])` -/
def pairs {α : Type} : List α → List (α × α)
  | a :: b :: r => (a, b) :: pairs (b :: r)
  | _ => []

def interpStep (mdt : MulDivTrunc) (step : Int) (d : Dict) (pq : Pt × Pt) : Dict :=
  if pq.2.1 = pq.1.1 then d else dictSetAll d (interpSegPure mdt pq.1 pq.2 step)

/-- `interpolate_baseline_points` for `step ≠ 0` -/
def interpBaselinePure (mdt : MulDivTrunc) (pts : List Pt) (step : Int) : Dict :=
  (pairs pts).foldl (interpStep mdt step) []

def hasNonVertical (pts : List Pt) : Bool := (pairs pts).any (fun pq => pq.2.1 != pq.1.1)

/-- `interpolate_baseline_points`: with `step = 0` the first pair with different x raises -/
def interpBaseline (mdt : MulDivTrunc) (pts : List Pt) (step : Int) : Res Dict :=
  if step = 0 && hasNonVertical pts then .error .ZeroDivisionError
  else .ok (interpBaselinePure mdt pts step)

/-! ### distances -/

/-- `[abs(b2[x] - b1[x]) for x in b1 if x in b2]` -/
def distOf (b1 b2 : Dict) : List Int :=
  b1.filterMap (fun xy => (dictGet? b2 xy.1).map (fun y2 => iabs (y2 - xy.2)))

/-- `compute_points_distances` (on two point lists, not None) -/
def pointsDistances (mdt : MulDivTrunc) (p1 p2 : List Pt) (step : Int) : Res (List Int) := do
  let b1 ← interpBaseline mdt p1 step
  let b2 ← interpBaseline mdt p2 step
  return distOf b1 b2

/-- `Σ (y_i + y_{i+1}) · |x_{i+1} − x_i|` = 2 · total_avg (the halves are kept out) -/
def twiceTotal (pts : List Pt) : Int :=
  ((pairs pts).map (fun pq => (pq.1.2 + pq.2.2) * iabs (pq.2.1 - pq.1.1))).sum

/-- summed segment widths `Σ |x_{i+1} − x_i|` (`total_width` since fix 6c1407f) -/
def pathWidth (pts : List Pt) : Int := ((pairs pts).map (fun pq => iabs (pq.2.1 - pq.1.1))).sum

/-- `average_baseline_height` of a single line: `int(total_avg / total_width)` with
    `total_width` the summed segment widths.  With `total_width == 0` (no segment, or only
    vertical ones) the code looks at `min`/`max` of the x values — `min([])` is a ValueError —
    and returns `int(total_avg / (max − min))` or `int(total_avg)` -/
def avgHeight (pts : List Pt) : Res Int :=
  let w := pathWidth pts
  if w ≠ 0 then .ok (Int.tdiv (twiceTotal pts) (2 * w))
  else do
    let lo ← C03.minL (pts.map (·.1))
    let hi ← C03.maxL (pts.map (·.1))
    if lo ≠ hi then return Int.tdiv (twiceTotal pts) (2 * (hi - lo))
    else return Int.tdiv (twiceTotal pts) 2

/-- `compute_baseline_distances` for two single lines given by their baseline points -/
def baselineDistances (mdt : MulDivTrunc) (p1 p2 : List Pt) (step : Int) : Res (List Int) := do
  let ds ← pointsDistances mdt p1 p2 step
  if ds.isEmpty then
    let a1 ← avgHeight p1
    let a2 ← avgHeight p2
    return [iabs (a1 - a2)]
  else return ds

/-! ### above / below the baseline, text heights -/

/-- stable insertion sort (= what `sorted(key=…)` returns for a total preorder on keys) -/
def insertBy {α : Type} (le : α → α → Bool) (a : α) : List α → List α
  | [] => [a]
  | b :: bs => if le a b then a :: b :: bs else b :: insertBy le a bs

def isort {α : Type} (le : α → α → Bool) (l : List α) : List α := l.foldr (insertBy le) []

/-- `next_b and abs(next_b[0] - curr_cx) < abs(curr_b[0] - curr_cx)` -/
def closerToNext (curr : Pt) (next : Option Pt) (c : Pt) : Bool :=
  match next with
  | some nb => decide (iabs (nb.1 - c.1) < iabs (curr.1 - c.1))
  | none => false

/-- inner loop of `sort_coords_above_below_baseline` for one interpolated baseline point:
    consume coordinate points until one is strictly closer to the next baseline point -/
def takeFor (curr : Pt) (next : Option Pt) : List Pt → (List Pt × List Pt × List Pt)
  | [] => ([], [], [])
  | c :: cs =>
    if closerToNext curr next c then ([], [], c :: cs)
    else
      let r := takeFor curr next cs
      if c.2 < curr.2 then (c :: r.1, r.2.1, r.2.2) else (r.1, c :: r.2.1, r.2.2)

/-- outer loop: `break` when all coordinate points are consumed; points left over when the
    baseline points run out are dropped (only possible with no baseline point at all) -/
def goAB : List Pt → List Pt → (List Pt × List Pt)
  | [], _ => ([], [])
  | b :: bs, cs =>
    if cs.isEmpty then ([], [])
    else
      let t := takeFor b bs.head? cs
      let r := goAB bs t.2.2
      (t.1 ++ r.1, t.2.1 ++ r.2)

def sortAboveBelow (mdt : MulDivTrunc) (coords baseline : List Pt) (step : Int) :
    Res (List Pt × List Pt) := do
  let c ← mkCoords coords
  let b ← mkCoords baseline
  if c.right < b.left then return ([], [])
  if c.left > b.right then return ([], [])
  let ib ← interpBaseline mdt baseline step
  let sorted := isort (fun p q => decide (p.1 ≤ q.1)) coords
  let r := goAB ib sorted
  return (r.1, isort (fun p q => decide (p.1 ≥ q.1)) r.2)

def heightsOf (base above : Dict) : List Int :=
  base.filterMap (fun xy => (dictGet? above xy.1).map (fun ya => xy.2 - ya))

/-- `get_text_heights` after the step has been chosen -/
def textHeightsAt (mdt : MulDivTrunc) (coords baseline : List Pt) (step : Int) :
    Res (Option (List Int)) := do
  let ab ← sortAboveBelow mdt coords baseline step
  if ab.1.isEmpty then return none
  let ib ← interpBaseline mdt baseline step
  let ia ← interpBaseline mdt ab.1 step
  let hs := heightsOf ib ia
  if hs.isEmpty then return none else return some hs

/-- `get_text_heights` (line with coords and baseline); `none` is Python's `None`;
    `if line.baseline.width <= step: step = N` (`N = fallbackStep`, 5 at the time of writing) -/
def textHeights (mdt : MulDivTrunc) (coords baseline : List Pt) (step : Int) :
    Res (Option (List Int)) := do
  let b ← mkCoords baseline
  textHeightsAt mdt coords baseline (if b.width ≤ step then fallbackStep else step)

/-! ### exact means and medians -/

/-- a rational `num / den`, `den > 0` -/
abbrev Q := Int × Int

def qLe (a b : Q) : Bool := decide (a.1 * b.2 ≤ b.1 * a.2)

def nth {α : Type} (l : List α) (i : Nat) : Res α :=
  match l[i]? with
  | some a => .ok a
  | none => .error .IndexError

/-- `np.median` of a non-empty list of rationals (numpy returns nan for an empty one: the
    callers never pass one, the model answers ValueError) -/
def medianQ (l : List Q) : Res Q := do
  let s := isort qLe l
  let n := s.length
  if n = 0 then .error .ValueError
  else if n % 2 = 1 then nth s (n / 2)
  else
    let a ← nth s (n / 2 - 1)
    let b ← nth s (n / 2)
    return (a.1 * b.2 + b.1 * a.2, 2 * a.2 * b.2)

def ofInts (l : List Int) : List Q := l.map (fun i => (i, 1))

/-- `arr.mean()` of a non-empty integer array -/
def meanQ (l : List Int) : Res Q :=
  if l.isEmpty then .error .ValueError else .ok (l.sum, (l.length : Int))

/-- Python `round` on a rational: half to even -/
def roundHalfEven (q : Q) : Int :=
  let f := q.1 / q.2
  let r := q.1 - f * q.2
  if 2 * r < q.2 then f
  else if 2 * r > q.2 then f + 1
  else if f % 2 = 0 then f else f + 1

structure HeightStats where
  max : Int
  min : Int
  mean : Int
  median : Int
  deriving Repr, DecidableEq

/-- `compute_height_stats` -/
def heightStats (hs : List Int) : Res HeightStats := do
  let mx ← C03.maxL hs
  let mn ← C03.minL hs
  let m ← meanQ hs
  let md ← medianQ (ofInts hs)
  return { max := mx, min := mn, mean := roundHalfEven m, median := Int.tdiv md.1 md.2 }

/-! ### lines and regions -/

structure Line where
  coords : List Pt
  baseline : Option (List Pt)
  /-- `(len(text), number of blanks in text)`; `none` when `text is None` -/
  text : Option (Nat × Nat)
  deriving Repr

/-- `len(line.get_words())` for a line without Word children: `text.split(' ')` -/
def Line.numWords (l : Line) : Nat :=
  match l.text with
  | none => 0
  | some (0, _) => 0
  | some (_, s) => s + 1

/-- `get_bottom_points`: from the first point with `x == coords.right` to the end -/
def bottomPoints (l : Line) : Res (List Pt) := do
  let c ← mkCoords l.coords
  match l.coords.dropWhile (fun p => p.1 != c.right) with
  | [] => .error .IndexError
  | ps => return ps

/-- distance between two lines as `compute_baseline_distances(curr, next)` computes it;
    a line without baseline: `line.baseline.points` is an AttributeError -/
def lineDist (mdt : MulDivTrunc) (l1 l2 : Line) (step : Int) : Res (List Int) :=
  match l1.baseline, l2.baseline with
  | some b1, some b2 => baselineDistances mdt b1 b2 step
  | _, _ => .error .AttributeError

/-- `get_line_distances` -/
def lineDistances (mdt : MulDivTrunc) (lines : List Line) : Res (List (List Int)) :=
  (pairs lines).mapM (fun cn =>
    match cn.1.baseline, cn.2.baseline with
    | some b1, some b2 => baselineDistances mdt b1 b2 lineStep
    | _, _ => do
      let p1 ← bottomPoints cn.1
      let p2 ← bottomPoints cn.2
      pointsDistances mdt p1 p2 bboxStep)

inductive Region where
  | mk (coords : List Pt) (scanId colId : Option Int) (lines : List Line) (subs : List Region)

def Region.coords : Region → List Pt | .mk c _ _ _ _ => c
def Region.scanId : Region → Option Int | .mk _ s _ _ _ => s
def Region.colId : Region → Option Int | .mk _ _ c _ _ => c
def Region.lines : Region → List Line | .mk _ _ _ l _ => l
def Region.subs : Region → List Region | .mk _ _ _ _ s => s

mutual
/-- `PageXMLTextRegion.get_inner_text_regions` -/
def innerRegions : Region → List Region
  | .mk c s k lines subs =>
    innerRegionsL subs ++ (if subs.isEmpty && !lines.isEmpty then [Region.mk c s k lines subs] else [])
def innerRegionsL : List Region → List Region
  | [] => []
  | r :: rs =>
    (match r with
     | .mk _ _ _ lines subs =>
       if !subs.isEmpty then innerRegions r else if !lines.isEmpty then [r] else []) ++ innerRegionsL rs
end

/-- `get_horizontal_overlap` of two elements compared by their coordinates -/
def hOverlap (c1 c2 : Coords) : Int :=
  let l := max c1.left c2.left
  let r := min c1.right c2.right
  if r ≥ l then r - l + 1 else 0

def vOverlap (c1 c2 : Coords) : Int :=
  let t := max c1.top c2.top
  let b := min c1.bottom c2.bottom
  if b ≥ t then b - t + 1 else 0

/-- `in_same_column` on two regions (`overlap > w / N` ⇔ `N·overlap > w` for the positive divisor `N`
    of the source, 2 at the time of writing) -/
def inSameColumn (r1 r2 : Region) : Res Bool := do
  match r1.scanId, r2.scanId with
  | some a, some b => if a ≠ b then return false
  | _, _ => pure ()
  match r1.colId, r2.colId with
  | some a, some b => return decide (a = b)
  | _, _ =>
    let c1 ← mkCoords r1.coords
    let c2 ← mkCoords r2.coords
    return decide (Generated.C19.sameColumnDivisor * hOverlap c1 c2 > c1.w)

/-- distances from each line of a region to the next one; the last line is paired with
    `nextFirst` (first line of the next region in the same column) when there is one -/
def lineDistsIn (mdt : MulDivTrunc) : List Line → Option Line → Res (List (List Int))
  | [], _ => .ok []
  | [_], none => .ok []
  | [l], some nl => do return [← lineDist mdt l nl lineStep]
  | l :: l' :: r, nf => do
    let d ← lineDist mdt l l' lineStep
    let ds ← lineDistsIn mdt (l' :: r) nf
    return d :: ds

def regionsLineDistances (mdt : MulDivTrunc) : List Region → Res (List (List Int))
  | [] => .ok []
  | [r] => lineDistsIn mdt r.lines none
  | r :: r' :: rest => do
    let above ← inSameColumn r r'
    let ds ← lineDistsIn mdt r.lines (if above then r'.lines.head? else none)
    let ds' ← regionsLineDistances mdt (r' :: rest)
    return ds ++ ds'

/-- `get_textregion_line_distances` -/
def regionLineDistances (mdt : MulDivTrunc) (r : Region) : Res (List (List Int)) :=
  regionsLineDistances mdt (innerRegions r)

inductive AvgType where | macro | micro | other
  deriving DecidableEq, Repr

/-- `get_textregion_avg_line_distance` (`0` for no distances) -/
def avgLineDistance (mdt : MulDivTrunc) (r : Region) (t : AvgType) : Res Q := do
  if t = .other then throw .ValueError
  let all ← regionLineDistances mdt r
  if all.isEmpty then return (0, 1)
  if t = .micro then medianQ (ofInts all.flatten)
  else do
    let means ← all.mapM meanQ
    medianQ means

/-- width used for a line by the char-width average: baseline width, else coords width -/
def Line.measureWidth (l : Line) : Res Int :=
  match l.baseline with
  | some b => do return (← mkCoords b).width
  | none => do return (← mkCoords l.coords).width

def allLines (r : Region) : List Line := (innerRegions r).flatMap (·.lines)

/-- `get_textregion_avg_char_width`: total width / total chars (`0.0` without chars) -/
def avgCharWidth (r : Region) : Res Q := do
  let acc ← (allLines r).foldlM (fun (acc : Int × Int) l =>
    match l.text with
    | none => pure acc
    | some (m, _) => do
      let w ← l.measureWidth
      pure (acc.1 + w, acc.2 + (m : Int))) ((0, 0) : Int × Int)
  if acc.2 ≠ 0 then return (acc.1, acc.2) else return (0, 1)

inductive WidthUnit where | char | pixel | other
  deriving DecidableEq, Repr

/-- `get_textregion_avg_line_width` -/
def avgLineWidth (r : Region) (u : WidthUnit) : Res Q := do
  if u = .other then throw .ValueError
  let acc ← (allLines r).foldlM (fun (acc : Int × Int) l =>
    match l.text with
    | none => pure acc
    | some (m, _) => do
      let w ← l.measureWidth
      pure (acc.1 + (if u = .char then (m : Int) else w), acc.2 + 1)) ((0, 0) : Int × Int)
  if acc.2 > 0 then return (acc.1, acc.2) else return (0, 1)

/-- `is_vertically_overlapping` with the threshold that compute_textregion_distance passes (its default) -/
def isVertOverlapping (c1 c2 : Coords) : Bool :=
  if c1.height = 0 && c2.height = 0 then false
  else if c1.height = 0 then decide (c2.top ≤ c1.top ∧ c1.top ≤ c2.bottom)
  else if c2.height = 0 then decide (c1.top ≤ c2.top ∧ c2.top ≤ c1.bottom)
  else ratioGt (vOverlap c1 c2) (min c1.height c2.height) Generated.C19.regionVOverlapThr

/-- `is_horizontally_overlapping` on elements compared by their coordinates -/
def isHorizOverlapping (c1 c2 : Coords) : Bool :=
  if c1.width = 0 && c2.width = 0 then false
  else if c1.width = 0 then decide (c2.left ≤ c1.left ∧ c1.left ≤ c2.right)
  else if c2.width = 0 then decide (c1.left ≤ c2.left ∧ c2.left ≤ c1.right)
  else ratioGt (hOverlap c1 c2) (min c1.width c2.width) Generated.C19.regionHOverlapThr

/-- `compute_textregion_distance` on (coords, direct lines) of the two regions -/
def regionDistance (mdt : MulDivTrunc) (c1p : List Pt) (l1 : List Line) (c2p : List Pt) (l2 : List Line) :
    Res Q := do
  let c1 ← mkCoords c1p
  let c2 ← mkCoords c2p
  if isVertOverlapping c1 c2 then return (0, 1)
  let swap := decide (c1.top > c2.top)
  let (ca, la, cb, lb) := if swap then (c2, l2, c1, l1) else (c1, l1, c2, l2)
  match la.getLast?, lb.head? with
  | some prev, some curr => do
    let ds ← lineDist mdt prev curr lineStep
    medianQ (ofInts ds)
  | _, _ => return (cb.top - ca.bottom, 1)

/-! ### line-width categories -/

/-- a width range `"{lo}-{hi}"` / `"{lo}-"` -/
abbrev WRange := Int × Option Int

def catFrom (prev : Int) (w : Int) : List Int → WRange
  | [] => (prev, none)
  | b :: bs => if b > w then (prev, some b) else catFrom b w bs

/-- `categorise_line_width` on the line's coords width -/
def categorise (w : Int) (bps : List Int) : WRange := catFrom 0 w bps

def rangesFrom (prev : Int) : List Int → List WRange
  | [] => [(prev, none)]
  | b :: bs => (prev, some b) :: rangesFrom b bs

/-- `get_boundary_width_ranges` -/
def ranges (bps : List Int) : List WRange := rangesFrom 0 bps

def dedup {α : Type} [DecidableEq α] : List α → List α
  | [] => []
  | a :: as => a :: (dedup as).filter (· ≠ a)

/-- `get_line_width_stats`: a Counter with a zero entry for every range, then one count per
    line (keys in first-insertion order) -/
def widthStats (ws : List Int) (bps : List Int) : List (WRange × Nat) :=
  let cats := ws.map (fun w => categorise w bps)
  (dedup (ranges bps ++ cats)).map (fun r => (r, cats.count r))

def WRange.toStr (r : WRange) : List Char :=
  match r.2 with
  | some hi => showInt r.1 ++ ['-'] ++ showInt hi
  | none => showInt r.1 ++ ['-']

/-! ### per-type statistics of flat documents (`compute_pagexml_stats`) -/

/-- a text region whose children are lines only.  `sortedLines` is what `sorted(lines)`
    returned (the geometric `__lt__` is no total order; DESIGN §3.6: the sort is a
    parameter known only to return a permutation) -/
structure FlatRegion where
  coords : List Pt
  lines : List Line
  sortedLines : List Line
  deriving Repr

structure FlatColumn where
  coords : List Pt
  regions : List FlatRegion
  sortedRegions : List FlatRegion
  deriving Repr

inductive Doc where
  | scan (coords : List Pt) (regions sortedRegions : List FlatRegion)
  | page (coords : List Pt) (columns : List FlatColumn) (regions sortedRegions : List FlatRegion)
  | column (c : FlatColumn)
  | region (r : FlatRegion)
  | line (l : Line)
  deriving Repr

/-- one `Counter.update([value])`: (element type, field, value) -/
abbrev Event := String × String × Q

def ev (t f : String) (v : Int) : Event := (t, f, (v, 1))

def sumNat (l : List Nat) : Nat := l.foldl (· + ·) 0

/-- the `distance` observation of `compute_lines_stats`: median distance to the previous line -/
def distEvent (mdt : MulDivTrunc) (prev : Option Line) (l : Line) : Res (List Event) :=
  match prev with
  | none => .ok []
  | some p => do
    let ds ← lineDist mdt p l lineStep
    let m ← medianQ (ofInts ds)
    return [(("line", "distance", m) : Event)]

def lineEvents (c : Coords) (l : Line) : List Event :=
  [ev "line" "height" c.h, ev "line" "width" c.w, ev "line" "words" l.numWords]

/-- `compute_lines_stats` on the already sorted lines -/
def linesStatsGo (mdt : MulDivTrunc) : Option Line → List Line → Res (List Event)
  | _, [] => .ok []
  | prev, l :: ls => do
    let c ← mkCoords l.coords
    let e1 ← distEvent mdt prev l
    let rest ← linesStatsGo mdt (some l) ls
    return lineEvents c l ++ e1 ++ rest

def linesStats (mdt : MulDivTrunc) (sortedLines : List Line) : Res (List Event) :=
  linesStatsGo mdt none sortedLines

/-- `if len(children) > 0: compute_…_stats(children, stats)` -/
def unlessEmpty (empty : Bool) (f : Res (List Event)) : Res (List Event) :=
  if empty then .ok [] else f

/-- the `vertical_dist` observation of `compute_textregions_stats` -/
def vdistEvent (mdt : MulDivTrunc) (prev : Option FlatRegion) (c : Coords) (r : FlatRegion) : Res (List Event) :=
  match prev with
  | none => .ok []
  | some p => do
    let pc ← mkCoords p.coords
    if isHorizOverlapping c pc then do
      let d ← regionDistance mdt p.coords p.lines r.coords r.lines
      return [(("textregion", "vertical_dist", d) : Event)]
    else return []

def regionEvents (c : Coords) (r : FlatRegion) : List Event :=
  [ev "textregion" "height" c.h, ev "textregion" "width" c.w,
   ev "textregion" "lines" r.lines.length,
   ev "textregion" "words" (sumNat (r.lines.map Line.numWords))]

/-- `compute_textregions_stats` on the already sorted flat regions -/
def regionsStatsGo (mdt : MulDivTrunc) : Option FlatRegion → List FlatRegion → Res (List Event)
  | _, [] => .ok []
  | prev, r :: rs => do
    let c ← mkCoords r.coords
    let e0 ← vdistEvent mdt prev c r
    let e2 ← unlessEmpty r.lines.isEmpty (linesStats mdt r.sortedLines)
    let rest ← regionsStatsGo mdt (some r) rs
    return e0 ++ regionEvents c r ++ e2 ++ rest

def regionsStats (mdt : MulDivTrunc) (sortedRegions : List FlatRegion) : Res (List Event) :=
  regionsStatsGo mdt none sortedRegions

def regionsLines (rs : List FlatRegion) : List Line := rs.flatMap (·.lines)

def columnEvents (c : Coords) (col : FlatColumn) : List Event :=
  let ls := regionsLines col.regions
  [ev "column" "height" c.h, ev "column" "width" c.w,
   ev "column" "lines" ls.length, ev "column" "words" (sumNat (ls.map Line.numWords)),
   ev "column" "text_regions" col.regions.length]

def columnsStats (mdt : MulDivTrunc) : List FlatColumn → Res (List Event)
  | [] => .ok []
  | col :: cols => do
    let c ← mkCoords col.coords
    let e1 ← unlessEmpty col.regions.isEmpty (regionsStats mdt col.sortedRegions)
    let rest ← columnsStats mdt cols
    return columnEvents c col ++ e1 ++ rest

def scanEvents (c : Coords) (regions : List FlatRegion) : List Event :=
  let ls := regionsLines regions
  [ev "scan" "height" c.h, ev "scan" "width" c.w,
   ev "scan" "lines" ls.length, ev "scan" "words" (sumNat (ls.map Line.numWords)),
   ev "scan" "text_regions" regions.length]

def pageEvents (c : Coords) (columns : List FlatColumn) (regions : List FlatRegion) : List Event :=
  let ls := columns.flatMap (fun col => regionsLines col.regions) ++ regionsLines regions
  [ev "page" "height" c.h, ev "page" "width" c.w,
   ev "page" "words" (sumNat (ls.map Line.numWords)), ev "page" "lines" ls.length]
  ++ (if columns.isEmpty then [] else [ev "page" "columns" columns.length])
  ++ (if regions.isEmpty then [] else [ev "page" "text_regions" regions.length])

def docStats (mdt : MulDivTrunc) : Doc → Res (List Event)
  | .scan cp regions sortedRegions => do
    let c ← mkCoords cp
    let e1 ← unlessEmpty regions.isEmpty (regionsStats mdt sortedRegions)
    return scanEvents c regions ++ e1
  | .page cp columns regions sortedRegions => do
    let c ← mkCoords cp
    let e1 ← columnsStats mdt columns
    let e2 ← unlessEmpty regions.isEmpty (regionsStats mdt sortedRegions)
    return pageEvents c columns regions ++ e1 ++ e2
  | .column col => columnsStats mdt [col]
  | .region _ => .ok []     -- handled as a group, see `pagexmlStats`
  | .line _ => .ok []

def Doc.tag : Doc → Nat
  | .scan .. => 0 | .page .. => 1 | .column _ => 2 | .region _ => 3 | .line _ => 4

/-- `compute_pagexml_stats`: documents are grouped by class; scans, pages and columns are
    processed one by one, top-level regions and top-level lines as one sorted group each
    (`sortedTopRegions` / `sortedTopLines` are what `sorted` returned for those groups) -/
def pagexmlStats (mdt : MulDivTrunc) (docs : List Doc)
    (sortedTopRegions : List FlatRegion) (sortedTopLines : List Line) : Res (List Event) := do
  let perDoc ← docs.mapM (docStats mdt)
  let e1 ← unlessEmpty (!docs.any (fun d => d.tag == 3)) (regionsStats mdt sortedTopRegions)
  let e2 ← unlessEmpty (!docs.any (fun d => d.tag == 4)) (linesStats mdt sortedTopLines)
  return perDoc.flatten ++ e1 ++ e2

end Pagexml.C19
