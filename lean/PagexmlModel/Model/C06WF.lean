/-
C06: the well-formedness predicate `Doc.ok` — a document as the constructors and the parser
leave it — as executable Bool functions (so that the driver can report, for every document
the harness builds, whether the round-trip theorem covers it).  Definitions only.
-/
import PagexmlModel.Model.C06

namespace Pagexml.C06

/-- the type list of a constructed document: the class's base tags first, no repetition -/
def typesOk (base ts : List String) : Bool := base.isPrefixOf ts && decide ts.Nodup

/-- kept by a truthiness guard, or `None` anyway -/
def canon (v : PyVal) : Bool := v.truthy || v == .none

def Hdr.ok (base : List String) (h : Hdr) : Bool := typesOk base h.types && (h.coords != some [])

def Hdr.hasParent (t : String) (i : PyVal) (h : Hdr) : Bool :=
  alookup (.s "parent_type") h.md == some (.str t) && alookup (.s "parent_id") h.md == some i
  && alookup (.s (t ++ "_id")) h.md == some i

def Hdr.hasMeta (k : String) (v : PyVal) (h : Hdr) : Bool := alookup (.s k) h.md == some v

def Word.ok (w : Word) : Bool := w.h.ok (baseTypes "word")

def Line.ok (l : Line) : Bool :=
  l.h.ok (baseTypes "line") && l.h.hasMeta "type" (.str "line") && (l.baseline != some []) && canon l.xheight
  && decide ((l.ro.map (·.1)).Nodup) && l.words.all (fun w => w.ok && w.h.hasParent "line" l.h.id)

def Cell.ok (c : Cell) : Bool :=
  c.h.ok (baseTypes "table_cell") && canon c.cornerpoints && canon c.orientation
  && c.lines.all (fun l => l.ok && l.h.hasParent "table_cell" c.h.id)

/-- the number of column slots the TableRow constructor ends with -/
def colCellsN : Nat → List Cell → Nat
  | n, [] => n
  | n, c :: cs => colCellsN ((match c.col with
      | some col => if col > (n : Int) then col.toNat else n
      | none => n) + 1) cs

def Row.ok (r : Row) : Bool :=
  r.h.ok (baseTypes "table_row") && canon r.orientation && !r.cells.isEmpty && sameRow r.cells
  && r.cells.all (fun c => c.ok && c.col.isSome)

/-- the row as its own constructor leaves it (before an enclosing region pads it) -/
def Row.base (r : Row) : Row := { r with numCols := colCellsN 0 r.cells }

def padded (m : Nat) (r : Row) : Nat :=
  if r.cells.length < m then max (colCellsN 0 r.cells) m else colCellsN 0 r.cells

def Table.ok (t : Table) : Bool :=
  t.h.ok (baseTypes "table_region") && canon t.orientation && t.rows.all Row.ok
  && t.rows.all (fun r => r.numCols == padded (maxCells t.rows) r)

/-- the table as json_to_pagexml_table_region returns it (rows not yet padded) -/
def Table.base (t : Table) : Table := { t with rows := t.rows.map Row.base }

def rid (r : Region) : PyVal := r.h.id

/-- the regions are consistent with the reading order the way a constructor leaves them:
    no reading order; or every region listed and (where the class sorts) already in order -/
def roOk (sorts : Bool) (ro : RO) (rs : List Region) : Bool :=
  ro.isEmpty || (allListed rid ro rs &&
    (!sorts || ((reorder rid ro rs).map rid == rs.map rid && decide ((rs.map rid).Nodup))))

mutual
/-- a text region as the constructors leave it: its children carry this region as parent -/
def Region.ok : Region → Bool
  | ⟨h, _text, orientation, ro, _roa, lines, regions, tables⟩ =>
    h.ok (regionBase "text_region") && canon orientation && decide ((ro.map (·.1)).Nodup)
    && roOk true ro regions
    && lines.all (fun l => l.ok && l.h.hasParent "text_region" h.id)
    && Region.okL "text_region" h.id regions
    && tables.all Table.ok
def Region.okL (pt : String) (pid : PyVal) : List Region → Bool
  | [] => true
  | r :: rs => r.ok && r.h.hasParent pt pid && Region.okL pt pid rs
end

mutual
def Region.depth : Region → Nat
  | ⟨_, _, _, _, _, _, regions, _⟩ => Region.depthL regions + 1
def Region.depthL : List Region → Nat
  | [] => 0
  | r :: rs => max r.depth (Region.depthL rs)
end

def Column.ok (c : Column) : Bool :=
  c.h.ok (regionBase "column") && canon c.orientation && decide ((c.ro.map (·.1)).Nodup)
  && roOk true c.ro c.regions
  && c.lines.all (fun l => l.ok && l.h.hasParent "column" c.h.id)
  && Region.okL "column" c.h.id c.regions
  && c.tables.all Table.ok

def Word.allH (p : Hdr → Bool) (w : Word) : Bool := p w.h

def Line.allH (p : Hdr → Bool) (l : Line) : Bool := p l.h && l.words.all (Word.allH p)

def Cell.allH (p : Hdr → Bool) (c : Cell) : Bool := p c.h && c.lines.all (Line.allH p)

def Row.allH (p : Hdr → Bool) (r : Row) : Bool := p r.h && r.cells.all (Cell.allH p)

def Table.allH (p : Hdr → Bool) (t : Table) : Bool := p t.h && t.rows.all (Row.allH p)

mutual
def Region.allH (p : Hdr → Bool) : Region → Bool
  | ⟨h, _, _, _, _, lines, regions, tables⟩ =>
    p h && lines.all (Line.allH p) && Region.allHL p regions && tables.all (Table.allH p)
def Region.allHL (p : Hdr → Bool) : List Region → Bool
  | [] => true
  | r :: rs => r.allH p && Region.allHL p rs
end

def Column.allH (p : Hdr → Bool) (c : Column) : Bool :=
  p c.h && c.lines.all (Line.allH p) && Region.allHL p c.regions && c.tables.all (Table.allH p)

def Page.allH (p : Hdr → Bool) (g : Page) : Bool :=
  p g.h && g.columns.all (Column.allH p) && Region.allHL p g.regions && g.tables.all (Table.allH p)
  && Region.allHL p g.extra

def Scan.allH (p : Hdr → Bool) (s : Scan) : Bool :=
  p s.h && s.pages.all (Page.allH p) && s.columns.all (Column.allH p) && Region.allHL p s.regions
  && s.tables.all (Table.allH p) && s.lines.all (Line.allH p)

def maxBy {α} (f : α → Nat) : List α → Nat
  | [] => 0
  | a :: as => max (f a) (maxBy f as)

def Column.depth (c : Column) : Nat := Region.depthL c.regions

def Page.depth (p : Page) : Nat :=
  max (max (Region.depthL p.regions) (Region.depthL p.extra)) (maxBy Column.depth p.columns)

def Scan.depth (s : Scan) : Nat :=
  max (max (Region.depthL s.regions) (maxBy Column.depth s.columns)) (maxBy Page.depth s.pages)

def Page.ok (p : Page) : Bool :=
  p.h.ok (regionBase "page") && canon p.orientation && decide ((p.ro.map (·.1)).Nodup)
  && roOk false p.ro p.regions
  && p.columns.all (fun c => c.ok && c.h.hasParent "page" p.h.id)
  && Region.okL "page" p.h.id p.regions
  && p.tables.all Table.ok
  && Region.okL "page" p.h.id p.extra

def Scan.ok (s : Scan) : Bool :=
  s.h.ok (regionBase "scan") && canon s.orientation && decide ((s.ro.map (·.1)).Nodup)
  && roOk true s.ro s.regions
  && s.pages.all (fun p => p.ok && p.h.hasParent "scan" s.h.id)
  && s.columns.all (fun c => c.ok && c.h.hasParent "scan" s.h.id)
  && s.lines.all (fun l => l.ok && l.h.hasParent "scan" s.h.id)
  && Region.okL "scan" s.h.id s.regions
  && s.tables.all Table.ok
  && s.allH (Hdr.hasMeta "scan_id" s.h.id)

/-- none of the listed class tags occurs in the type list -/
def noTags (tags ts : List String) : Bool := tags.all (fun t => !ts.contains t)

def Doc.ok : Doc → Bool
  | .word w => w.ok && noTags ["scan", "page", "column", "text_region", "line"] w.h.types
  | .line l => l.ok && noTags ["scan", "page", "column", "text_region"] l.h.types
  | .region r => r.ok && noTags ["scan", "page", "column"] r.h.types
  | .column c => c.ok && noTags ["scan", "page"] c.h.types
  | .page p => p.ok && noTags ["scan"] p.h.types
  | .scan s => s.ok

/-- nesting depth of text regions: the fuel `fromJson` needs -/
def Doc.depth : Doc → Nat
  | .word _ => 0
  | .line _ => 0
  | .region r => r.depth
  | .column c => c.depth
  | .page p => p.depth
  | .scan s => s.depth

def Doc.types : Doc → List String
  | .word w => w.h.types | .line l => l.h.types | .region r => r.h.types
  | .column c => c.h.types | .page p => p.h.types | .scan s => s.h.types

/-- the key of a reading-order index after `json.dumps` / `json.loads` -/
def strKey (i : Int) : Key := .s (strOfInt i)

end Pagexml.C06
