/-
Model of the overlap / distance relations:
  pagexml/model/pagexml_document_model.py: has_baseline, get_horizontal_overlap,
    get_vertical_overlap, is_vertically_overlapping, is_horizontally_overlapping,
    get_horizontal_diff(_ratio), get_vertical_diff(_ratio)
  pagexml/model/physical_document_model.py: in_same_column, has_baseline, is_below, is_next_to,
    horizontal_distance, vertical_distance, get_horizontal_overlap_ratio, get_vertical_overlap_ratio
  pagexml/helper/pagexml_helper.py: is_point_inside, get_region_type, regions_overlap
Elements are reduced to what these functions read: the bounding box of the coordinates
(C03: left ≤ right, top ≤ bottom), the box of the baseline, the class, two metadata keys.
Thresholds are rationals p/q (DESIGN §3.4); ratios are returned as (numerator, denominator).
-/
import PagexmlModel.Basic.Err
import PagexmlModel.Generated.C10

namespace Pagexml.C10

structure Box where
  l : Int
  t : Int
  r : Int
  b : Int
  deriving Repr, DecidableEq

def Box.width (x : Box) : Int := x.r - x.l
def Box.height (x : Box) : Int := x.b - x.t

inductive Kind where
  | region   -- text region, column, page, scan, table …: no `baseline` attribute
  | line     -- PageXMLTextLine
  | word     -- PageXMLWord (has a `baseline` attribute, is not a TextLine)
  deriving Repr, DecidableEq

structure Elem where
  kind : Kind
  coords : Option Box
  baseline : Option Box
  scanId : Option String := none
  columnId : Option String := none
  deriving Repr, DecidableEq

/-- `doc.coords.<attr>` raises AttributeError when coords is None -/
def crd (e : Elem) : Res Box :=
  match e.coords with
  | some b => .ok b
  | none => .error .AttributeError

/-- `has_baseline` of pagexml_document_model: `hasattr(doc, 'baseline') and doc.baseline is not None` -/
def hasBaseline (e : Elem) : Bool :=
  match e.kind with
  | .region => false
  | _ => e.baseline.isSome

/-- `has_baseline` of physical_document_model: `isinstance(doc, PageXMLTextLine) and …` -/
def hasBaselinePdm (e : Elem) : Bool := e.kind = .line && e.baseline.isSome

def overlapLen (lo1 hi1 lo2 hi2 : Int) : Int :=
  let oLo := max lo1 lo2
  let oHi := min hi1 hi2
  if oHi ≥ oLo then oHi - oLo + 1 else 0

def hOverlap (a b : Elem) : Res Int :=
  match hasBaseline a, hasBaseline b, a.baseline, b.baseline with
  | true, true, some ba, some bb => .ok (overlapLen ba.l ba.r bb.l bb.r)
  | _, _, _, _ => do
    let ca ← crd a
    let cb ← crd b
    return overlapLen ca.l ca.r cb.l cb.r

def vOverlap (a b : Elem) : Res Int := do
  let ca ← crd a
  let cb ← crd b
  return overlapLen ca.t ca.b cb.t cb.b

/-- a threshold `p / q` with `0 < q`; `x / y > p / q` for `y > 0` is `x * q > p * y` -/
structure Thr where
  p : Int
  q : Int
  deriving Repr, DecidableEq

def ratioGt (x y : Int) (t : Thr) : Bool := x * t.q > t.p * y

def isVOverlapping (a b : Elem) (t : Thr) : Res Bool :=
  match a.coords, b.coords with
  | none, _ => .error .ValueError
  | _, none => .error .ValueError
  | some ca, some cb =>
    if ca.height = 0 && cb.height = 0 then .ok false
    else if ca.height = 0 then .ok (cb.t ≤ ca.t && ca.t ≤ cb.b)
    else if cb.height = 0 then .ok (ca.t ≤ cb.t && cb.t ≤ ca.b)
    else do
      let v ← vOverlap a b
      return ratioGt v (min ca.height cb.height) t

def isHOverlapping (a b : Elem) (t : Thr) : Res Bool :=
  match a.coords, b.coords with
  | none, _ => .error .ValueError
  | _, none => .error .ValueError
  | some ca, some cb => do
    let h ← hOverlap a b
    if ca.width = 0 && cb.width = 0 then return false
    else if ca.width = 0 then return (cb.l ≤ ca.l && ca.l ≤ cb.r)
    else if cb.width = 0 then return (ca.l ≤ cb.l && cb.l ≤ ca.r)
    else return ratioGt h (min ca.width cb.width) t

/-- Python `abs` on ints -/
def iabs (x : Int) : Int := if x < 0 then -x else x

def bothLinesWithBaseline (a b : Elem) : Option (Box × Box) :=
  match a.kind, b.kind, a.baseline, b.baseline with
  | .line, .line, some ba, some bb => some (ba, bb)
  | _, _, _, _ => none

def vDiff (a b : Elem) : Res Int :=
  match bothLinesWithBaseline a b with
  | some (ba, bb) => .ok (iabs (ba.t - bb.t))
  | none => do
    let ca ← crd a
    let cb ← crd b
    return (iabs (ca.t - cb.t))

def hDiff (a b : Elem) : Res Int :=
  match bothLinesWithBaseline a b with
  | some (ba, bb) => .ok (iabs (ba.l - bb.l))
  | none => do
    let ca ← crd a
    let cb ← crd b
    return (iabs (ca.l - cb.l))

/-- Python `x / y` on ints: ZeroDivisionError for `y = 0`; the value is kept as (x, y) -/
def pyDiv (x y : Int) : Res (Int × Int) :=
  if y = 0 then .error .ZeroDivisionError else .ok (x, y)

def hDiffRatio (a b : Elem) : Res (Int × Int) := do
  let d ← hDiff a b
  let ca ← crd a
  let cb ← crd b
  pyDiv d (max ca.r cb.r - min ca.l cb.l)

def vDiffRatio (a b : Elem) : Res (Int × Int) := do
  let d ← vDiff a b
  let ca ← crd a
  let cb ← crd b
  pyDiv d (max ca.b cb.b - min ca.t cb.t)

def hOverlapRatio (a b : Elem) : Res (Int × Int) := do
  let o ← hOverlap a b
  let ca ← crd a
  let cb ← crd b
  pyDiv o (max ca.r cb.r - min ca.l cb.l)

def vOverlapRatio (a b : Elem) : Res (Int × Int) := do
  let o ← vOverlap a b
  let ca ← crd a
  let cb ← crd b
  pyDiv o (max ca.b cb.b - min ca.t cb.t)

/-- the default thresholds of is_horizontally_overlapping / is_vertically_overlapping,
    REGENERATED from the source on every run (Generated/C10.lean) -/
def hDefault : Thr := ⟨Generated.C10.hOverlapThr.1, Generated.C10.hOverlapThr.2⟩
def vDefault : Thr := ⟨Generated.C10.vOverlapThr.1, Generated.C10.vOverlapThr.2⟩

/-- `is_below(region1, region2, margin)` (is_horizontally_overlapping with its default threshold) -/
def isBelow (a b : Elem) (margin : Int) : Res Bool := do
  if ← isHOverlapping a b hDefault then
    let ca ← crd a
    let cb ← crd b
    return ca.t > cb.b - margin
  else return false

def isNextTo (a b : Elem) (margin : Int) : Res Bool := do
  if ← isVOverlapping a b vDefault then
    let ca ← crd a
    let cb ← crd b
    return ca.l > cb.r - margin
  else return false

def hDistance (a b : Elem) : Res Int := do
  let ca ← crd a
  let cb ← crd b
  if ca.r < cb.l then return cb.l - ca.r
  else if ca.l > cb.r then return ca.l - cb.r
  else return 0

def vDistance (a b : Elem) : Res Int := do
  let ca ← crd a
  let cb ← crd b
  if ca.b < cb.t then return cb.t - ca.b
  else if ca.t > cb.b then return ca.t - cb.b
  else return 0

/-- `in_same_column`: metadata decides when present, else "overlap > half the width of element 1" -/
def inSameColumn (a b : Elem) : Res Bool :=
  match a.scanId, b.scanId with
  | some sa, some sb =>
    if sa ≠ sb then .ok false else rest
  | _, _ => rest
where
  rest : Res Bool :=
    match a.columnId, b.columnId with
    | some x, some y => .ok (x = y)
    | _, _ => do
      let o ← hOverlap a b
      let ca ← crd a
      return o * 2 > ca.width

def isPointInside (x y : Int) (e : Elem) : Res Bool := do
  let c ← crd e
  if x < c.l || x > c.r then return false
  if y < c.t || y > c.b then return false
  return true

inductive RegionType where
  | point | hline | vline | box
  deriving Repr, DecidableEq

def regionType (e : Elem) : Res RegionType := do
  let c ← crd e
  if c.height = 0 then
    if c.width = 0 then return .point else return .hline
  else if c.width = 0 then return .vline
  else return .box

/-- `regions_overlap(region1, region2, threshold)`: compares the coordinate boxes -/
def regionsOverlap (a b : Elem) (t : Thr) : Bool :=
  match a.coords, b.coords with
  | some ca, some cb =>
    let h1 := ca.height + 1
    let w1 := ca.width + 1
    let h2 := cb.height + 1
    let w2 := cb.width + 1
    let v := max 0 (min ca.b cb.b - max ca.t cb.t + 1)
    let h := max 0 (min ca.r cb.r - max ca.l cb.l + 1)
    (ratioGt v h1 t && ratioGt h w1 t) || (ratioGt v h2 t && ratioGt h w2 t)
  | _, _ => false

/-! ### transformations used by the property -/

def Box.shift (x : Box) (dx dy : Int) : Box := ⟨x.l + dx, x.t + dy, x.r + dx, x.b + dy⟩
def Box.transpose (x : Box) : Box := ⟨x.t, x.l, x.b, x.r⟩

def Elem.shift (e : Elem) (dx dy : Int) : Elem :=
  { e with coords := e.coords.map (·.shift dx dy), baseline := e.baseline.map (·.shift dx dy) }

def Elem.transpose (e : Elem) : Elem :=
  { e with coords := e.coords.map Box.transpose, baseline := e.baseline.map Box.transpose }

/-- well-formed boxes, as C03 guarantees for every Coords / Baseline object -/
def Box.WF (x : Box) : Prop := x.l ≤ x.r ∧ x.t ≤ x.b

def Elem.WF (e : Elem) : Prop :=
  (∀ c, e.coords = some c → c.WF) ∧ (∀ c, e.baseline = some c → c.WF)

end Pagexml.C10
