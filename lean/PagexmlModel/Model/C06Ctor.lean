/-
C06: the constructors as functions.  `fromJson*` (Model/C06.lean) decode their arguments from a
JSON value and then run a constructor followed by `set_parentage`; the functions below are
exactly those last steps, on already decoded arguments (definitional unfoldings of the tails of
`fromJsonCell`, `fromJsonRow`, `fromJsonTable`, `fromJsonRegion`, `fromJsonColumn`,
`fromJsonPage`, `fromJsonScan`; `mkWord` / `mkLine` are in Model/C06.lean already).
Definitions only.
-/
import PagexmlModel.Model.C06WF

namespace Pagexml.C06

/-- PageXMLTableCell(...) then set_parentage -/
def Cell.build (id : PyVal) (ts : List String) (m : Meta) (coords : Option Pts) (row : PyVal) (col : Option Int)
    (cellSpan rowSpan header cornerpoints orientation : PyVal) (lines : List Line) : Cell :=
  ({ h := { id := id, types := addTypes (baseTypes "table_cell") ts, md := m, coords := coords },
     row := row, col := col, cellSpan := cellSpan, rowSpan := rowSpan, header := header,
     cornerpoints := cornerpoints, orientation := orientation,
     lines := lines.map (Line.setParent "table_cell" id) } : Cell).setParentage

/-- PageXMLTableRow(...) with `n` column slots -/
def Row.build (id : PyVal) (ts : List String) (m : Meta) (coords : Option Pts) (n : Nat) (orientation : PyVal)
    (cells : List Cell) : Row :=
  { h := { id := id, types := addTypes (baseTypes "table_row") ts, md := m, coords := coords },
    numCols := n, orientation := orientation, cells := cells }

/-- PageXMLTableRegion(...) with its rows -/
def Table.build (id : PyVal) (ts : List String) (m : Meta) (coords : Option Pts) (orientation : PyVal)
    (rows : List Row) : Table :=
  { h := { id := id, types := addTypes (baseTypes "table_region") ts, md := m, coords := coords },
    orientation := orientation, rows := rows }

/-- PageXMLTextRegion(...) then set_parentage -/
def Region.build (id : PyVal) (ts : List String) (m : Meta) (coords : Option Pts) (text : Option String)
    (orientation : PyVal) (ro : RO) (roa : PyVal) (lines : List Line) (regions : List Region)
    (tables : List Table) : Region :=
  let i := regionInit "text_region" id ro lines regions tables
  ({ h := { id := id, types := addTypes (regionBase "text_region") ts, md := m, coords := coords },
     text := text, orientation := orientation, ro := i.ro, roa := roa,
     lines := i.lines, regions := i.regions, tables := i.tables } : Region).setParentage

/-- PageXMLColumn(...) then set_parentage -/
def Column.build (id : PyVal) (ts : List String) (m : Meta) (coords : Option Pts)
    (orientation : PyVal) (ro : RO) (roa : PyVal) (lines : List Line) (regions : List Region)
    (tables : List Table) : Column :=
  let i := regionInit "column" id ro lines regions tables
  ({ h := { id := id, types := addTypes (regionBase "column") ts, md := m, coords := coords },
     orientation := orientation, ro := i.ro, roa := roa,
     lines := i.lines, regions := i.regions, tables := i.tables } : Column).setParentage

/-- PageXMLPage(...) then set_parentage -/
def Page.build (id : PyVal) (ts : List String) (m : Meta) (coords : Option Pts)
    (orientation : PyVal) (ro : RO) (roa : PyVal) (columns : List Column) (regions : List Region)
    (tables : List Table) (extra : List Region) : Page :=
  let i := regionInit "page" id ro [] regions tables
  ({ h := { id := id, types := addTypes (regionBase "page") ts, md := m, coords := coords },
     orientation := orientation, ro := i.ro, roa := roa,
     columns := columns.map (Column.setParent "page" id), regions := i.regions, tables := i.tables,
     extra := extra.map (Region.setParent "page" id) } : Page).setParentage

/-- PageXMLScan(...): the TextRegion constructor, then pages / columns parented, then `set_scan_id` -/
def Scan.ctor (id : PyVal) (ts : List String) (m : Meta) (coords : Option Pts)
    (orientation : PyVal) (ro : RO) (roa : PyVal) (pages : List Page) (columns : List Column)
    (lines : List Line) (regions : List Region) (tables : List Table) : Scan :=
  let i := regionInit "scan" id ro lines regions tables
  let s : Scan := { h := { id := id, types := addTypes (regionBase "scan") ts, md := m, coords := coords },
                    orientation := orientation, ro := i.ro, roa := roa,
                    pages := pages.map (Page.setParent "scan" id),
                    columns := columns.map (Column.setParent "scan" id),
                    regions := i.regions, tables := i.tables, lines := i.lines }
  s.mapAll (Hdr.setMeta "scan_id" id)

/-- PageXMLScan(...) then set_parentage -/
def Scan.build (id : PyVal) (ts : List String) (m : Meta) (coords : Option Pts)
    (orientation : PyVal) (ro : RO) (roa : PyVal) (pages : List Page) (columns : List Column)
    (lines : List Line) (regions : List Region) (tables : List Table) : Scan :=
  (Scan.ctor id ts m coords orientation ro roa pages columns lines regions tables).setParentage

/-- a table whose rows are as their own constructor leaves them (not yet padded by an enclosing
    region-like constructor) -/
def Table.preOk (t : Table) : Bool :=
  t.h.ok (baseTypes "table_region") && canon t.orientation && t.rows.all Row.ok
  && t.rows.all (fun r => r.numCols == colCellsN 0 r.cells)

/-! ### guarded attributes in a JSON value

`orientation`, `xheight` and `cornerpoints` are written to a JSON view only when truthy, so a
document holding a falsy value other than `None` there (0, 0.0, '') cannot be told from one
holding `None`; the library only ever tests these attributes for truthiness, and the harness
compares documents up to that.  `guardsCanon j`: no dict anywhere in `j` holds such a value
under one of the three keys (every JSON view the library produces is of this kind, unless user
metadata happens to use one of the three names for a falsy value). -/

def canonAt (k : String) (kvs : List (Key × PyVal)) : Bool :=
  match alookup (.s k) kvs with
  | some v => canon v
  | none => true

mutual
def PyVal.guardsCanon : PyVal → Bool
  | .list xs => PyVal.guardsCanonList xs
  | .dict kvs => canonAt "orientation" kvs && canonAt "xheight" kvs && canonAt "cornerpoints" kvs
                 && PyVal.guardsCanonKvs kvs
  | _ => true
def PyVal.guardsCanonList : List PyVal → Bool
  | [] => true
  | x :: xs => PyVal.guardsCanon x && PyVal.guardsCanonList xs
def PyVal.guardsCanonKvs : List (Key × PyVal) → Bool
  | [] => true
  | (_, v) :: m => PyVal.guardsCanon v && PyVal.guardsCanonKvs m
end

/-! ### the XML parser's assembly (`parse_*` in parser.py), on decoded attribute values.

The input trees are "raw" `Word` / `Line` / `Region` values: only what the parser reads from the
XML is used (id, metadata from the `custom` attribute, coordinates — as given or as derived from
the children —, text, confidence, baseline, x-height, orientation; guarded attributes up to
truthiness, as everywhere); `types`, reading order and parent metadata of the raw trees are
ignored: the constructors produce them. -/

/-- parse_line_words: `PageXMLWord(text, doc_id, metadata, coords, conf)` -/
def Word.parsed (w : Word) : Word :=
  { h := { id := w.h.id, types := addTypes (baseTypes "word") [], md := w.h.md, coords := w.h.coords },
    text := w.text, conf := w.conf }

/-- parse_textline: `PageXMLTextLine(xheight, doc_id, metadata, coords, baseline, text, conf, words)`
    (the constructor: `metadata['type'] = 'line'`, `set_as_parent(words)`) -/
def Line.parsed (l : Line) : Line :=
  { h := { id := l.h.id, types := addTypes (baseTypes "line") [], md := setKey (.s "type") (.str "line") l.h.md,
           coords := l.h.coords },
    baseline := l.baseline, text := l.text, conf := l.conf, xheight := l.xheight, ro := [], roa := .none,
    words := (l.words.map Word.parsed).map (Word.setParent "line" l.h.id) }

/-- the `add_type(metadata['type'])` step of parse_textregion: a string value is one tag
    (that is what `parse_custom_metadata` stores); anything else is outside the model -/
def metaTypeTags (m : Meta) : List String :=
  match alookup (.s "type") m with
  | some (.str s) => [s]
  | _ => []

mutual
/-- parse_textregion: the constructor without children, `add_type(metadata['type'])`, then the
    lines and sub-regions are assigned and `set_as_parent` is called on them -/
def Region.parsed : Region → Region
  | ⟨h, text, orientation, _ro, _roa, lines, regions, _tables⟩ =>
    ⟨{ id := h.id, types := addTypes (addTypes (regionBase "text_region") []) (metaTypeTags h.md), md := h.md,
       coords := h.coords },
     text, orientation, [], .none,
     (lines.map Line.parsed).map (Line.setParent "text_region" h.id),
     Region.parsedL "text_region" h.id regions, []⟩
def Region.parsedL (pt : String) (pid : PyVal) : List Region → List Region
  | [] => []
  | r :: rs => (r.parsed).setParent pt pid :: Region.parsedL pt pid rs
end

/-- what the parser needs of the raw trees: coordinates / baselines, where present, are not
    empty (`Coords('')` raises), guarded attributes are canonical -/
def Word.rawOk (w : Word) : Bool := w.h.coords != some []
def Line.rawOk (l : Line) : Bool :=
  (l.h.coords != some []) && (l.baseline != some []) && canon l.xheight && l.words.all Word.rawOk
mutual
def Region.rawOk : Region → Bool
  | ⟨h, _, orientation, _, _, lines, regions, _⟩ =>
    (h.coords != some []) && canon orientation && lines.all Line.rawOk && Region.rawOkL regions
def Region.rawOkL : List Region → Bool
  | [] => true
  | r :: rs => r.rawOk && Region.rawOkL rs
end

/-- parse_pagexml_json: `PageXMLScan(doc_id, metadata, coords, text_regions, table_regions,
    reading_order, reading_order_attributes)` on the parsed regions and tables -/
def Scan.parsed (id : PyVal) (m : Meta) (coords : Option Pts) (ro : RO) (roa : PyVal)
    (regions : List Region) (tables : List Table) : Scan :=
  Scan.ctor id [] m coords .none ro roa [] [] [] (regions.map Region.parsed) tables

end Pagexml.C06
