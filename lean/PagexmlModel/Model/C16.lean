/-
Model of the paragraph builder and of merge_lines (DESIGN §7 C16):
  pagexml/helper/pagexml_helper.py  make_line_text, make_line_range, make_text_region_text, merge_lines

The detector is abstracted by its interface: `make_text_region_text` consumes only the
`(do_merge, merge_word)` answer of `determine_word_break` per line pair, so the model takes an
arbitrary `decide : prev_words → curr_words → Res Decision`.  `C17.determine cc det B` is one instance.
The convex hull of `merge_lines` is a parameter (C09's contract).

Regenerated from the source on every run (Generated/C16.lean, harness/props/c16.py `generated_c16`), not
written here: the four `„` literals of `make_text_region_text`, the blank of the test
`line_text[-2] != ' '` in `make_line_text`, the hyphen and the PMI threshold of
`line_ends_with_word_break`, the defaults of `make_line_text`, `make_text_region_text`, `merge_lines`.
The blanks that `make_line_text` ADDS (`line_text + ' '`, `f' {line_text[-1]} '`) are written here and tied
to the regenerated ones by the obligations of Lemmas/C16Consts.lean (the statement itself says "exactly
one space").  `string.punctuation` is a constant of CPython, not of the code under verification.
-/
import PagexmlModel.Basic.Err
import PagexmlModel.Model.C17
import PagexmlModel.Generated.C16

namespace Pagexml.C16
open Pagexml.C17

/-- a text line as the paragraph builder sees it: `line.id`, `line.metadata.get('parent_id')`,
    `line.text` (`none` = Python `None`) -/
structure Line where
  id : Str
  parent : Option Str
  text : Option Str
  deriving Repr, DecidableEq

structure Range where
  start : Nat
  stop : Nat
  lineId : Str
  parentId : Option Str
  deriving Repr, DecidableEq

abbrev Decide := List Str → List Str → Res Decision

/-- the character with special prefix treatment in `make_text_region_text`: the `S` of
    `prev_line_text.startswith(S)`, cut off when the flag is set -/
def lowQuote : Char := Generated.C16.quoteStrip

/-- `len(line_text) >= 2 and line_text[-1] in B and line_text[-2] in B` -/
def doubledBreak (B : BreakSet) (text : Str) : Res Bool :=
  if text.length ≥ 2 then do
    let l1 ← pyLast text
    if B l1 then do
      let l2 ← pyLast2 text
      pure (B l2)
    else pure false
  else pure false

/-- `line_text[-1] in B and merge_word.startswith(end_word) is False` (`l` is `line_text[-1]`) -/
def mergeStripTest (B : BreakSet) (l : Char) (endWord : Str) (mergeWord : Option Str) : Res Bool :=
  if B l then
    match mergeWord with
    | none => .error .AttributeError          -- None.startswith
    | some mw => pure (!(endWord.isPrefixOf mw))
  else pure false

/-- `line_text[-1] in B and len(line_text) >= 2 and line_text[-2] != ' '` -/
def detachTest (B : BreakSet) (lineText : Str) (l : Char) : Res Bool :=
  if B l && decide (lineText.length ≥ 2) then do
    let l2 ← pyLast2 lineText
    pure ([l2] != Generated.C16.detachBlank)
  else pure false

/-- `make_line_text(line, do_merge, end_word, merge_word, word_break_chars)` on `line.text = text` -/
def makeLineText (B : BreakSet) (text : Str) (doMerge : Bool) (endWord : Str) (mergeWord : Option Str) :
    Res Str := do
  let doubled ← doubledBreak B text
  let lineText := if doubled then text.dropLast else text      -- remove the redundant break char
  let l ← pyLast lineText
  if doMerge then
    let strip ← mergeStripTest B l endWord mergeWord
    if strip then return lineText.dropLast                     -- the merge word has no break char
    else return text                                           -- `line_text = line.text`
  else
    let detach ← detachTest B lineText l
    if detach then return lineText.dropLast ++ [' ', l, ' ']
    else return lineText ++ [' ']

/-- `make_line_range(text, line, line_text)` -/
def makeLineRange (text : Str) (line : Line) (lineText : Option Str) : Range :=
  let len := match lineText with
    | some t => t.length
    | none => 0
  { start := text.length, stop := text.length + len, lineId := line.id, parentId := line.parent }

structure LoopState where
  text : Str
  ranges : List Range
  prevLine : Line
  prevWords : List Str
  removePrefix : Bool

/-- `if x.text` -/
def truthy : Option Str → Bool
  | some (_ :: _) => true
  | _ => false

/-- `prev_words[-1] if len(prev_words) > 0 else ''` -/
def endWordPy (prevWords : List Str) : Res Str :=
  if prevWords.length > 0 then pyLast prevWords else pure []

/-- one iteration of `for curr_line in lines[1:]` -/
def loopStep (cc : CharClass) (B : BreakSet) (decide : Decide) (st : LoopState) (curr : Line) :
    Res LoopState := do
  let (currWords, prevLineText, removePrefix) ←
    (match curr.text with
     | none => pure (([] : List Str), (if truthy st.prevLine.text then st.prevLine.text.getD [] else []),
                     st.removePrefix)
     | some [] => pure (([] : List Str), (if truthy st.prevLine.text then st.prevLine.text.getD [] else []),
                        st.removePrefix)
     | some currText => do
       let currWords ← lineWords cc B (some currText)
       match st.prevLine.text with
       | some prevText => do
         let (doMerge, mergeWord) ← decide st.prevWords currWords
         let endWord ← endWordPy st.prevWords
         let plt ← makeLineText B prevText doMerge endWord mergeWord
         let plt := if st.removePrefix && [lowQuote].isPrefixOf plt then plt.tail else plt
         let rp := B Generated.C16.quoteTested && [Generated.C16.quoteEnd].isSuffixOf endWord
                     && [Generated.C16.quoteStart].isPrefixOf currText
         pure (currWords, plt, rp)
       | none => pure (currWords, [], st.removePrefix))
  let range := makeLineRange st.text st.prevLine (some prevLineText)
  return { text := st.text ++ prevLineText, ranges := st.ranges ++ [range], prevLine := curr,
           prevWords := currWords, removePrefix := removePrefix }

def runLoop (cc : CharClass) (B : BreakSet) (decide : Decide) : LoopState → List Line → Res LoopState
  | st, [] => .ok st
  | st, l :: ls => do
    let st' ← loopStep cc B decide st l
    runLoop cc B decide st' ls

/-- `make_text_region_text(lines, word_break_chars, wbd)`; `B` is the effective break set
    (the detector's own, when a detector is given), `decide` the detector's interface.
    Result: `(text or None, line_ranges)`. -/
def makeText (cc : CharClass) (B : BreakSet) (decide : Decide) (lines : List Line) :
    Res (Option Str × List Range) :=
  match lines.filter (fun l => truthy l.text) with      -- text is not None and text != ''
  | [] => .ok (none, [])
  | first :: rest => do
    let prevWords ← (if truthy first.text then lineWords cc B first.text else pure [])
    let st ← runLoop cc B decide
      { text := [], ranges := [], prevLine := first, prevWords := prevWords, removePrefix := false } rest
    let range := makeLineRange st.text st.prevLine st.prevLine.text
    let text := match st.prevLine.text with
      | some t => st.text ++ t
      | none => st.text
    return (some text, st.ranges ++ [range])

/-! ### merge_lines -/

/-- the text loop of `merge_lines(lines, remove_word_break, word_break_char)` -/
def mergeText (cc : CharClass) (removeWordBreak : Bool) (wb : Str) : Str → List (Option Str) → Res Str
  | acc, [] => .ok acc
  | acc, t :: rest =>
    match t with
    | none => mergeText cc removeWordBreak wb acc rest
    | some [] => mergeText cc removeWordBreak wb acc rest
    | some txt => do
      let acc' ← (if removeWordBreak && decide (acc.length > 0) && wb.isSuffixOf acc then do
                    let c0 ← pyHead txt
                    pure (if cc.isLower c0 then acc.dropLast else acc)
                  else pure acc)
      mergeText cc removeWordBreak wb (acc' ++ txt) rest

/-- `merge_lines`: the hull of the lines' coordinates (a parameter, computed first), the merged
    text, and `lines[0].metadata` (IndexError for an empty list) -/
def mergeLines {γ : Type} (hull : List γ → Res γ) (cc : CharClass) (removeWordBreak : Bool) (wb : Str)
    (lines : List (γ × Option Str)) : Res (γ × Str) := do
  let coords ← hull (lines.map Prod.fst)
  let text ← mergeText cc removeWordBreak wb [] (lines.map Prod.snd)
  let _ ← pyHead lines
  return (coords, text)

/-! ### the functions called without their optional arguments: the defaults of the source apply -/

/-- `make_line_text(line, do_merge, end_word, merge_word)` / `…(…, word_break_chars)` -/
def makeLineTextD (B : Option BreakSet) (text : Str) (doMerge : Bool) (endWord : Str) (mergeWord : Option Str) :
    Res Str :=
  makeLineText (B.getD (breakOf Generated.C16.defaultBreakMakeLineText)) text doMerge endWord mergeWord

/-- the `word_break_chars` of `make_text_region_text(lines)` / `…(lines, word_break_chars)` -/
def makeTextBreak (B : Option BreakSet) : BreakSet := B.getD (breakOf Generated.C16.defaultBreakMakeText)

/-- `merge_lines(lines)` / `merge_lines(lines, remove_word_break, word_break_char)` -/
def mergeLinesD {γ : Type} (hull : List γ → Res γ) (cc : CharClass) (removeWordBreak : Option Bool)
    (wb : Option Str) (lines : List (γ × Option Str)) : Res (γ × Str) :=
  mergeLines hull cc (removeWordBreak.getD Generated.C16.defaultMergeRemove)
    (wb.getD Generated.C16.defaultMergeWordBreak) lines

/-! ### line_ends_with_word_break -/

/-- `string.punctuation` -/
def isAsciiPunct (c : Char) : Bool :=
  ['!', '"', '#', '$', '%', '&', '\'', '(', ')', '*', '+', ',', '-', '.', '/', ':', ';', '<', '=', '>', '?', '@',
   '[', '\\', ']', '^', '_', '`', '{', '|', '}', '~'].contains c

/-- group 1 of `re.search(r"(\w+)\W+$", s)`: the last maximal word run, provided a non-empty run of
    non-word characters follows it up to the end of the string -/
def lastWordBeforeTail (cc : CharClass) (s : Str) : Option Str :=
  match (splitRuns cc s).reverse with
  | (c :: _) :: w :: _ => if cc.isWord c then none else some w
  | _ => none

/-- group 1 of `re.search(r"^(\w+)", s)`: the first run, if it is a word run -/
def firstWord (cc : CharClass) (s : Str) : Option Str :=
  match splitRuns cc s with
  | (c :: r) :: _ => if cc.isWord c then some (c :: r) else none
  | _ => none

/-- a non-empty `word_freq` counter: lookups and `sum(word_freq.values())` -/
structure WordFreq where
  freq : Str → Nat
  total : Nat

/-- `line_ends_with_word_break(curr_line, next_line, word_freq)`.
    `next = none`: no next line; `next = some none`: a next line without text.
    `wf = none`: `word_freq` is `None` or empty.  The PMI test `joint * total / (last * next) > p/q` is the
    integer comparison `joint * total * q > p * (last * next)` (the denominators are positive there). -/
def lineEndsWithWordBreak (cc : CharClass) (currText : Option Str) (next : Option (Option Str))
    (wf : Option WordFreq) : Res Bool :=
  match next with
  | none => .ok false
  | some none => .ok false
  | some (some []) => .ok false
  | some (some nextText) => do
    let cur ← (match currText with
               | none => (.error .TypeError : Res Str)          -- None[-1]
               | some t => pure t)
    let l ← pyLast cur
    if !isAsciiPunct l then return false
    else
      match lastWordBeforeTail cc cur with
      | none => return false
      | some lastWord =>
        match firstWord cc nextText with
        | none => return false
        | some nextWord =>
          if [l] = Generated.C16.wordBreakHyphen then return true
          else
            match wf with
            | none => return false
            | some w =>
              let joint := w.freq (lastWord ++ nextWord)
              let fl := w.freq lastWord
              let fn := w.freq nextWord
              if joint = 0 then return false
              else if fl * fn = 0 then return true
              else if joint * w.total * Generated.C16.pmiThreshold.2 > Generated.C16.pmiThreshold.1 * (fl * fn)
                then return true
              else if joint > fl && joint > fn then return true
              else if fn < joint && joint ≤ fl then return true
              else return false

end Pagexml.C16
