/-
Shared by C01 / C05 / C08: abstract XML element trees, the values `xmltodict.parse`
produces, and `toDict`, the model of `xmltodict.parse` with its default options
(DESIGN §3.6):

  attributes            → "@k" entries, in document order, before the children
  children              → grouped by tag in first-occurrence order (`push_data`)
  repeated tag          → list of the values, in document order
  text-only element     → str
  text + attrs/children → "#text" entry, after the children
  empty element         → None
  text                  → whitespace-stripped (`strip_whitespace=True`), whitespace-only → None

Python's `str.strip()` strips every character with `str.isspace()`; the table of these
characters is `isPySpace` (checked against the running CPython by the harness).
-/
import PagexmlModel.Basic.Err

namespace Pagexml.X

instance instDecEqExcept {ε α : Type} [DecidableEq ε] [DecidableEq α] : DecidableEq (Except ε α)
  | .ok a, .ok b => if h : a = b then isTrue (by rw [h]) else isFalse (fun e => h (by injection e))
  | .error a, .error b => if h : a = b then isTrue (by rw [h]) else isFalse (fun e => h (by injection e))
  | .ok _, .error _ => isFalse (fun e => by injection e)
  | .error _, .ok _ => isFalse (fun e => by injection e)

/-- `str.isspace()` of CPython 3.12 for a single character -/
def isPySpace (c : Char) : Bool :=
  let n := c.toNat
  (9 ≤ n && n ≤ 13) || (28 ≤ n && n ≤ 32) || n = 0x85 || n = 0xA0 || n = 0x1680 ||
  (0x2000 ≤ n && n ≤ 0x200A) || n = 0x2028 || n = 0x2029 || n = 0x202F || n = 0x205F || n = 0x3000

def dropSpace : List Char → List Char
  | [] => []
  | c :: cs => if isPySpace c then dropSpace cs else c :: cs

/-- `str.strip()` -/
def stripChars (cs : List Char) : List Char := (dropSpace (dropSpace cs).reverse).reverse

def strip (s : String) : String := String.ofList (stripChars s.toList)

/-- an element: tag, attributes in document order, character data (all chunks joined), children -/
inductive Xml where
  | elem (tag : String) (attrs : List (String × String)) (text : String) (children : List Xml)
  deriving Repr, Inhabited

def Xml.tag : Xml → String
  | .elem t _ _ _ => t

/-- what `xmltodict.parse` returns: `None`, `str`, `list`, `dict` (insertion-ordered) -/
inductive PyVal where
  | none
  | str (s : String)
  | list (xs : List PyVal)
  | dict (kvs : List (String × PyVal))
  deriving Repr, Inhabited

abbrev Entries := List (String × PyVal)

def lookup (k : String) : Entries → Option PyVal
  | [] => none
  | (k', v) :: r => if k' = k then some v else lookup k r

def keys (d : Entries) : List String := d.map (·.1)

/-- `push_data(item, key, data)`: new key → appended; existing list → extended;
    existing other value → becomes a two-element list -/
def push (k : String) (v : PyVal) : Entries → Entries
  | [] => [(k, v)]
  | (k', old) :: r =>
    if k' = k then
      (k', match old with
           | .list xs => PyVal.list (xs ++ [v])
           | o => PyVal.list [o, v]) :: r
    else (k', old) :: push k v r

def pushAll (d : Entries) (kvs : Entries) : Entries :=
  kvs.foldl (fun d kv => push kv.1 kv.2 d) d

def attrEntries (attrs : List (String × String)) : Entries :=
  attrs.map (fun kv => ("@" ++ kv.1, PyVal.str kv.2))

/-- the value of a text node: stripped; nothing left → `None` -/
def textVal (t : String) : PyVal :=
  if strip t = "" then .none else .str (strip t)

/-- `endElement`: `item` is the dict of attributes and children (absent if there are none),
    `data` the stripped text -/
def finish (item : Entries) (text : String) : PyVal :=
  if item.isEmpty then textVal text
  else if strip text = "" then .dict item
  else .dict (push "#text" (.str (strip text)) item)

mutual
  def toDict : Xml → PyVal
    | .elem _ attrs text children => finish (pushAll (attrEntries attrs) (toDictList children)) text
  def toDictList : List Xml → Entries
    | [] => []
    | c :: cs => (c.tag, toDict c) :: toDictList cs
end

/-- the document: `{root tag: value}` -/
def toDictDoc (x : Xml) : PyVal := .dict [(x.tag, toDict x)]

/-! ### Python operators on these values -/

def isInfix (pat : List Char) : List Char → Bool
  | [] => pat.isEmpty
  | c :: cs => pat.isPrefixOf (c :: cs) || isInfix pat cs

/-- `k in x` -/
def pyIn (k : String) : PyVal → Res Bool
  | .none => .error .TypeError
  | .str s => .ok (isInfix k.toList s.toList)
  | .list xs => .ok (xs.any fun x => match x with | .str s => s = k | _ => false)
  | .dict d => .ok ((lookup k d).isSome)

/-- `x[k]` for a string key -/
def pyGet (k : String) : PyVal → Res PyVal
  | .dict d => match lookup k d with
    | some v => .ok v
    | none => .error .KeyError
  | _ => .error .TypeError

/-- `x[k] if k in x else None`, as used for optional attributes -/
def pyGetOpt (k : String) (x : PyVal) : Res (Option PyVal) := do
  if ← pyIn k x then some <$> pyGet k x else pure none

/-- truthiness -/
def truthy : PyVal → Bool
  | .none => false
  | .str s => s ≠ ""
  | .list xs => !xs.isEmpty
  | .dict d => !d.isEmpty

def isList : PyVal → Bool
  | .list _ => true
  | _ => false

def isDict : PyVal → Bool
  | .dict _ => true
  | _ => false

/-- several values of one tag as xmltodict stores them: one → itself, several → list -/
def collapse : List PyVal → PyVal
  | [v] => v
  | vs => .list vs

/-- the entry of one tag group (`none` when the group is empty) -/
def groupEntry (t : String) (vs : List PyVal) : Entries :=
  if vs.isEmpty then [] else [(t, collapse vs)]

end Pagexml.X
