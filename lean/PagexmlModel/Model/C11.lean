/-
Model of the custom-attribute code (DESIGN §7 C11):
  pagexml/parser.py   parse_custom_attributes, parse_custom_attribute_parts,
                      parse_custom_metadata, parse_custom_metadata_element(_list),
                      the add_type(metadata['type']) step of parse_textregion / parse_tableregion
  pagexml/model/xml.py            make_custom_string
  pagexml/helper/pagexml_helper.py get_custom_tags
Transcribed statement by statement.  Strings are `List Char`; `\w`, `\b` and `str.strip`
are parametric in a `CharClass` whose bits the harness sends from the running CPython.
-/
import PagexmlModel.Basic.Err
import PagexmlModel.Basic.PyInt
import PagexmlModel.Model.C03
import PagexmlModel.Generated.C11

namespace Pagexml.C11
open Pagexml.C03 (splitOn intercalate)

/-- the two Unicode-table dependent predicates this code uses:
    `isWord c` ⇔ `re.match(r'\w', c)`, `isSpace c` ⇔ `c.isspace()` (what `str.strip()` removes) -/
structure CharClass where
  isWord : Char → Bool
  isSpace : Char → Bool

/-- a value of a parsed attribute: `str`, or `int` for the integer-typed keys -/
inductive Val where
  | str (s : List Char)
  | int (i : Int)
  deriving DecidableEq, Repr

abbrev Key := List Char

/-- a Python `dict` with string keys: association list in insertion order, keys unique -/
abbrev Dict := List (Key × Val)

/-- `d[k] = v`: overwrite in place (the position of the first insertion is kept) or append -/
def dictSet : Dict → Key → Val → Dict
  | [], k, v => [(k, v)]
  | (k', v') :: d, k, v => if k' = k then (k', v) :: d else (k', v') :: dictSet d k v

def dictGet? : Dict → Key → Option Val
  | [], _ => none
  | (k', v') :: d, k => if k' = k then some v' else dictGet? d k

def tagNameKey : Key := ['t', 'a', 'g', '_', 'n', 'a', 'm', 'e']
def typeKey : Key := ['t', 'y', 'p', 'e']
def offsetKey : Key := ['o', 'f', 'f', 's', 'e', 't']
def lengthKey : Key := ['l', 'e', 'n', 'g', 't', 'h']

/-! ### `str.strip()` -/

def stripLeft (cc : CharClass) : List Char → List Char
  | [] => []
  | c :: cs => if cc.isSpace c then stripLeft cc cs else c :: cs

def stripRight (cc : CharClass) (cs : List Char) : List Char := (stripLeft cc cs.reverse).reverse

def strip (cc : CharClass) (cs : List Char) : List Char := stripRight cc (stripLeft cc cs)

/-! ### `parse_custom_attribute_parts` -/

/-- `metadata[field] = int(value) if field in ('offset', 'length', 'index') else value`
    (the key tuple is regenerated from the source, `Generated/C11.lean`) -/
def convertValue (field value : List Char) : Res Val :=
  if field ∈ Gen.intKeys then
    match pyInt? value with
    | some i => .ok (.int i)
    | none => .error .ValueError
  else .ok (.str value)

/-- the `for part in structure_parts` loop: `''` parts are skipped; a part that does not split
    into exactly two fields at ':' raises ValueError (`field, value = part.split(':')`) -/
def parsePartsAux (cc : CharClass) : List (List Char) → Dict → Res Dict
  | [], d => .ok d
  | p :: ps, d =>
    if p = [] then parsePartsAux cc ps d
    else
      match splitOn ':' p with
      | [f, v] =>
        match convertValue (strip cc f) (strip cc v) with
        | .ok val => parsePartsAux cc ps (dictSet d (strip cc f) val)
        | .error e => .error e
      | _ => .error .ValueError

def parseParts (cc : CharClass) (body : List Char) : Res Dict :=
  parsePartsAux cc (splitOn ';' (strip cc body)) []

/-! ### the regular expression `\b(NAME)GAP{(.*?)}`, hand-compiled

`NAME` is `\w+` (every name accepted) or a literal / an alternation of literals made of word
characters (`accept` tests the maximal word run: since the name is followed by white space or the
brace, the literal matches iff it is the whole run).  `(\w+)` is greedy and may backtrack, but a
shorter run is followed by a word character, never by what the pattern demands next, so only the
maximal run can match; `\b` before a word character means "the previous character is not a
word character (or there is none)".

`GAP` is what the source writes between the name and the brace.  It is regenerated per pattern
(`Generated/C11.lean`, the `…AnySpace` constants): one literal space (`false`), or `\s*` (`true`:
any number of `str.isspace` characters, none included; greedy, and a shorter run is followed by
white space, never by the brace, so only the maximal run can match). -/

/-- `GAP{` at the start of `s`: the number of characters it takes, and what follows the brace -/
def gapBrace (cc : CharClass) (anySpace : Bool) (s : List Char) : Option (Nat × List Char) :=
  if anySpace then
    match stripLeft cc s with
    | '{' :: r => some (s.length - r.length, r)
    | _ => none
  else
    match s with
    | ' ' :: '{' :: r => some (2, r)
    | _ => none

def gapWidth (cc : CharClass) (anySpace : Bool) (s : List Char) : Nat :=
  match gapBrace cc anySpace s with
  | some g => g.1
  | none => 0

/-- maximal run of word characters at the start, and the rest -/
def wordRun (cc : CharClass) : List Char → List Char × List Char
  | [] => ([], [])
  | c :: cs =>
    if cc.isWord c then
      let r := wordRun cc cs
      (c :: r.1, r.2)
    else ([], c :: cs)

/-- `(.*?)}`: the shortest run of characters other than '\n' that is followed by '}' -/
def lazyBody : List Char → Option (List Char)
  | [] => none
  | c :: cs =>
    if c = '}' then some []
    else if c = '\n' then none
    else match lazyBody cs with
      | some b => some (c :: b)
      | none => none

/-- an attempt to match the pattern exactly here; `prev` = "the previous character is a word
    character".  Result: (group 1, group 2); the match is `name ++ GAP ++ "{" ++ body ++ "}"`. -/
def matchAt (cc : CharClass) (anySpace : Bool) (accept : List Char → Bool) (prev : Bool) (s : List Char) :
    Option (List Char × List Char) :=
  match s with
  | [] => none
  | c :: _ =>
    if prev || !cc.isWord c then none
    else
      let r := wordRun cc s
      if !accept r.1 then none
      else
        match gapBrace cc anySpace r.2 with
        | some g =>
          match lazyBody g.2 with
          | some b => some (r.1, b)
          | none => none
        | none => none

/-- `re.finditer`: try every position from left to right; after a match continue behind it
    (`skip` counts the characters of the current match still to be passed over: the name but its
    first character, the gap with the brace, the body; the closing brace is the `+ 1` of the pattern
    `skip + 1`) -/
def scan (cc : CharClass) (anySpace : Bool) (accept : List Char → Bool) :
    Nat → Bool → List Char → List (List Char × List Char)
  | _, _, [] => []
  | skip + 1, _, c :: cs => scan cc anySpace accept skip (cc.isWord c) cs
  | 0, prev, c :: cs =>
    match matchAt cc anySpace accept prev (c :: cs) with
    | some m => m :: scan cc anySpace accept
        (m.1.length + gapWidth cc anySpace ((c :: cs).drop m.1.length) + m.2.length) (cc.isWord c) cs
    | none => scan cc anySpace accept 0 (cc.isWord c) cs

def findAll (cc : CharClass) (anySpace : Bool) (accept : List Char → Bool) (s : List Char) :
    List (List Char × List Char) :=
  scan cc anySpace accept 0 false s

/-! ### `parse_custom_attributes` -/

/-- one parsed tag.  Python keeps it as one dict `{**attrs, 'tag_name': name}`; the model keeps
    the name apart and the other keys in dict order (an attribute called `tag_name` is
    overwritten by the name — it is dropped here). -/
structure Entry where
  name : List Char
  attrs : Dict
  deriving DecidableEq, Repr

def mkEntry (name : List Char) (d : Dict) : Entry :=
  { name := name, attrs := d.filter (fun kv => kv.1 ≠ tagNameKey) }

def parseMatches (cc : CharClass) : List (List Char × List Char) → Res (List Entry)
  | [] => .ok []
  | m :: ms =>
    match parseParts cc m.2 with
    | .error e => .error e
    | .ok d =>
      match parseMatches cc ms with
      | .error e => .error e
      | .ok es => .ok (mkEntry m.1 d :: es)

def parseCustomAttributes (cc : CharClass) (s : List Char) : Res (List Entry) :=
  parseMatches cc (findAll cc Gen.attributesAnySpace (fun _ => true) s)

/-! ### `make_custom_string` -/

def showVal : Val → List Char
  | .str s => s
  | .int i => showInt i

/-- `f"{field}:{value};"` -/
def fieldString (kv : Key × Val) : List Char := kv.1 ++ ':' :: (showVal kv.2 ++ [';'])

/-- `tag_name + ' {' + ' '.join(fields) + '} '` -/
def elementString (e : Entry) : List Char :=
  e.name ++ ' ' :: '{' :: (intercalate [' '] (e.attrs.map fieldString) ++ ['}', ' '])

def makeCustomString (es : List Entry) : List Char := intercalate [' '] (es.map elementString)

/-! ### `parse_custom_metadata_element`, `…_element_list`, `parse_custom_metadata` -/

/-- the pattern `<tag>GAP{` exactly here -/
def guardAt (cc : CharClass) (anySpace : Bool) (tag s : List Char) : Bool :=
  tag.isPrefixOf s && (gapBrace cc anySpace (s.drop tag.length)).isSome

/-- `'<tag> {' in s` (one literal space) / `re.search(r'<tag>\s*{', s)`: the pattern somewhere in `s` -/
def hasGuard (cc : CharClass) (anySpace : Bool) (tag : List Char) : List Char → Bool
  | [] => guardAt cc anySpace tag []
  | c :: cs => guardAt cc anySpace tag (c :: cs) || hasGuard cc anySpace tag cs

/-- `re.search(r'\b' + field + r'GAP{(.*?)}', s)`; no match → ValueError -/
def parseElement (cc : CharClass) (s : List Char) (field : List Char) : Res Dict :=
  match findAll cc Gen.elementAnySpace (fun r => r = field) s with
  | [] => .error .ValueError
  | m :: _ => parseParts cc m.2

def parseElementMatches (cc : CharClass) : List (List Char × List Char) → Res (List Dict)
  | [] => .ok []
  | m :: ms =>
    match parseParts cc m.2 with
    | .error e => .error e
    | .ok d =>
      match parseElementMatches cc ms with
      | .error e => .error e
      | .ok ds => .ok (dictSet d typeKey (.str m.1) :: ds)

/-- `re.finditer(r'\b(' + '|'.join(fields) + r')GAP{(.*?)}', s)`; `metadata['type'] = tag` -/
def parseElementList (cc : CharClass) (s : List Char) (fields : List (List Char)) : Res (List Dict) :=
  parseElementMatches cc (findAll cc Gen.elementListAnySpace (fun r => fields.contains r) s)

structure Metadata where
  customAttributes : List Entry
  readingOrder : Option Dict
  structureEl : Option Dict
  typeVal : Option Val
  textStyle : Option (List Dict)
  customTags : Option (List Dict)
  deriving DecidableEq, Repr

/-- `if guard: metadata[key] = f(...)`: the field is set (`some`) only under the guard, and an
    exception of `f` propagates -/
def whenGuard {α} (g : Bool) (r : Res α) : Res (Option α) :=
  if g then
    match r with
    | .ok a => .ok (some a)
    | .error e => .error e
  else .ok none

/-- the guard in front of a dedicated field.  The source decides its style and its gap (both
    regenerated, `Generated/C11.lean`): the plain test `'<tag> {' in custom` / `re.search(r'<tag>\s*{', custom)`,
    or `re.search(r'\b<tag>GAP{.*?}', custom)` — the pattern the element parsers use themselves. -/
def guardHolds (cc : CharClass) (regexStyle anySpace : Bool) (tag s : List Char) : Bool :=
  if regexStyle then !(findAll cc anySpace (fun r => r = tag) s).isEmpty else hasGuard cc anySpace tag s

/-- `parse_custom_metadata` for an element that has a `custom` attribute;
    `if custom_tags:` is the truthiness of the requested list. -/
def parseCustomMetadata (cc : CharClass) (s : List Char) (customTags : List (List Char)) : Res Metadata :=
  match parseCustomAttributes cc s with
  | .error e => .error e
  | .ok ca =>
    match whenGuard (guardHolds cc Gen.readingOrderGuardRegex Gen.readingOrderGuardAnySpace Gen.readingOrderTag s) (parseElement cc s Gen.readingOrderTag) with
    | .error e => .error e
    | .ok ro =>
      match whenGuard (guardHolds cc Gen.structureGuardRegex Gen.structureGuardAnySpace Gen.structureTag s) (parseElement cc s Gen.structureTag) with
      | .error e => .error e
      | .ok st =>
        match whenGuard (guardHolds cc Gen.textStyleGuardRegex Gen.textStyleGuardAnySpace Gen.textStyleTag s) (parseElementList cc s [Gen.textStyleTag]) with
        | .error e => .error e
        | .ok ts =>
          match whenGuard (!customTags.isEmpty) (parseElementList cc s customTags) with
          | .error e => .error e
          | .ok ct =>
            .ok { customAttributes := ca, readingOrder := ro, structureEl := st,
                  typeVal := st.bind (fun d => dictGet? d typeKey), textStyle := ts, customTags := ct }

/-- `add_type(t)` on the element's type list: appended unless already present -/
def addType (types : List (List Char)) (t : List Char) : List (List Char) :=
  if types.contains t then types else types ++ [t]

/-- the types of a text region / table region after parsing: `metadata['type']` (always a
    `str`: `type` is not an integer-typed key; an `int` is mirrored as TypeError-free no-op) -/
def typesAfter (types : List (List Char)) (md : Option Metadata) : List (List Char) :=
  match md with
  | some m =>
    match m.typeVal with
    | some (.str t) => addType types t
    | _ => types
  | none => types

/-! ### `get_custom_tags` -/

/-- Python `s[a:b]` for a string -/
def clampIdx (n : Nat) (i : Int) : Nat :=
  if i < 0 then (i + n).toNat else min i.toNat n

def pySlice (s : List Char) (a b : Int) : List Char :=
  let a' := clampIdx s.length a
  let b' := clampIdx s.length b
  (s.drop a').take (b' - a')

structure TagRow where
  typeVal : Val
  value : List Char
  regionId : String
  lineId : String
  offset : Int
  length : Int
  deriving DecidableEq, Repr

/-- one `tag_el` of `line.metadata['custom_tags']`: `tag_el['type']`, `['offset']`, `['length']`
    (KeyError when missing), then `line.text[offset:offset + length]` (TypeError on `None`) -/
def tagRow (regionId lineId : String) (text : Option (List Char)) (tag : Dict) : Res TagRow :=
  match dictGet? tag typeKey with
  | none => .error .KeyError
  | some ty =>
    match dictGet? tag offsetKey with
    | none => .error .KeyError
    | some off =>
      match dictGet? tag lengthKey with
      | none => .error .KeyError
      | some len =>
        match text, off, len with
        | some t, .int o, .int l =>
          .ok { typeVal := ty, value := pySlice t o (o + l), regionId := regionId, lineId := lineId,
                offset := o, length := l }
        | _, _, _ => .error .TypeError

structure LineIn where
  id : String
  text : Option (List Char)
  custom : Option (List Char)

structure RegionIn where
  id : String
  lines : List LineIn

/-- the `custom_tags` list of a parsed line (`line.metadata.get("custom_tags", [])`) -/
def lineTags (cc : CharClass) (customTags : List (List Char)) (l : LineIn) : Res (List Dict) :=
  match l.custom with
  | none => .ok []
  | some s => (parseCustomMetadata cc s customTags).map (fun md => md.customTags.getD [])

def mapMRes {α β} (f : α → Res β) : List α → Res (List β)
  | [] => .ok []
  | a :: as =>
    match f a with
    | .error e => .error e
    | .ok b =>
      match mapMRes f as with
      | .error e => .error e
      | .ok bs => .ok (b :: bs)

/-- `get_custom_tags(parse_pagexml_file(…, custom_tags=customTags))` restricted to what it
    reads: the direct lines of the top-level text regions.  Parsing (ValueError) comes first,
    then the rows in document order. -/
def getCustomTags (cc : CharClass) (customTags : List (List Char)) (regions : List RegionIn) :
    Res (List TagRow) := do
  let parsed ← mapMRes (fun r => (mapMRes (fun l => (lineTags cc customTags l).map (fun ts => (l, ts))) r.lines).map
    (fun ls => (r, ls))) regions
  let rows ← mapMRes (fun (rl : RegionIn × List (LineIn × List Dict)) =>
    (mapMRes (fun (lt : LineIn × List Dict) => mapMRes (tagRow rl.1.id lt.1.id lt.1.text) lt.2) rl.2).map List.flatten) parsed
  return rows.flatten

end Pagexml.C11
