/-
Model of the batch readers of pagexml/parser.py — DESIGN §7 C13 (and the single-file reader
`parse_pagexml_file`, whose source independence is the last clause of C12).

The ordered `except` clauses of `parse_pagexml_files` and `parse_pagexml_files_from_archive` and the
test `pagexml_data is None` are GENERATED from the source (`Generated/C13.lean`); this file gives
them their Python meaning: exception matching by subclass, first matching clause, first arm whose
guard holds, and generator semantics (an exception escaping a generator ends it).
-/
import PagexmlModel.Generated.C13

namespace Pagexml.C13
open Pagexml.Generated.C13

/-! ### exception classes -/

/-- direct base class in CPython 3.12 (`xml.parsers.expat.ExpatError` derives from `Exception`);
    a class the table does not know has no known base: it is matched by its own name only -/
def parent (c : String) : Option String :=
  if c = "UnicodeDecodeError" then some "UnicodeError"
  else if c = "UnicodeError" then some "ValueError"
  else if c = "FileNotFoundError" ∨ c = "IsADirectoryError" ∨ c = "PermissionError" then some "OSError"
  else if c = "KeyError" ∨ c = "IndexError" then some "LookupError"
  else if c = "ZeroDivisionError" then some "ArithmeticError"
  else if c = "RecursionError" then some "RuntimeError"
  else if c = "ValueError" ∨ c = "TypeError" ∨ c = "AttributeError" ∨ c = "LookupError" ∨ c = "OSError"
       ∨ c = "ArithmeticError" ∨ c = "RuntimeError" ∨ c = "MemoryError" ∨ c = "ExpatError" then some "Exception"
  else if c = "Exception" then some "BaseException"
  else none

/-- `issubclass(c, d)`; the hierarchy above has depth ≤ 4, fuel 6 is ample (and running out of fuel
    answers "no", which can only make fewer exceptions caught) -/
def isSubclassFuel : Nat → String → String → Bool
  | 0, c, d => c = d
  | n + 1, c, d => c = d || (match parent c with
                             | some p => isSubclassFuel n p d
                             | none => false)

def isSubclass (c d : String) : Bool := isSubclassFuel 6 c d

/-! ### except clauses -/

abbrev Arm := String × String × String
abbrev Clause := List String × List Arm

inductive Action where
  | continue_          -- the loop goes on with the next member
  | raise_             -- the exception escapes the generator
  | unknown (what : String)   -- a guard or action word the model does not know: never guessed
  deriving DecidableEq, Repr

/-- `name.endswith(suffix)` -/
def endsWith (s suf : List Char) : Bool := suf.isSuffixOf s

/-- the if/elif/else chain of a clause body; `lacks suffix` answers `name.endswith(suffix) is False`
    for the member at hand -/
def runArms (ignoreErrors : Bool) (lacks : String → Bool) : List Arm → Action
  | [] => .unknown "no arm taken"
  | (g, arg, act) :: rest =>
    let taken : Option Bool :=
      if g = "ignore-errors" then some ignoreErrors
      else if g = "name-lacks-suffix" then some (lacks arg)
      else if g = "else" then some true
      else none
    match taken with
    | none => .unknown g
    | some false => runArms ignoreErrors lacks rest
    | some true =>
      if act = "continue" then .continue_ else if act = "raise" then .raise_ else .unknown act

/-- what happens to an exception of class `cls` raised inside the `try`: the first clause naming a
    base class of `cls` handles it; no clause → it propagates -/
def handle (clauses : List Clause) (ignoreErrors : Bool) (lacks : String → Bool) (cls : String) : Action :=
  match clauses with
  | [] => .raise_
  | (classes, arms) :: rest =>
    if classes.any (isSubclass cls) then runArms ignoreErrors lacks arms
    else handle rest ignoreErrors lacks cls

/-- `name.endswith(suffix) is False` -/
def nameLacks (name : List Char) (suffix : String) : Bool := !endsWith name suffix.toList

/-! ### batches -/

/-- the outcome of the single-file parser on one member: a scan, or an exception class -/
inductive Outcome (α : Type) where
  | good (a : α)
  | fault (cls : String)
  deriving Repr, DecidableEq

structure Member (α : Type) where
  name : List Char          -- the file name handed to the parser (archive: `archived_filename`)
  out : Outcome α
  deriving Repr, DecidableEq

/-- a generator run: scans yielded, then the exception that ended it (if any) -/
abbrev Run (α : Type) := List α × Option String

/-- the loop `for member: try: yield parse(member) except …` -/
def batch {α} (clauses : List Clause) (ignoreErrors : Bool) : List (Member α) → Run α
  | [] => ([], none)
  | m :: ms =>
    match m.out with
    | .good a => let r := batch clauses ignoreErrors ms; (a :: r.1, r.2)
    | .fault cls =>
      match handle clauses ignoreErrors (nameLacks m.name) cls with
      | .continue_ => batch clauses ignoreErrors ms
      | .raise_ => ([], some cls)
      | .unknown w => ([], some ("ModelUnknown:" ++ w))

/-- `parse_pagexml_files(files, ignore_errors)` -/
def batchFiles {α} (ignoreErrors : Bool) (ms : List (Member α)) : Run α := batch filesExcept ignoreErrors ms
/-- `parse_pagexml_files_from_archive(archive, ignore_errors)` on the members the archive reader yields -/
def batchArchive {α} (ignoreErrors : Bool) (ms : List (Member α)) : Run α := batch archiveExcept ignoreErrors ms

/-! ### the single-file reader -/

/-- what is passed as `pagexml_data` -/
inductive Data where
  | absent                     -- `None`
  | text (t : List Char)       -- `str`
  | bytes (b : List UInt8)     -- `bytes`
  deriving Repr, DecidableEq

/-- the generated test at the top of `parse_pagexml_file`: is the content read from disk? -/
def readsDisk (test : String) : Data → Except String Bool
  | .absent => if test = "is-none" ∨ test = "falsy" then .ok true else .error ("ModelUnknown:" ++ test)
  | .text t => if test = "is-none" then .ok false else if test = "falsy" then .ok (t = [])
               else .error ("ModelUnknown:" ++ test)
  | .bytes b => if test = "is-none" then .ok false else if test = "falsy" then .ok (b = [])
                else .error ("ModelUnknown:" ++ test)

/-- `parse_pagexml_file(name, data)`.  Parameters (DESIGN §3.6): `disk` = `read_pagexml_file` (text of a
    path or an OSError / UnicodeDecodeError class), `enc` = UTF-8 encoding (`xmltodict.parse` encodes
    a `str` before handing it to expat), `parse` = expat + xmltodict + `parse_pagexml_json` on bytes.
    Result: the scan and the recorded `metadata['filename']`. -/
def parseFile {α} (disk : List Char → Except String (List Char)) (enc : List Char → List UInt8)
    (parse : List UInt8 → Except String α) (name : List Char) (data : Data) : Except String (α × List Char) := do
  let fromDisk ← readsDisk dataAbsentTest data
  let raw : List UInt8 ←
    if fromDisk then (do let t ← disk name; pure (enc t))
    else match data with
      | .absent => .error "ModelUnreachable"
      | .text t => pure (enc t)
      | .bytes b => pure b
  let scan ← parse raw
  return (scan, name)

end Pagexml.C13
