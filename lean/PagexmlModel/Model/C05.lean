/-
C05 — reading order: `parse_page_reading_order`, and the reading-order part of
`PageXMLTextRegion.__init__` (`set_text_regions_in_reader_order`,
`get_text_regions_in_reading_order`), transcribed statement by statement.

A reading order is the Python dict `index -> region id`, modelled as an association
list in insertion order with unique keys (`roInsert` = `d[i] = ref`).
-/
import PagexmlModel.Model.C01

namespace Pagexml.C05
open Pagexml.X Pagexml.C01

abbrev RO := List (Int × String)

/-- `d[k] = v` on an insertion-ordered dict -/
def assocSet {κ ν : Type} [DecidableEq κ] (k : κ) (v : ν) : List (κ × ν) → List (κ × ν)
  | [] => [(k, v)]
  | (k', v') :: r => if k' = k then (k', v) :: r else (k', v') :: assocSet k v r

def assocGet {κ ν : Type} [DecidableEq κ] (k : κ) : List (κ × ν) → Option ν
  | [] => none
  | (k', v') :: r => if k' = k then some v' else assocGet k r

def roInsert (ro : RO) (i : Int) (ref : String) : RO := assocSet i ref ro

/-- the dict built from `(index, regionRef)` pairs in file order -/
def roOfEntries (es : List (Int × String)) : RO := es.foldl (fun ro e => roInsert ro e.1 e.2) []

/-- the loop body over the RegionRefIndexed entries -/
def roStep (ro : RO) (ref : PyVal) : Res RO := do
  if ← pyIn "@regionRef" ref then
    let i ← pyIntStr (← strOf (← pyGet "@index" ref))
    let r ← strOf (← pyGet "@regionRef" ref)
    return roInsert ro i r
  else return ro

/-- `x if isinstance(x, list) else [x]` -/
def listOrSingle (v : PyVal) : List PyVal :=
  match v with
  | .list xs => xs
  | x => [x]

/-- `parse_page_reading_order(page)`, applied to the (truthy) ReadingOrder value;
    result: the dict and the `id` / `caption` attributes of the group -/
def parseReadingOrder (v : PyVal) : Res (RO × List (String × String)) := do
  let hasOrdered ← (do
    if ← pyIn "OrderedGroup" v then pyIn "RegionRefIndexed" (← pyGet "OrderedGroup" v)
    else pure false : Res Bool)
  if hasOrdered then
    let og ← pyGet "OrderedGroup" v
    let rri ← pyGet "RegionRefIndexed" og
    let ro ← (listOrSingle rri).foldlM roStep []
    let a1 ← (do if ← pyIn "@id" og then pure [("id", ← strOf (← pyGet "@id" og))] else pure [] : Res (List (String × String)))
    let a2 ← (do if ← pyIn "@caption" og then pure [("caption", ← strOf (← pyGet "@caption" og))] else pure [] : Res (List (String × String)))
    return (ro, a1 ++ a2)
  else
    -- `elif 'UnorderedGroup' in order_dict: pass` (the test itself is evaluated)
    let _ ← pyIn "UnorderedGroup" v
    return ([], [])

/-- ids in first-occurrence order (`list({id: None for id in ids})`) -/
def dedup : List String → List String
  | [] => []
  | x :: xs => x :: (dedup xs).filter (· ≠ x)

/-- `sorted(reading_order.items(), key=lambda x: x[0])` -/
def sortedItems (ro : RO) : List (Int × String) := ro.mergeSort (fun a b => a.1 ≤ b.1)

/-- `get_text_regions_in_reading_order` for a non-empty reading order -/
def inReadingOrder {α : Type} (idOf : α → Option String) (ro : RO) (rs : List α) : List α :=
  let trIds := dedup ((sortedItems ro).map (·.2))
  let trMap : List (Option String × α) := rs.foldl (fun m r => assocSet (idOf r) r m) []
  trIds.filterMap (fun i => assocGet (some i) trMap)

/-- `reading_order_number`: region id -> index (a later entry for the same id overwrites) -/
def roNumber (ro : RO) : List (String × Int) := ro.foldl (fun m e => assocSet e.2 e.1 m) []

def covered (idOf : α → Option String) (ro : RO) (rs : List α) : Bool :=
  rs.all (fun r => match idOf r with
    | some i => (assocGet i (roNumber ro)).isSome
    | none => false)

/-- the reading-order part of `PageXMLTextRegion.__init__`:
    result = (`text_regions`, `reading_order` — `none` is Python `None`) -/
def orderRegions {α : Type} (idOf : α → Option String) (ro : RO) (rs : List α) : List α × Option RO :=
  if ro.isEmpty then (rs, some [])
  else if covered idOf ro rs then (inReadingOrder idOf ro rs, some ro)
  else (rs, none)

/-- `get_text_regions_in_reading_order()` called on the finished object -/
def getInReadingOrder {α : Type} (idOf : α → Option String) (ro : Option RO) (rs : List α) : List α :=
  match ro with
  | none => rs
  | some ro => if ro.isEmpty then rs else inReadingOrder idOf ro rs

end Pagexml.C05
