/-
Model of the word splitting and word-break decision code (DESIGN §7 C17):
  pagexml/helper/text_helper.py   get_line_words, get_page_lines_words, split_line_words,
                                  remove_word_break_chars, remove_hyphen
  pagexml/analysis/text_stats.py  determine_word_break and the predicates it calls

Strings are `List Char`.  Everything that depends on Unicode tables is read from a
`CharClass` record; the break-character set is a predicate `B : Char → Bool`
(`c in word_break_chars` for a one-character `c`, whether the argument is a `str` or a `set`).
Partial Python operations (`s[-1]`, `s[-2]`, `s[0]`) are `Res`-valued and raise `IndexError`.

The numbers and hyphen literals of the word-break decision are NOT written here: the factors with which
`determine_word_break`, `merge_is_more_common` and `start_word_has_incorrect_titlecase` reach their
predicates (literal at the call site, else the callee's default), the `> 0` / `== 0` thresholds, the `'-'`
literals of `has_non_merge_word` / `has_word_break_symbol` / `end_start_are_hyphenated_compound`, the
character set and the `'--'` of `remove_hyphen`, and the default break characters of the four functions
that have one are `Generated.C17.*`, regenerated from the source on every run (harness/props/c17.py
`generated_c17`).  What the theorems need of them is stated in Lemmas/C17Consts.lean.
Written by hand: the blank of `line[-2] == ' '` / `term == ' '` in `get_line_words` (tied to the source by
the obligations `consts_norm_blank_is_blank` / `consts_skip_term_is_blank`: the proofs need exactly U+0020
there), and structure: the lengths `>= 2` that go with the slices `[-2]`, `[:-2]`, `[-2:]`.
-/
import PagexmlModel.Basic.Err
import PagexmlModel.Generated.C17

namespace Pagexml.C17

abbrev Str := List Char

/-- the per-character facts the code reads from CPython's Unicode tables
    (`re` `\w`, `str.isalpha`, `isupper`, `islower`, category `Lt`, `isdigit`, `isspace`) -/
structure CharClass where
  isWord : Char → Bool
  isAlpha : Char → Bool
  isUpper : Char → Bool
  isLower : Char → Bool
  isTitle : Char → Bool
  isDigit : Char → Bool
  isSpace : Char → Bool

abbrev BreakSet := Char → Bool

/-! ### partial list operations -/

/-- `s[0]` -/
def pyHead {α} : List α → Res α
  | [] => .error .IndexError
  | a :: _ => .ok a

/-- `s[-1]` -/
def pyLast {α} : List α → Res α
  | [] => .error .IndexError
  | [a] => .ok a
  | _ :: b :: r => pyLast (b :: r)

/-- `s[-2]` -/
def pyLast2 {α} : List α → Res α
  | [] => .error .IndexError
  | [_] => .error .IndexError
  | [a, _] => .ok a
  | _ :: b :: c :: r => pyLast2 (b :: c :: r)

/-! ### str.strip, str.isupper, str.isdigit, re.search(r'\w') -/

def lstrip (cc : CharClass) (s : Str) : Str := s.dropWhile cc.isSpace
def rstrip (cc : CharClass) (s : Str) : Str := (s.reverse.dropWhile cc.isSpace).reverse
/-- `s.strip()` -/
def strip (cc : CharClass) (s : Str) : Str := rstrip cc (lstrip cc s)

/-- `s.isupper()`: no lower-case or title-case character and at least one upper-case one -/
def strIsUpper (cc : CharClass) (s : Str) : Bool :=
  s.all (fun c => !(cc.isLower c || cc.isTitle c)) && s.any cc.isUpper

/-- `s.isdigit()` -/
def strIsDigit (cc : CharClass) (s : Str) : Bool := !s.isEmpty && s.all cc.isDigit

/-- `re.search(r'\w', s) is not None` -/
def hasWordChar (cc : CharClass) (s : Str) : Bool := s.any cc.isWord

/-! ### re.split(r'\b', line) -/

/-- maximal runs of word / non-word characters -/
def splitRuns (cc : CharClass) : Str → List Str
  | [] => []
  | c :: cs =>
    match splitRuns cc cs with
    | (d :: r) :: rs => if cc.isWord c = cc.isWord d then (c :: d :: r) :: rs else [c] :: (d :: r) :: rs
    | _ => [[c]]            -- cs = []  (a run is never empty)

/-- the empty piece `re.split` yields at a word edge -/
def edge (b : Bool) : List Str := if b then [[]] else []

/-- `re.split(r'\b', s)` (Python ≥ 3.7: splits on the empty matches): the runs, with an
    empty first / last piece when the string starts / ends with a word character -/
def reSplitB (cc : CharClass) (s : Str) : List Str :=
  match s with
  | [] => [[]]
  | c :: _ =>
    edge (cc.isWord c) ++ splitRuns cc s ++
      edge (match s.getLast? with
            | some l => cc.isWord l
            | none => false)

/-! ### get_line_words -/

/-- the first statement of `get_line_words` on a non-empty line:
    a doubled trailing break character counts once, a blank before a trailing break
    character is removed -/
def normLine (B : BreakSet) (line : Str) : Res Str := do
  let l1 ← pyLast line
  if B l1 && decide (line.length ≥ 2) then
    let l2 ← pyLast2 line
    if B l2 then return line.dropLast                       -- line[:-1]
    else if l2 = ' ' then return line.dropLast.dropLast ++ [l1]   -- line[:-2] + line[-1]
    else return line
  else return line

/-- `new_terms[-1] = new_terms[-1] + x` -/
def appendToLast (acc : List Str) (x : Str) : Res (List Str) := do
  let l ← pyLast acc
  return acc.dropLast ++ [l ++ x]

/-- the loop over `enumerate(terms)`; `prev` is `terms[ti-1]` (`none` iff `ti == 0`),
    `acc` is `new_terms` -/
def wordLoop (cc : CharClass) (B : BreakSet) : Option Str → List Str → List Str → Res (List Str)
  | _, acc, [] => .ok acc
  | prev, acc, term :: rest =>
    if strip cc term = [] then
      wordLoop cc B (some term) acc rest              -- whitespace run: continue
    else
      match prev, acc with
      | none, _ => wordLoop cc B (some term) (acc ++ [strip cc term]) rest     -- ti == 0
      | some _, [] => wordLoop cc B (some term) (acc ++ [strip cc term]) rest  -- len(new_terms) == 0
      | some prevTerm, _ :: _ => do
        let t0 ← pyHead term
        let p0 ← pyHead prevTerm
        if B t0 && cc.isAlpha p0 then
          let acc' ← appendToLast acc (strip cc term)
          wordLoop cc B (some term) acc' rest
        else
          let second ← (if cc.isAlpha t0 then do
                          let pl ← pyLast prevTerm
                          pure (B pl)
                        else pure false)
          if second then
            let acc' ← appendToLast acc term
            wordLoop cc B (some term) acc' rest
          else if term = [' '] then
            wordLoop cc B (some term) acc rest
          else
            wordLoop cc B (some term) (acc ++ [strip cc term]) rest

/-- `get_line_words(line, word_break_chars)`; `none` is Python's `None` -/
def lineWords (cc : CharClass) (B : BreakSet) (line : Option Str) : Res (List Str) :=
  match line with
  | none => .ok []
  | some [] => .ok []
  | some line => do
    let line ← normLine B line
    let terms := (reSplitB cc line).filter (fun t => t ≠ [])
    wordLoop cc B none [] terms

/-- `get_page_lines_words`: lines without text are skipped -/
def pageLinesWords (cc : CharClass) (B : BreakSet) (texts : List (Option Str)) : Res (List (List Str)) :=
  (texts.filter Option.isSome).mapM (lineWords cc B)

/-- `split_line_words` -/
def splitLineWords (words : List Str) : Res (List Str × List Str × List Str) := do
  let (s, e) ← (if words.length ≥ 1 then do
                  let h ← pyHead words
                  let l ← pyLast words
                  pure ([h], [l])
                else pure ([], []))
  let m := if words.length ≥ 2 then words.tail.dropLast else []   -- words[1:-1]
  return (s, m, e)

/-! ### remove_word_break_chars, remove_hyphen -/

def removeWordBreakChars (B : BreakSet) (endWord startWord : Str) : Res Str := do
  let el ← pyLast endWord
  let e ← (if B el then do
             let two ← (if endWord.length ≥ 2 then do
                          let e2 ← pyLast2 endWord
                          pure (B e2)
                        else pure false)
             pure (if two then endWord.dropLast.dropLast else endWord.dropLast)
           else pure endWord)
  let s0 ← pyHead startWord
  let s := if B s0 then startWord.tail else startWord
  return e ++ s

/-- `c in {'-', '=', ':'}` (the set is regenerated) -/
def hyphenSet (c : Char) : Bool := Generated.C17.hyphenChars.contains c

def removeHyphen (word : Str) : Res Str := do
  let l ← pyLast word
  if hyphenSet l then
    if word.length ≥ 2 && (word.drop (word.length - 2) == Generated.C17.doubleHyphen) then return word.dropLast.dropLast
    else return word.dropLast
  else return word

/-! ### the detector as data -/

/-- what `determine_word_break` reads from a `WordBreakDetector`: four counters
    (`Counter`: 0 for a missing key), the bigram counter, five sets, its break characters -/
structure Detector where
  freqAll : Str → Nat
  freqMid : Str → Nat
  freqStart : Str → Nat
  freqEnd : Str → Nat
  bigram : Str → Str → Nat
  typicalMergeEnds : Str → Bool
  typicalMergeStarts : Str → Bool
  typicalNonMergeEnds : Str → Bool
  typicalNonMergeStarts : Str → Bool
  commonNonMergeStarts : Str → Bool
  breakChars : BreakSet

def hasNonMergeWord (cc : CharClass) (D : Detector) (e s : Str) : Bool :=
  if !hasWordChar cc e then true
  else if !hasWordChar cc s then true
  else if e = Generated.C17.nonMergeEndWord then true
  else if s = Generated.C17.nonMergeStartWord then true
  else if D.typicalNonMergeEnds e then true
  else if D.typicalNonMergeStarts s then true
  else false

def endStartAreBigram (D : Detector) (mergeWord : Str) (bigramFreq factor : Nat) : Bool :=
  decide (bigramFreq > factor) && decide (bigramFreq > factor * D.freqAll mergeWord)

def isNonMidWord (D : Detector) (w : Str) (factor : Nat) : Bool :=
  if D.freqEnd w > factor * D.freqMid w then true
  else if D.freqStart w > factor * D.freqMid w then true
  else false

def startIsTitleword (cc : CharClass) (s : Str) : Res Bool := do
  let s0 ← pyHead s
  return cc.isUpper s0

def endStartAreHyphenatedCompound (cc : CharClass) (D : Detector) (e s mergeWord : Str) : Res Bool := do
  if strIsUpper cc s then return false
  else
    let e0 ← pyHead e
    -- `a and b and c` short-circuits; all three subscripts are guarded by the caller anyway
    let c1 ← (if cc.isUpper e0 then do
                let el ← pyLast e
                if [el] = Generated.C17.compoundHyphen then do
                  let s0 ← pyHead s
                  pure (cc.isUpper s0)
                else pure false
              else pure false)
    if c1 then
      if D.freqMid s = Generated.C17.compoundStartUnseen.1 && D.freqAll mergeWord = Generated.C17.compoundStartUnseen.2.1
          && D.freqAll (e ++ s) = Generated.C17.compoundStartUnseen.2.2 then return false
      else if D.freqMid e = Generated.C17.compoundEndUnseen.1 && D.freqAll mergeWord = Generated.C17.compoundEndUnseen.2.1
          && D.freqAll (e ++ s) = Generated.C17.compoundEndUnseen.2.2 then return false
      else return true
    else return false

def startWordHasIncorrectTitlecase (cc : CharClass) (D : Detector) (e s : Str) (factor : Nat) : Bool :=
  if D.commonNonMergeStarts s then false
  else if strIsUpper cc s then false
  else if D.freqAll s < factor && D.freqAll e < factor then false
  else isNonMidWord D s Generated.C17.titlecaseNonMidFactorStart && isNonMidWord D e Generated.C17.titlecaseNonMidFactorEnd

def hasCommonMergeEnd (D : Detector) (e s : Str) : Bool :=
  if D.typicalMergeEnds e then true
  else if D.typicalMergeStarts s then true
  else false            -- both arms of the final `if` return False

def hasWordBreakSymbol (cc : CharClass) (D : Detector) (e s mergeWord : Str) : Res Bool := do
  let el ← pyLast e
  if [el] ≠ Generated.C17.breakSymbol then return false
  else if D.freqAll mergeWord > D.freqAll e then return true
  else if D.freqAll mergeWord > Generated.C17.breakSymbolMergeMin then return true
  else if D.freqMid s > D.freqStart s then return false
  else if strIsDigit cc s then return false
  else return true

def endIsCommonWord (D : Detector) (e : Str) (commonFreq : Nat) : Bool :=
  decide (D.freqMid e ≥ commonFreq)

def mergeIsMoreCommon (D : Detector) (e s mergeWord : Str) : Bool :=
  if D.freqAll mergeWord > D.freqMid e && D.freqAll mergeWord > D.freqMid s then true
  else if isNonMidWord D e Generated.C17.mergeNonMidFactorEnd && D.freqAll mergeWord > D.freqMid s then true
  else if isNonMidWord D s Generated.C17.mergeNonMidFactorStart && D.freqAll mergeWord > D.freqMid e then true
  else if D.freqAll mergeWord > Generated.C17.mergeMoreCommonMin then true
  else false

/-- the answer of `determine_word_break`: `(do_merge, merge_word)` -/
abbrev Decision := Bool × Option Str

/-- `determine_word_break(curr_words, prev_words, wbd, word_break_chars)`.
    With a detector its own break characters replace the argument. -/
def determine (cc : CharClass) (det : Option Detector) (B0 : BreakSet)
    (prevWords currWords : List Str) : Res Decision := do
  let B : BreakSet := match det with
    | some D => D.breakChars
    | none => B0
  if prevWords.length = 0 || currWords.length = 0 then return (false, none)
  let e ← pyLast prevWords
  let s ← pyHead currWords
  let mergeWord0 := e ++ s
  let reduceWord ← removeWordBreakChars B e s
  match det with
  | none =>
    let el ← pyLast e
    return (if B el then (true, some reduceWord) else (false, none))
  | some D =>
    let mergeWord := if D.freqAll mergeWord0 > D.freqAll reduceWord then mergeWord0 else reduceWord
    let el ← pyLast e
    let bigramFreq := if B el then D.bigram e.dropLast s else D.bigram e s
    -- the statements after the first if/elif chain (reached when no arm of it returned)
    let tail : Res Decision := do
      if endStartAreBigram D mergeWord bigramFreq Generated.C17.bigramFactorSecond then return (false, none)
      else if endIsCommonWord D e Generated.C17.commonFreq then return (false, none)
      else if mergeIsMoreCommon D e s mergeWord then return (true, some mergeWord)
      else
        let el2 ← pyLast e
        if D.breakChars el2 then return (true, some mergeWord)
        else return (false, none)
    if hasNonMergeWord cc D e s then return (false, none)
    else if endStartAreBigram D mergeWord bigramFreq Generated.C17.bigramFactorFirst then return (false, none)
    else
      let title ← startIsTitleword cc s
      if title then
        let comp ← endStartAreHyphenatedCompound cc D e s mergeWord
        if comp then return (true, some (e ++ s))
        else if startWordHasIncorrectTitlecase cc D e s Generated.C17.titlecaseFactor then return (true, some mergeWord)
        else return (false, none)
      else if hasCommonMergeEnd D e s then return (true, some mergeWord)
      else
        let sym ← hasWordBreakSymbol cc D e s mergeWord
        if sym then return (true, some mergeWord)
        else tail

/-! ### the functions called without `word_break_chars`: the default of the source applies -/

/-- `c in word_break_chars` for a string / set of characters -/
def breakOf (cs : List Char) : BreakSet := fun c => cs.contains c

/-- `get_line_words(line)` / `get_line_words(line, word_break_chars)` -/
def lineWordsD (cc : CharClass) (B : Option BreakSet) (line : Option Str) : Res (List Str) :=
  lineWords cc (B.getD (breakOf Generated.C17.defaultBreakGetLineWords)) line

/-- `get_page_lines_words(page)` / `get_page_lines_words(page, word_break_chars)` -/
def pageLinesWordsD (cc : CharClass) (B : Option BreakSet) (texts : List (Option Str)) : Res (List (List Str)) :=
  pageLinesWords cc (B.getD (breakOf Generated.C17.defaultBreakPageLinesWords)) texts

/-- `remove_word_break_chars(end_word, start_word)` / `…(end_word, start_word, word_break_chars)` -/
def removeWordBreakCharsD (B : Option BreakSet) (endWord startWord : Str) : Res Str :=
  removeWordBreakChars (B.getD (breakOf Generated.C17.defaultBreakRemoveWordBreakChars)) endWord startWord

/-- `determine_word_break(curr_words, prev_words, wbd)` / `…(curr_words, prev_words, wbd, word_break_chars)` -/
def determineD (cc : CharClass) (det : Option Detector) (B0 : Option BreakSet)
    (prevWords currWords : List Str) : Res Decision :=
  determine cc det (B0.getD (breakOf Generated.C17.defaultBreakDetermine)) prevWords currWords

end Pagexml.C17
