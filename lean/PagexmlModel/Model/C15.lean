/-
Model of the line grouping / ordering code (DESIGN §7 C15):
  pagexml/helper/pagexml_helper.py   horizontal_group_lines, sort_lines_in_reading_direction,
                                     sort_lines_in_(row|column)_reading_order, sort_regions_in_reading_order
  pagexml/model/pagexml_document_model.py
                                     PageXMLTextLine.__lt__/is_below/is_next_to, sort_lines,
                                     PageXMLTextRegion.__lt__, get_horizontal_overlap, get_vertical_overlap,
                                     get_horizontal_diff(_ratio), get_vertical_diff(_ratio),
                                     is_horizontally_overlapping, get_lines
  pagexml/model/coords.py            baseline_is_below, find_baseline_overlap_start_indexes
Transcribed statement by statement.  Boxes are the (left, top, right, bottom) of a `Coords`
object; a `Baseline` object cannot be built from an empty point list (C03), so it is a first
point plus a list; `baseline_is_below` itself is modelled on raw point lists with Python's
IndexError, so that its totality is a theorem with an explicit condition.
`sorted(key=…)` / `list.sort(key=…)` is `List.mergeSort` (stable) on the key.
The numeric literals of the source (overlap limit and the two baseline tolerances of `is_next_to`,
the two ratios of `sort_lines`, the ratio of `baseline_is_below`, the threshold with which
`PageXMLTextRegion.__lt__` reaches `is_horizontally_overlapping`) are NOT written here: they are
`Generated.C15.*`, regenerated from the working tree on every run (harness/props/c15.py `translate`).
-/
import PagexmlModel.Basic.Err
import PagexmlModel.Generated.C15

namespace Pagexml.C15

abbrev Pt := Int × Int

structure Box where
  left : Int
  top : Int
  right : Int
  bottom : Int
  deriving Repr, DecidableEq

def Box.width (b : Box) : Int := b.right - b.left
def Box.height (b : Box) : Int := b.bottom - b.top

/-- a `Baseline` object: non-empty by construction -/
structure Baseline where
  p0 : Pt
  ps : List Pt
  deriving Repr, DecidableEq

def Baseline.points (b : Baseline) : List Pt := b.p0 :: b.ps
def Baseline.left (b : Baseline) : Int := b.ps.foldl (fun m p => min m p.1) b.p0.1
def Baseline.right (b : Baseline) : Int := b.ps.foldl (fun m p => max m p.1) b.p0.1
def Baseline.top (b : Baseline) : Int := b.ps.foldl (fun m p => min m p.2) b.p0.2
def Baseline.bottom (b : Baseline) : Int := b.ps.foldl (fun m p => max m p.2) b.p0.2

/-- a text line as the ordering code sees it: identity, box, optional baseline,
    `text is not None` -/
structure Line where
  id : Nat
  box : Box
  bl : Option Baseline
  hasText : Bool
  deriving Repr, DecidableEq

/-- `overlap_right - overlap_left + 1 if overlap_right >= overlap_left else 0` -/
def overlapLen (l r : Int) : Int := if r ≥ l then r - l + 1 else 0

/-- `get_horizontal_overlap`: baselines when both lines have one, else the boxes -/
def hOverlap (a b : Line) : Int :=
  match a.bl, b.bl with
  | some x, some y => overlapLen (max x.left y.left) (min x.right y.right)
  | _, _ => overlapLen (max a.box.left b.box.left) (min a.box.right b.box.right)

/-- `get_vertical_overlap`: always the boxes -/
def vOverlap (a b : Line) : Int :=
  overlapLen (max a.box.top b.box.top) (min a.box.bottom b.box.bottom)

/-! ### coords.py: baseline_is_below on raw point lists -/

/-- `points[i]` for `i ≥ 0` -/
def getPt (l : List Pt) (i : Nat) : Res Pt :=
  match l[i]? with
  | some p => .ok p
  | none => .error .IndexError

/-- one of the two `for … enumerate(b1.points)` loops of `find_baseline_overlap_start_indexes`:
    the argument list is the suffix of `b1.points` starting at index `bi`.
    The loop leaves the index at 0 when it never reaches `break` (empty `b1`). -/
def startIdx (b2 : List Pt) : List Pt → Nat → Res Nat
  | [], _ => .ok 0
  | [_], bi => .ok bi
  | _ :: q :: rest, bi =>
    match getPt b2 0 with
    | .error e => .error e
    | .ok f => if q.1 < f.1 then startIdx b2 (q :: rest) (bi + 1) else .ok bi

/-- the `while True` loop; returns `(num_below, num_overlap)` -/
def walk (b1 b2 : List Pt) : Nat → Nat → Nat → Nat → Nat → Res (Nat × Nat)
  | 0, _, _, _, _ => .error .OutOfFuel
  | fuel + 1, i1, i2, nb, no =>
    match getPt b1 i1 with
    | .error e => .error e
    | .ok p =>
      match getPt b2 i2 with
      | .error e => .error e
      | .ok q =>
        let nb' := if p.2 > q.2 then nb + 1 else nb
        let i1' := if p.1 ≤ q.1 then i1 + 1 else i1
        let i2' := if p.1 ≤ q.1 then i2 else i2 + 1
        if b1.length = i1' ∨ b2.length = i2' then .ok (nb', no + 1)
        else walk b1 b2 fuel i1' i2' nb' (no + 1)

/-- `a / d > p / q` for `d > 0`, `q > 0`, by cross-multiplication (`r = (p, q)`) -/
def ratioGt (a d : Int) (r : Int × Int) : Bool := decide (a * r.2 > r.1 * d)

/-- `baseline_is_below(b1, b2)`; `num_below / num_overlap > p/q` (the generated ratio, `0.5` = (1, 2) at
    the time of writing) is `num_below·q > p·num_overlap`.
    Fuel `|b1| + |b2| + 1`: one step is needed to meet the IndexError of two empty lists. -/
def baselineIsBelow (b1 b2 : List Pt) : Res Bool :=
  match startIdx b2 b1 0 with
  | .error e => .error e
  | .ok i1 =>
    match startIdx b1 b2 0 with
    | .error e => .error e
    | .ok i2 =>
      match walk b1 b2 (b1.length + b2.length + 1) i1 i2 0 0 with
      | .error e => .error e
      | .ok (nb, no) =>
        if no = 0 then .error .ZeroDivisionError else .ok (ratioGt nb no Generated.C15.baselineBelowRatio)

/-! ### PageXMLTextLine.is_below / is_next_to -/

def isBelow (a b : Line) : Res Bool :=
  if hOverlap a b = 0 then .ok false
  else
    match a.bl, b.bl with
    | some x, some y =>
      if x.bottom < y.top then .ok false else baselineIsBelow x.points y.points
    | _, _ => .error .AttributeError

def isNextTo (a b : Line) : Res Bool :=
  if vOverlap a b = 0 then .ok false
  else if hOverlap a b > Generated.C15.nextToMaxHOverlap then .ok false
  else
    match a.bl, b.bl with
    | some x, some y =>
      if x.top > y.bottom + Generated.C15.nextToTolTop then .ok false
      else if x.bottom < y.top - Generated.C15.nextToTolBottom then .ok false
      else .ok true
    | _, _ => .error .AttributeError

/-! ### sort_lines, __lt__ -/

/-- `a / d < p / q` for `d ≠ 0`, `q > 0`, by cross-multiplication -/
def ratLt (a d p q : Int) : Bool := if d > 0 then decide (a * q < p * d) else decide (a * q > p * d)
/-- `a / d > p / q` for `d ≠ 0`, `q > 0` -/
def ratGt (a d p q : Int) : Bool := if d > 0 then decide (a * q > p * d) else decide (a * q < p * d)

/-- `get_horizontal_diff` of two lines -/
def hDiff (a b : Line) : Int :=
  match a.bl, b.bl with
  | some x, some y => (x.left - y.left).natAbs
  | _, _ => (a.box.left - b.box.left).natAbs

def vDiff (a b : Line) : Int :=
  match a.bl, b.bl with
  | some x, some y => (x.top - y.top).natAbs
  | _, _ => (a.box.top - b.box.top).natAbs

def sortLines (l1 l2 : Line) (asColumn : Bool) : Res Bool :=
  if hOverlap l1 l2 ≠ 0 then
    if vOverlap l1 l2 ≠ 0 then
      let hden := max l1.box.right l2.box.right - min l1.box.left l2.box.left
      let vden := max l1.box.bottom l2.box.bottom - min l1.box.top l2.box.top
      if hden = 0 then .error .ZeroDivisionError
      else if vden = 0 then .error .ZeroDivisionError
      else if ratLt (vDiff l1 l2) vden Generated.C15.sortLinesVRatio.1 Generated.C15.sortLinesVRatio.2 &&
          ratGt (hDiff l1 l2) hden Generated.C15.sortLinesHRatio.1 Generated.C15.sortLinesHRatio.2 then
        .ok (decide (l1.box.left < l2.box.left))
      else .ok (decide (l1.box.top < l2.box.top))
    else
      match isBelow l1 l2 with
      | .error e => .error e
      | .ok b => .ok (!b)
  else if vOverlap l1 l2 ≠ 0 then .ok (decide (l1.box.left < l2.box.left))
  else if asColumn then .ok (decide (l1.box.top < l2.box.top))
  else .ok (decide (l1.box.left < l2.box.left))

/-- `PageXMLTextLine.__lt__` (`other == self` is object identity: the ids) -/
def lineLt (a b : Line) : Res Bool :=
  if b.id = a.id then .ok false else sortLines a b true

/-! ### regions -/

structure Reg where
  id : Nat
  box : Box
  deriving Repr, DecidableEq

/-- `is_horizontally_overlapping` for two regions with coordinates, with the threshold that
    `PageXMLTextRegion.__lt__` passes (the function's default unless the call says otherwise) -/
def isHOverlapping (a b : Box) : Bool :=
  let h := overlapLen (max a.left b.left) (min a.right b.right)
  if a.width = 0 ∧ b.width = 0 then false
  else if a.width = 0 then decide (b.left ≤ a.left) && decide (a.left ≤ b.right)
  else if b.width = 0 then decide (a.left ≤ b.left) && decide (b.left ≤ a.right)
  else ratGt h (min a.width b.width) Generated.C15.regionHOverlapThr.1 Generated.C15.regionHOverlapThr.2

/-- `PageXMLTextRegion.__lt__` -/
def regionLt (a b : Reg) : Bool :=
  if b.id = a.id then false
  else if isHOverlapping a.box b.box then decide (a.box.top < b.box.top)
  else decide (a.box.left < b.box.left)

/-! ### horizontal_group_lines -/

def byTop (a b : Line) : Bool := decide (a.box.top ≤ b.box.top)
def byLeft (a b : Line) : Bool := decide (a.box.left ≤ b.box.left)
/-- `sorted(key=right, reverse=True)`: descending and stable -/
def byRightDesc (a b : Line) : Bool := decide (b.box.right ≤ a.box.right)

/-- the grouping loop. `prev` is `horizontally_grouped_lines[-1][-1]`, `cur` the rest of the
    last group (reversed), the third argument the lines still to come.
    `is_next_to` is only evaluated when `is_below` is false (Python `elif`). -/
def groupGo (below nextTo : Line → Line → Res Bool) : Line → List Line → List Line → Res (List (List Line))
  | prev, cur, [] => .ok [(prev :: cur).reverse]
  | prev, cur, c :: rest =>
    match below c prev with
    | .error e => .error e
    | .ok true =>
      match groupGo below nextTo c [] rest with
      | .error e => .error e
      | .ok gs => .ok ((prev :: cur).reverse :: gs)
    | .ok false =>
      match nextTo c prev with
      | .error e => .error e
      | .ok true => groupGo below nextTo c (prev :: cur) rest
      | .ok false =>
        match groupGo below nextTo c [] rest with
        | .error e => .error e
        | .ok gs => .ok ((prev :: cur).reverse :: gs)

/-- `horizontal_group_lines`, parametric in the two predicates -/
def groupLines (below nextTo : Line → Line → Res Bool) (ls : List Line) : Res (List (List Line)) :=
  match (ls.mergeSort byTop).filter (·.hasText) with
  | [] => .ok []
  | v :: rest =>
    match groupGo below nextTo v [] rest with
    | .error e => .error e
    | .ok gs => .ok (gs.map (·.mergeSort byLeft))

inductive Dir where
  | ltr | rtl | other
  deriving Repr, DecidableEq

def orderGroup : Dir → List Line → Res (List Line)
  | .ltr, g => .ok (g.mergeSort byLeft)
  | .rtl, g => .ok (g.mergeSort byRightDesc)
  | .other, _ => .error .ValueError

/-- the `for lines in stacked_lines:` loop (the direction is checked per group, so an
    invalid direction goes unnoticed when there is no group) -/
def orderGroups (dir : Dir) : List (List Line) → Res (List Line)
  | [] => .ok []
  | g :: gs =>
    match orderGroup dir g with
    | .error e => .error e
    | .ok o =>
      match orderGroups dir gs with
      | .error e => .error e
      | .ok r => .ok (o ++ r)

/-- `sort_lines_in_reading_direction`, parametric in the two predicates -/
def readingDirection (below nextTo : Line → Line → Res Bool) (dir : Dir) (ls : List Line) : Res (List Line) :=
  match groupLines below nextTo ls with
  | .error e => .error e
  | .ok gs => orderGroups dir gs

def horizontalGroupLines (ls : List Line) : Res (List (List Line)) := groupLines isBelow isNextTo ls
def sortLinesInReadingDirection (dir : Dir) (ls : List Line) : Res (List Line) :=
  readingDirection isBelow isNextTo dir ls

/-! ### documents: sort_regions_in_reading_order, get_lines, column / row reading order -/

/-- a document without explicit reading order and without tables: `kids` is
    `columns ++ text_regions ++ extra` (the order in which the code collects them) -/
inductive Region where
  | mk (id : Nat) (box : Box) (kids : List Region) (lines : List Line)

def Region.id : Region → Nat | .mk i _ _ _ => i
def Region.box : Region → Box | .mk _ b _ _ => b
def Region.kids : Region → List Region | .mk _ _ k _ => k
def Region.lines : Region → List Line | .mk _ _ _ l => l

/-- the key `(top, left)` of `sort_regions_in_reading_order`, as `≤` on tuples -/
def regKeyLe (a b : Box) : Bool := decide (a.top < b.top) || (decide (a.top = b.top) && decide (a.left ≤ b.left))

mutual
/-- `sort_regions_in_reading_order(doc)` for a text region / column / page / scan.
    The code sorts the children by the key and then recurses into each; since the recursion
    does not depend on the position, recursing first and sorting the results (stably, by the
    same key) is the same computation, and is structurally recursive. -/
def leaves : Region → List Region
  | .mk id box kids lines =>
    match kids with
    | [] => [.mk id box [] lines]
    | k :: ks => ((leavesKids (k :: ks)).mergeSort (fun a b => regKeyLe a.1 b.1)).flatMap (·.2)
def leavesKids : List Region → List (Box × List Region)
  | [] => []
  | k :: ks => (k.box, leaves k) :: leavesKids ks
end

mutual
/-- `PageXMLTextRegion.get_lines` (no reading order, no tables) -/
def getLines : Region → List Line
  | .mk _ _ kids lines => getLinesKids kids ++ lines
def getLinesKids : List Region → List Line
  | [] => []
  | k :: ks => getLines k ++ getLinesKids ks
end

/-- `sort_lines_in_column_reading_order` (consumed completely) -/
def columnOrderGo (dir : Dir) : List Region → Res (List Line)
  | [] => .ok []
  | r :: rs =>
    match sortLinesInReadingDirection dir r.lines with
    | .error e => .error e
    | .ok o =>
      match columnOrderGo dir rs with
      | .error e => .error e
      | .ok t => .ok (o ++ t)

def columnReadingOrder (dir : Dir) (doc : Region) : Res (List Line) := columnOrderGo dir (leaves doc)

/-- `sort_lines_in_row_reading_order` -/
def rowReadingOrder (dir : Dir) (doc : Region) : Res (List Line) :=
  sortLinesInReadingDirection dir (getLines doc)

/-- `sort_lines_in_reading_order(doc, row_order, reading_direction)`: the public dispatcher — row order
    iff `row_order is True`, column order otherwise, the reading direction handed on in both cases -/
def sortLinesInReadingOrder (rowOrder : Bool) (dir : Dir) (doc : Region) : Res (List Line) :=
  if rowOrder then rowReadingOrder dir doc else columnReadingOrder dir doc

/-! ### `sorted(xs)` with `__lt__`: a reference comparison sort (stable insertion sort) -/

def insertBy {α} (lt : α → α → Bool) (x : α) : List α → List α
  | [] => [x]
  | y :: ys => if lt x y then x :: y :: ys else y :: insertBy lt x ys

def isortBy {α} (lt : α → α → Bool) (xs : List α) : List α := xs.foldl (fun acc x => insertBy lt x acc) []

/-- the same with a comparison that may raise -/
def insertByM {α} (lt : α → α → Res Bool) (x : α) : List α → Res (List α)
  | [] => .ok [x]
  | y :: ys =>
    match lt x y with
    | .error e => .error e
    | .ok true => .ok (x :: y :: ys)
    | .ok false =>
      match insertByM lt x ys with
      | .error e => .error e
      | .ok r => .ok (y :: r)

def isortByM {α} (lt : α → α → Res Bool) : List α → List α → Res (List α)
  | acc, [] => .ok acc
  | acc, x :: xs =>
    match insertByM lt x acc with
    | .error e => .error e
    | .ok acc' => isortByM lt acc' xs

/-! ### translation -/

def shiftPt (dx dy : Int) (p : Pt) : Pt := (p.1 + dx, p.2 + dy)
def Box.shift (dx dy : Int) (b : Box) : Box :=
  { left := b.left + dx, top := b.top + dy, right := b.right + dx, bottom := b.bottom + dy }
def Baseline.shift (dx dy : Int) (b : Baseline) : Baseline :=
  { p0 := shiftPt dx dy b.p0, ps := b.ps.map (shiftPt dx dy) }
def Line.shift (dx dy : Int) (l : Line) : Line :=
  { l with box := l.box.shift dx dy, bl := l.bl.map (Baseline.shift dx dy) }
def Reg.shift (dx dy : Int) (r : Reg) : Reg := { r with box := r.box.shift dx dy }

mutual
def Region.shift (dx dy : Int) : Region → Region
  | .mk id box kids lines => .mk id (box.shift dx dy) (Region.shiftKids dx dy kids) (lines.map (Line.shift dx dy))
def Region.shiftKids (dx dy : Int) : List Region → List Region
  | [] => []
  | k :: ks => Region.shift dx dy k :: Region.shiftKids dx dy ks
end

end Pagexml.C15
