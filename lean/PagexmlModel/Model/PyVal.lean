/-
Python / JSON values as the JSON views and the `json_to_pagexml_*` builders see them
(DESIGN §3.1).  Dicts are association lists in insertion order; keys are strings or
ints (`reading_order` is keyed by `int` in the dictionary form and by `str` after
`json.dumps`/`json.loads`).  Tuples and lists are identified.  Floats are opaque
literals (`repr`).
-/
import PagexmlModel.Basic.Err
import PagexmlModel.Basic.PyInt

namespace Pagexml.C06

inductive Key where
  | s (k : String)
  | i (n : Int)
  deriving DecidableEq, Repr, Inhabited

inductive PyVal where
  | none
  | bool (b : Bool)
  | int (i : Int)
  | num (lit : String)
  | str (s : String)
  | list (xs : List PyVal)
  | dict (kvs : List (Key × PyVal))
  /-- any Python object the JSON encoder rejects (a `Coords` object, a set, …) -/
  | obj (cls : String)
  deriving Repr, Inhabited

/-! ### decidable equality (the deriving handler does not cover nested inductives) -/

mutual
def PyVal.beq : PyVal → PyVal → Bool
  | .none, .none => true
  | .bool a, .bool b => a == b
  | .int a, .int b => a == b
  | .num a, .num b => a == b
  | .str a, .str b => a == b
  | .list a, .list b => PyVal.beqList a b
  | .dict a, .dict b => PyVal.beqKvs a b
  | .obj a, .obj b => a == b
  | _, _ => false
def PyVal.beqList : List PyVal → List PyVal → Bool
  | [], [] => true
  | a :: as, b :: bs => PyVal.beq a b && PyVal.beqList as bs
  | _, _ => false
def PyVal.beqKvs : List (Key × PyVal) → List (Key × PyVal) → Bool
  | [], [] => true
  | (k, a) :: as, (k', b) :: bs => k == k' && PyVal.beq a b && PyVal.beqKvs as bs
  | _, _ => false
end

mutual
theorem PyVal.beq_sound : ∀ (a b : PyVal), PyVal.beq a b = true → a = b
  | .none, .none, _ => rfl
  | .bool a, .bool b, h => by simp [PyVal.beq] at h; rw [h]
  | .int a, .int b, h => by simp [PyVal.beq] at h; rw [h]
  | .num a, .num b, h => by simp [PyVal.beq] at h; rw [h]
  | .str a, .str b, h => by simp [PyVal.beq] at h; rw [h]
  | .list a, .list b, h => by
      simp only [PyVal.beq] at h; rw [PyVal.beqList_sound a b h]
  | .dict a, .dict b, h => by
      simp only [PyVal.beq] at h; rw [PyVal.beqKvs_sound a b h]
  | .obj a, .obj b, h => by simp [PyVal.beq] at h; rw [h]
  | .none, .bool _, h | .none, .int _, h | .none, .num _, h | .none, .str _, h | .none, .list _, h | .none, .dict _, h | .none, .obj _, h => by simp [PyVal.beq] at h
  | .bool _, .none, h | .bool _, .int _, h | .bool _, .num _, h | .bool _, .str _, h | .bool _, .list _, h | .bool _, .dict _, h | .bool _, .obj _, h => by simp [PyVal.beq] at h
  | .int _, .none, h | .int _, .bool _, h | .int _, .num _, h | .int _, .str _, h | .int _, .list _, h | .int _, .dict _, h | .int _, .obj _, h => by simp [PyVal.beq] at h
  | .num _, .none, h | .num _, .bool _, h | .num _, .int _, h | .num _, .str _, h | .num _, .list _, h | .num _, .dict _, h | .num _, .obj _, h => by simp [PyVal.beq] at h
  | .str _, .none, h | .str _, .bool _, h | .str _, .int _, h | .str _, .num _, h | .str _, .list _, h | .str _, .dict _, h | .str _, .obj _, h => by simp [PyVal.beq] at h
  | .list _, .none, h | .list _, .bool _, h | .list _, .int _, h | .list _, .num _, h | .list _, .str _, h | .list _, .dict _, h | .list _, .obj _, h => by simp [PyVal.beq] at h
  | .dict _, .none, h | .dict _, .bool _, h | .dict _, .int _, h | .dict _, .num _, h | .dict _, .str _, h | .dict _, .list _, h | .dict _, .obj _, h => by simp [PyVal.beq] at h
  | .obj _, .none, h | .obj _, .bool _, h | .obj _, .int _, h | .obj _, .num _, h | .obj _, .str _, h | .obj _, .list _, h | .obj _, .dict _, h => by simp [PyVal.beq] at h
theorem PyVal.beqList_sound : ∀ (a b : List PyVal), PyVal.beqList a b = true → a = b
  | [], [], _ => rfl
  | a :: as, b :: bs, h => by
      simp only [PyVal.beqList, Bool.and_eq_true] at h
      rw [PyVal.beq_sound a b h.1, PyVal.beqList_sound as bs h.2]
  | [], _ :: _, h => by simp [PyVal.beqList] at h
  | _ :: _, [], h => by simp [PyVal.beqList] at h
theorem PyVal.beqKvs_sound : ∀ (a b : List (Key × PyVal)), PyVal.beqKvs a b = true → a = b
  | [], [], _ => rfl
  | (k, a) :: as, (k', b) :: bs, h => by
      simp only [PyVal.beqKvs, Bool.and_eq_true, beq_iff_eq] at h
      rw [h.1.1, PyVal.beq_sound a b h.1.2, PyVal.beqKvs_sound as bs h.2]
  | [], _ :: _, h => by simp [PyVal.beqKvs] at h
  | _ :: _, [], h => by simp [PyVal.beqKvs] at h
end

mutual
theorem PyVal.beq_refl : ∀ (a : PyVal), PyVal.beq a a = true
  | .none => rfl
  | .bool a => by simp [PyVal.beq]
  | .int a => by simp [PyVal.beq]
  | .num a => by simp [PyVal.beq]
  | .str a => by simp [PyVal.beq]
  | .list a => by simp only [PyVal.beq]; exact PyVal.beqList_refl a
  | .dict a => by simp only [PyVal.beq]; exact PyVal.beqKvs_refl a
  | .obj a => by simp [PyVal.beq]
theorem PyVal.beqList_refl : ∀ (a : List PyVal), PyVal.beqList a a = true
  | [] => rfl
  | a :: as => by simp only [PyVal.beqList, Bool.and_eq_true]; exact ⟨PyVal.beq_refl a, PyVal.beqList_refl as⟩
theorem PyVal.beqKvs_refl : ∀ (a : List (Key × PyVal)), PyVal.beqKvs a a = true
  | [] => rfl
  | (k, a) :: as => by
      simp only [PyVal.beqKvs, Bool.and_eq_true, beq_self_eq_true, true_and]
      exact ⟨PyVal.beq_refl a, PyVal.beqKvs_refl as⟩
end

instance : DecidableEq PyVal := fun a b =>
  if h : PyVal.beq a b = true then isTrue (PyVal.beq_sound a b h)
  else isFalse (fun e => h (e ▸ PyVal.beq_refl a))

/-! ### Python truthiness, lookups -/

/-- `bool(v)`: `None`, `False`, `0`, `0.0`, `''`, `[]`, `{}` are falsy -/
def PyVal.truthy : PyVal → Bool
  | .none => false
  | .bool b => b
  | .int i => i != 0
  | .num l => !(l == "0.0" || l == "-0.0")
  | .str s => s != ""
  | .list xs => !xs.isEmpty
  | .dict kvs => !kvs.isEmpty
  | .obj _ => true

/-- first entry with the key (dict keys are unique in Python; the model keeps the first) -/
def alookup (k : Key) : List (Key × PyVal) → Option PyVal
  | [] => Option.none
  | (k', v) :: m => if k' = k then some v else alookup k m

/-- `d[k] = v`: replace in place when the key exists (position kept), else append -/
def setKey (k : Key) (v : PyVal) : List (Key × PyVal) → List (Key × PyVal)
  | [] => [(k, v)]
  | (k', v') :: m => if k' = k then (k, v) :: m else (k', v') :: setKey k v m

/-- `k in json_doc` / `json_doc[k]` for a string key -/
def PyVal.get? (j : PyVal) (k : String) : Option PyVal :=
  match j with
  | .dict kvs => alookup (.s k) kvs
  | _ => Option.none

/-- `json_doc[k]`: KeyError when absent -/
def PyVal.req (j : PyVal) (k : String) : Res PyVal :=
  match j.get? k with
  | some v => .ok v
  | Option.none => .error .KeyError

/-- `get_json_element(json_doc, k, default)` -/
def PyVal.getD (j : PyVal) (k : String) (d : PyVal) : PyVal :=
  match j.get? k with
  | some v => v
  | Option.none => d

def strOfInt (i : Int) : String := String.ofList (showInt i)

/-- what `json.loads(json.dumps(v))` does to a value: int keys become strings
    (tuples are already identified with lists, float literals are kept by `repr`) -/
def normKey : Key → Key
  | .s k => .s k
  | .i n => .s (strOfInt n)

mutual
def PyVal.norm : PyVal → PyVal
  | .list xs => .list (PyVal.normList xs)
  | .dict kvs => .dict (PyVal.normKvs kvs)
  | v => v
def PyVal.normList : List PyVal → List PyVal
  | [] => []
  | x :: xs => PyVal.norm x :: PyVal.normList xs
def PyVal.normKvs : List (Key × PyVal) → List (Key × PyVal)
  | [] => []
  | (k, v) :: m => (normKey k, PyVal.norm v) :: PyVal.normKvs m
end

/- what `json.dumps` accepts: no foreign objects anywhere; keys are `str` or `int` by
    construction ("finite numbers" cannot be expressed for an opaque literal; the harness
    only generates finite ones). -/
mutual
def PyVal.encodable : PyVal → Bool
  | .list xs => PyVal.encodableList xs
  | .dict kvs => PyVal.encodableKvs kvs
  | .obj _ => false
  | _ => true
def PyVal.encodableList : List PyVal → Bool
  | [] => true
  | x :: xs => PyVal.encodable x && PyVal.encodableList xs
def PyVal.encodableKvs : List (Key × PyVal) → Bool
  | [] => true
  | (_, v) :: m => PyVal.encodable v && PyVal.encodableKvs m
end

/- JSON-stable: `json.loads(json.dumps(v)) == v` (all dict keys are strings) -/
mutual
def PyVal.stable : PyVal → Bool
  | .list xs => PyVal.stableList xs
  | .dict kvs => PyVal.stableKvs kvs
  | .obj _ => false
  | _ => true
def PyVal.stableList : List PyVal → Bool
  | [] => true
  | x :: xs => PyVal.stable x && PyVal.stableList xs
def PyVal.stableKvs : List (Key × PyVal) → Bool
  | [] => true
  | (.s _, v) :: m => PyVal.stable v && PyVal.stableKvs m
  | (.i _, _) :: _ => false
end

end Pagexml.C06
