/-
Model of pagexml/model/coords.py: parse_points, Coords.__init__, the box accessors,
point_string and Baseline.  Transcribed statement by statement; see DESIGN §7 C03.
-/
import PagexmlModel.Basic.Err
import PagexmlModel.Basic.PyInt

namespace Pagexml.C03

abbrev Pt := Int × Int

/-- one coordinate of a point as Python sees it: `isinstance(v, int)` or not -/
inductive Scalar where
  | int (i : Int)
  | nonint            -- float, str, None, …
  deriving Repr, DecidableEq

/-- one element of a point list: a list/tuple of scalars, or something else -/
inductive PtIn where
  | seq (xs : List Scalar)
  | notSeq
  deriving Repr

/-- `parse_points` on a list.
    empty list → IndexError; element not list/tuple → TypeError;
    `point[0]` / `point[1]` missing → IndexError; not `int` → TypeError.
    (`a or b` short-circuits: a non-int first coordinate raises before `point[1]` is read.) -/
def checkPt : PtIn → Res Pt
  | .notSeq => .error .TypeError
  | .seq [] => .error .IndexError
  | .seq [.int _] => .error .IndexError
  | .seq (.nonint :: _) => .error .TypeError
  | .seq (.int _ :: .nonint :: _) => .error .TypeError
  | .seq (.int a :: .int b :: _) => .ok (a, b)

def parsePointsList : List PtIn → Res (List Pt)
  | [] => .error .IndexError
  | ps => ps.mapM checkPt

/-- `str.split(sep)` for a one-character separator -/
def splitOn (sep : Char) : List Char → List (List Char)
  | [] => [[]]
  | c :: cs =>
    match splitOn sep cs with
    | [] => [[]]            -- unreachable: splitOn never returns []
    | f :: fs => if c = sep then [] :: f :: fs else (c :: f) :: fs

/-- one token of a points string: kept iff it has exactly two comma-separated fields;
    both fields go through `int()` (ValueError on failure) -/
def parseToken (tok : List Char) : Res (Option Pt) :=
  match splitOn ',' tok with
  | [a, b] =>
    match pyInt? a, pyInt? b with
    | some x, some y => .ok (some (x, y))
    | _, _ => .error .ValueError
  | _ => .ok none

def parsePointsStr (s : List Char) : Res (List Pt) := do
  let toks ← (splitOn ' ' s).mapM parseToken
  return toks.filterMap id

structure Coords where
  points : List Pt
  x : Int
  y : Int
  w : Int
  h : Int
  deriving Repr, DecidableEq

/-- Python `min(list)` / `max(list)`: ValueError on an empty list -/
def minL : List Int → Res Int
  | [] => .error .ValueError
  | a :: as => .ok (as.foldl min a)

def maxL : List Int → Res Int
  | [] => .error .ValueError
  | a :: as => .ok (as.foldl max a)

def mkCoords (ps : List Pt) : Res Coords := do
  let x ← minL (ps.map (·.1))
  let y ← minL (ps.map (·.2))
  let mx ← maxL (ps.map (·.1))
  let my ← maxL (ps.map (·.2))
  return { points := ps, x := x, y := y, w := mx - x, h := my - y }

def coordsOfList (ps : List PtIn) : Res Coords := do mkCoords (← parsePointsList ps)
def coordsOfStr (s : List Char) : Res Coords := do mkCoords (← parsePointsStr s)

def Coords.left (c : Coords) : Int := c.x
def Coords.right (c : Coords) : Int := c.x + c.w
def Coords.top (c : Coords) : Int := c.y
def Coords.bottom (c : Coords) : Int := c.y + c.h
def Coords.width (c : Coords) : Int := c.w
def Coords.height (c : Coords) : Int := c.h
/-- the `box` dict `{x, y, w, h}` -/
def Coords.box (c : Coords) : Int × Int × Int × Int := (c.x, c.y, c.w, c.h)

def intercalate (sep : List Char) : List (List Char) → List Char
  | [] => []
  | [a] => a
  | a :: b :: rest => a ++ sep ++ intercalate sep (b :: rest)

def ptString (p : Pt) : List Char := showInt p.1 ++ [','] ++ showInt p.2

/-- `" ".join(",".join([str(x), str(y)]) for (x, y) in points)` -/
def pointString (ps : List Pt) : List Char := intercalate [' '] (ps.map ptString)

/-- `Baseline(points)` is `Coords(points)` with another type tag: same function. -/
def mkBaseline (ps : List Pt) : Res Coords := mkCoords ps

end Pagexml.C03
