/-
Model of the derived-coordinates code: pagexml/model/coords.py (parse_derived_coords,
coords_list_to_hull_coords, points_to_hull_edges, edges_to_hull_points),
pagexml/model/basic_document_model.py (poly_area, PhysicalStructureDoc.area / coords setter)
and add_child of PageXMLTextRegion / PageXMLPage.  See DESIGN §7 C09.

Qhull (scipy.spatial.ConvexHull) is C code in floating point: it is a PARAMETER of the model
(`Qhull`, returning the hull's simplices as point pairs, or an error).  Everything the repo does
with that answer is transcribed statement by statement.  `HullCert` is the certificate checker
that the driver evaluates on every sampled answer of the library; its soundness is proved in
Props/C09.lean.
-/
import PagexmlModel.Basic.Err
import PagexmlModel.Model.C03
import PagexmlModel.Generated.C09

namespace Pagexml.C09
open Pagexml.C03 (Pt Coords mkCoords)

/-! ### the adjacency dict built by `points_to_hull_edges` -/

/-- `defaultdict(dict)` with point keys and point sub-keys (values are all `1`):
    association list in insertion order, neighbours in insertion order -/
abbrev Edges := List (Pt × List Pt)

/-- `edges[p]` (a missing key reads as the empty dict) -/
def nbrs (e : Edges) (p : Pt) : List Pt := (e.lookup p).getD []

def keys (e : Edges) : List Pt := e.map (·.1)

/-- `edges[k][v] = 1` -/
def setEdge : Edges → Pt → Pt → Edges
  | [], k, v => [(k, [v])]
  | (k', ns) :: rest, k, v =>
    if k' = k then (k', if v ∈ ns then ns else ns ++ [v]) :: rest
    else (k', ns) :: setEdge rest k v

/-- the loop over `hull.simplices`: `edges[p2][p1] = 1; edges[p1][p2] = 1` -/
def edgesOfSimplices (ss : List (Pt × Pt)) : Edges :=
  ss.foldl (fun e s => setEdge (setEdge e s.2 s.1) s.1 s.2) []

/-- the external library: hull simplices as pairs of input points, or `QhullError` -/
abbrev Qhull := List Pt → Res (List (Pt × Pt))

/-- `points_to_hull_edges` as a function of the point list -/
abbrev HullEdges := List Pt → Res Edges

def pointsToHullEdges (qh : Qhull) : HullEdges := fun pts => do
  let ss ← qh pts
  return edgesOfSimplices ss

/-! ### `edges_to_hull_points` -/

/-- Python tuple comparison `a < b` -/
def ptLt (a b : Pt) : Bool := a.1 < b.1 || (a.1 = b.1 && a.2 < b.2)

/-- `sorted(k :: ks)[0]` -/
def minPt (k : Pt) (ks : List Pt) : Pt := ks.foldl (fun m p => if ptLt p m then p else m) k

/-- the `for next_point in edges[curr_point]: if next_point not in sorted_nodes` search -/
def firstNew (ns visited : List Pt) : Option Pt := ns.find? (fun q => !(visited.contains q))

/-- the `while len(sorted_nodes) < len(nodes)` loop; one unit of fuel per iteration.
    An iteration in which the `for` finds nothing changes nothing: Python then spins forever,
    the model runs out of fuel. -/
def walk (e : Edges) (n : Nat) : Nat → List Pt → Pt → Res (List Pt)
  | 0, visited, _ => if n ≤ visited.length then .ok visited else .error .OutOfFuel
  | fuel + 1, visited, curr =>
    if n ≤ visited.length then .ok visited
    else match firstNew (nbrs e curr) visited with
      | some q => walk e n fuel (visited ++ [q]) q
      | none => walk e n fuel visited curr

def edgesToHullPoints (fuel : Nat) (e : Edges) : Res (List Pt) :=
  match keys e with
  | [] => .error .IndexError                      -- sorted([])[0]
  | k :: ks => walk e (ks.length + 1) fuel [minPt k ks] (minPt k ks)

/-- `edges_to_hull_points(points_to_hull_edges(points))`; fuel = number of nodes
    (`C09_walk_terminates_ordered`: enough whenever the dict is a single cycle) -/
def hullPoints (he : HullEdges) (pts : List Pt) : Res (List Pt) := do
  let e ← he pts
  edgesToHullPoints e.length e

/-! ### `coords_list_to_hull_coords`, `parse_derived_coords` -/

/-- `Coords(points)` for a list of integer points: empty list → IndexError (parse_points) -/
def coordsOf (pts : List Pt) : Res Coords :=
  match pts with
  | [] => .error .IndexError
  | _ => mkCoords pts

/-- `max(k :: ks)` for tuples -/
def maxPt (k : Pt) (ks : List Pt) : Pt := ks.foldl (fun m p => if ptLt m p then p else m) k

/-- the cross-multiplied test of `collinear_extremes`: `p` lies on the line through `first`, `last` -/
def onLine (first last p : Pt) : Bool :=
  (last.1 - first.1) * (p.2 - first.2) == (last.2 - first.2) * (p.1 - first.1)

/-- `collinear_extremes(points)`: `[min]` if all points coincide, `[min, max]` (lexicographic) if all
    lie on one straight line, else `None`; `min([])` raises ValueError -/
def collinearExtremes : List Pt → Res (Option (List Pt))
  | [] => .error .ValueError
  | k :: ks =>
    let first := minPt k ks
    let last := maxPt k ks
    if (k :: ks).all (onLine first last) then
      .ok (some (if first = last then [first] else [first, last]))
    else .ok none

/-- `N` of `if len(points) <= N: return Coords(points)` in coords_list_to_hull_coords (regenerated from the
    source on every run, Generated/C09.lean; 2 at the time of writing) -/
def smallHull : Nat := Generated.C09.hullAsGivenMax
/-- `N` of `if len(points) <= N or …: return 0` in poly_area (regenerated; 2 at the time of writing) -/
def smallArea : Nat := Generated.C09.areaZeroMax

def coordsListToHullCoords (he : HullEdges) (cl : List (List Pt)) : Res Coords :=
  let points := cl.flatten
  if points.length ≤ smallHull then coordsOf points
  else do
    match ← collinearExtremes points with
    | some extremes => coordsOf extremes
    | none =>
      let hp ← hullPoints he points
      coordsOf hp

/-- `document_list` as the list of each document's `coords` (`none` = `coords is None`,
    which makes `coords.points` raise AttributeError) -/
def parseDerivedCoords (he : HullEdges) (docs : List (Option (List Pt))) : Res Coords :=
  if docs.any (·.isNone) then .error .AttributeError
  else coordsListToHullCoords he (docs.filterMap id)

/-! ### `parser.parse_textregion`: coordinates of a region that has no Coords element -/

/-- After the child loop (fix 75c00fd): a region that has no coordinates of its own derives them from ALL
    its children that have some — `text_regions + lines`, the order `add_child` uses (`none` = a child
    without coordinates, left out); no located child: it stays without coordinates. -/
def deriveRegion (he : HullEdges) (own : Option (List Pt)) (regions lines : List (Option (List Pt))) :
    Res (Option (List Pt)) :=
  match own with
  | some c => .ok (some c)
  | none =>
    let located := (regions ++ lines).filter (·.isSome)
    if located.isEmpty then .ok none
    else do
      let d ← parseDerivedCoords he located
      pure (some d.points)

/-! ### area -/

/-- z-component of (a − o) × (b − o) -/
def cross (o a b : Pt) : Int := (a.1 - o.1) * (b.2 - o.2) - (a.2 - o.2) * (b.1 - o.1)

/-- Σ (xᵢ·yᵢ₊₁ − xᵢ₊₁·yᵢ) along an open chain -/
def shoe : List Pt → Int
  | a :: b :: rest => (a.1 * b.2 - b.1 * a.2) + shoe (b :: rest)
  | _ => 0

/-- the shoelace sum of the closed polygon -/
def shoelace : List Pt → Int
  | [] => 0
  | p :: ps => shoe (p :: ps ++ [p])

/-- twice the (unsigned) area of the polygon `vs`: what `2 * shapely.Polygon(vs).area` is -/
def area2 (vs : List Pt) : Int := ((shoelace vs).natAbs : Int)

/-- `2 * poly_area(points)` for a list of points -/
def polyArea2 (he : HullEdges) (pts : List Pt) : Res Int :=
  if pts.length ≤ smallArea then .ok 0
  else do
    match ← collinearExtremes pts with
    | some _ => .ok 0
    | none =>
      let vs ← hullPoints he pts
      if vs.length < 3 then .error .ValueError    -- shapely: a linear ring needs three points
      else .ok (area2 vs)

/-- `2 * poly_area` of an element's coordinates; `coords is None` → 0 -/
def docArea2 (he : HullEdges) : Option (List Pt) → Res Int
  | none => .ok 0
  | some pts => polyArea2 he pts

/-! ### one element with its lazily cached area (`PhysicalStructureDoc._area`) -/

structure Elem where
  coords : Option (List Pt)            -- points of `self.coords`, `none` = None
  cache : Option Int                   -- `_area` (twice the area), `none` = None
  kids : List (Nat × Option (List Pt)) -- children in the order they were attached: (list slot, child.coords)
  deriving Repr, DecidableEq

inductive Op where
  | setCoords (c : Option (List Pt))                    -- `el.coords = Coords(..)` / `= None`
  | addChild (slot : Nat) (child : Option (List Pt))    -- `el.add_child(child)`
  | readArea                                            -- `el.area`
  | readCoords                                          -- `el.coords`
  deriving Repr

inductive Out where
  | unit
  | area (a : Int)
  | coords (c : Option (List Pt))
  | err (e : Err)
  deriving Repr, DecidableEq

/-- the concatenation the element hands to `parse_derived_coords`:
    region: `text_regions + lines` (slots 0, 1);
    page: `extra + columns + text_regions + lines` (slots 0..3) -/
def ordered (nslots : Nat) (kids : List (Nat × Option (List Pt))) : List (Option (List Pt)) :=
  (List.range nslots).flatMap (fun s => (kids.filter (fun k => k.1 == s)).map (·.2))

/-- one call on the element. `add_child`: type dispatch first (unknown type → TypeError, nothing
    appended), then the child is appended, then `self.coords = parse_derived_coords(...)`:
    an exception there leaves the child attached and coords / cache untouched. The coords setter
    resets `_area`. -/
def step (he : HullEdges) (nslots : Nat) (σ : Elem) : Op → Elem × Out
  | .setCoords c => ({ σ with coords := c, cache := none }, .unit)
  | .addChild slot child =>
    if nslots ≤ slot then (σ, .err .TypeError)
    else
      let kids := σ.kids ++ [(slot, child)]
      match parseDerivedCoords he (ordered nslots kids) with
      | .ok c => ({ coords := some c.points, cache := none, kids := kids }, .unit)
      | .error e => ({ σ with kids := kids }, .err e)
  | .readArea =>
    match σ.cache with
    | some a => (σ, .area a)
    | none =>
      match docArea2 he σ.coords with
      | .ok a => ({ σ with cache := some a }, .area a)
      | .error e => (σ, .err e)
  | .readCoords => (σ, .coords σ.coords)

/-- run a call history, collecting the outputs -/
def run (he : HullEdges) (nslots : Nat) : Elem → List Op → Elem × List Out
  | σ, [] => (σ, [])
  | σ, op :: ops =>
    let r := step he nslots σ op
    let rest := run he nslots r.1 ops
    (rest.1, r.2 :: rest.2)

/-! ### the certificate checker for one answer of the hull code -/

def rot1 {α} : List α → List α
  | [] => []
  | a :: l => l ++ [a]

/-- the polygon's edges (vᵢ, vᵢ₊₁), cyclically -/
def cedges (vs : List Pt) : List (Pt × Pt) := vs.zip (rot1 vs)

/-- the polygon's corners (vᵢ, vᵢ₊₁, vᵢ₊₂), cyclically -/
def ctriples (vs : List Pt) : List (Pt × Pt × Pt) := vs.zip ((rot1 vs).zip (rot1 (rot1 vs)))

/-- with orientation `s` (1 = counter-clockwise, −1 = clockwise): every corner turns strictly
    that way and every point is on the inner side of, or on, every edge -/
def certDir (s : Int) (pts vs : List Pt) : Bool :=
  (ctriples vs).all (fun t => decide (0 < s * cross t.1 t.2.1 t.2.2)) &&
  pts.all (fun p => (cedges vs).all (fun ed => decide (0 ≤ s * cross ed.1 ed.2 p)))

def nodupB : List Pt → Bool
  | [] => true
  | a :: l => !(l.contains a) && nodupB l

/-- `vs` is accepted as the convex hull of `pts` -/
def HullCert (pts vs : List Pt) : Bool :=
  decide (3 ≤ vs.length) && vs.all (fun v => pts.contains v) && nodupB vs &&
  (certDir 1 pts vs || certDir (-1) pts vs)

/-- is the dict a single cycle through the listed nodes? (each node's neighbours are exactly its
    cyclic predecessor and successor in `vs`, in either order; keys are the nodes) -/
def cycleDict (e : Edges) (vs : List Pt) : Bool :=
  decide (3 ≤ vs.length) && nodupB vs && nodupB (keys e) && decide ((keys e).length = vs.length) &&
  (ctriples vs).all (fun t =>
    decide (e.lookup t.2.1 = some [t.1, t.2.2]) || decide (e.lookup t.2.1 = some [t.2.2, t.1]))

end Pagexml.C09
