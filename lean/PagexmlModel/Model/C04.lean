/-
C04 — traversals, statistics and read accessors (DESIGN §7 C04).

Value level: the text hierarchy as a nested inductive and the traversals of
pagexml/model/pagexml_document_model.py over it, transcribed statement by statement:
  PageXMLTextRegion.get_regions / get_lines / get_words / get_inner_text_regions / get_table_regions /
  num_* / stats, PageXMLPage.get_lines / get_inner_text_regions / get_table_regions / stats,
  PageXMLScan.stats, PageXMLTextLine.get_words / num_words / stats, table get_lines / get_words / stats.
`sorted(self.columns)` of PageXMLPage.get_lines is a parameter: the tree carries the order
(`colOrder`) the sort returned; the theorems only use that it is a permutation.

Store level: every read accessor is an operation on the store model of C02; `accStep`
returns the store it leaves behind and the answer.
-/
import PagexmlModel.Model.C02
import PagexmlModel.Model.C03

namespace Pagexml.C04
open Pagexml.C02

/-! ### trees -/

structure Line where
  nid : Nat
  text : Option String
  words : List Nat
  deriving Repr, DecidableEq, Inhabited

structure Cell where
  nid : Nat
  lines : List Line
  deriving Repr, DecidableEq, Inhabited

structure Row where
  nid : Nat
  cells : List Cell
  deriving Repr, DecidableEq, Inhabited

structure Table where
  nid : Nat
  rows : List Row
  deriving Repr, DecidableEq, Inhabited

/-- a text region, column, page or scan with everything below it -/
inductive Region where
  | mk (nid : Nat) (cls : Cls) (text : Option String) (lines : List Line) (subs : List Region)
       (tables : List Table) (columns : List Region) (extra : List Region) (pages : List Region)
       (colOrder : List Nat)
  deriving Repr, Inhabited

def Region.nid : Region → Nat | .mk n .. => n
def Region.cls : Region → Cls | .mk _ c .. => c
def Region.text : Region → Option String | .mk _ _ t .. => t
def Region.lines : Region → List Line | .mk _ _ _ l .. => l
def Region.subs : Region → List Region | .mk _ _ _ _ s .. => s
def Region.tables : Region → List Table | .mk _ _ _ _ _ t .. => t
def Region.columns : Region → List Region | .mk _ _ _ _ _ _ c .. => c
def Region.extra : Region → List Region | .mk _ _ _ _ _ _ _ e .. => e
def Region.pages : Region → List Region | .mk _ _ _ _ _ _ _ _ p _ => p
def Region.colOrder : Region → List Nat | .mk _ _ _ _ _ _ _ _ _ o => o

/-! ### tables -/

/-- `PageXMLTableCell.get_lines` -/
def cellLines (c : Cell) : List Line := c.lines
/-- `PageXMLTableRow.get_lines` -/
def rowLines (r : Row) : List Line := r.cells.flatMap cellLines
/-- `PageXMLTableRegion.get_lines` -/
def tableLines (t : Table) : List Line := t.rows.flatMap rowLines

/-! ### words -/

/-- an item of a word list: a Word element or a token of the text -/
inductive WordItem where
  | node (n : Nat)
  | tok (s : String)
  deriving Repr, DecidableEq

/-- `text.split(' ')` -/
def splitBlank (s : String) : List WordItem :=
  (Pagexml.C03.splitOn ' ' s.toList).map (fun cs => .tok (String.ofList cs))

/-- `PageXMLTextLine.get_words` (and the identical loop bodies of the region and cell versions):
    the Word elements if there are any, else the blank-separated tokens of a non-empty text -/
def lineWords (l : Line) : List WordItem :=
  if !l.words.isEmpty then l.words.map .node
  else match l.text with
    | some t => if t.isEmpty then [] else splitBlank t
    | none => []

/-! ### get_lines -/

/-- apply a permutation given as an index list (`sorted(self.columns)`) -/
def permute {α} (order : List Nat) (xs : List (List α)) : List α :=
  order.flatMap (fun i => xs.getD i [])

mutual
/-- `get_lines()` with dynamic dispatch: `PageXMLPage.get_lines` for a page,
    `PageXMLTextRegion.get_lines` otherwise (columns and scans do not override it) -/
def getLines : Region → Res (List Line)
  | .mk _ cls _ lines subs tables columns extra _ colOrder =>
    if cls = .page then do
      let per ← getLinesEach columns
      let b ← getLinesL subs
      let d ← getLinesL extra
      if !lines.isEmpty then .error .AttributeError
      else .ok (permute colOrder per ++ b ++ tables.flatMap tableLines ++ d)
    else do
      let b ← getLinesL subs
      .ok (b ++ tables.flatMap tableLines ++ lines)
/-- the lines of a list of regions, in order -/
def getLinesL : List Region → Res (List Line)
  | [] => .ok []
  | r :: rs => do
    let a ← getLines r
    let b ← getLinesL rs
    .ok (a ++ b)
/-- the lines of each region of a list -/
def getLinesEach : List Region → Res (List (List Line))
  | [] => .ok []
  | r :: rs => do
    let a ← getLines r
    let b ← getLinesEach rs
    .ok (a :: b)
end

/-- `PageXMLTextRegion.get_words` (inherited by column, page, scan): the tokens of the region's
    own text when it has one, else the words of the lines of `self.get_lines()` -/
def getWords (r : Region) : Res (List WordItem) :=
  match r.text with
  | some t => .ok (splitBlank t)
  | none => do
    let ls ← getLines r
    .ok (ls.flatMap lineWords)

/-! ### leaf regions and table regions -/

mutual
/-- `get_inner_text_regions()` with dispatch (ids of the regions) -/
def inner : Region → List Nat
  | .mk nid cls _ lines subs _ columns extra _ _ =>
    if cls = .page then innerL columns ++ innerL subs ++ innerL extra
    else innerSubs subs ++ (if subs.isEmpty && !lines.isEmpty then [nid] else [])
/-- the loop of `PageXMLTextRegion.get_inner_text_regions` over `self.text_regions` -/
def innerSubs : List Region → List Nat
  | [] => []
  | .mk nid cls t lines subs tb columns extra pg o :: rs =>
    (if !subs.isEmpty then inner (.mk nid cls t lines subs tb columns extra pg o)
     else if !lines.isEmpty then [nid] else []) ++ innerSubs rs
def innerL : List Region → List Nat
  | [] => []
  | r :: rs => inner r ++ innerL rs
end

mutual
/-- `get_table_regions()` with dispatch (ids of the table regions) -/
def tableRegions : Region → List Nat
  | .mk _ cls _ _ subs tables columns extra _ _ =>
    if cls = .page then tables.map (·.nid) ++ tableRegionsL columns ++ tableRegionsL subs ++ tableRegionsL extra
    else tables.map (·.nid) ++ tableRegionsL subs
def tableRegionsL : List Region → List Nat
  | [] => []
  | r :: rs => tableRegions r ++ tableRegionsL rs
end

/-- `get_regions()` without a reading order: text regions, then table regions -/
def getRegions (r : Region) : List Nat := r.subs.map (·.nid) ++ r.tables.map (·.nid)

/-! ### statistics -/

abbrev Stats := List (String × Nat)

def optStat (k : String) (n : Nat) (present : Bool) : Stats := if present then [(k, n)] else []

/-- `PageXMLTextRegion.stats` -/
def regionStats (r : Region) : Res Stats := do
  let ls ← getLines r
  let ws ← getWords r
  .ok ([("lines", ls.length), ("words", ws.length), ("text_regions", r.subs.length)]
        ++ optStat "table_regions" r.tables.length (!r.tables.isEmpty))

/-- `PageXMLPage.stats` -/
def pageStats (r : Region) : Res Stats := do
  let ls ← getLines r
  .ok ([("words", (ls.map (fun l => (lineWords l).length)).sum), ("lines", ls.length)]
        ++ optStat "columns" r.columns.length (!r.columns.isEmpty)
        ++ optStat "extra" r.extra.length (!r.extra.isEmpty)
        ++ optStat "text_regions" r.subs.length (!r.subs.isEmpty)
        ++ optStat "table_regions" (tableRegions r).length (!r.tables.isEmpty))

/-- `PageXMLScan.stats` -/
def scanStats (r : Region) : Res Stats := do
  let s ← regionStats r
  .ok (s ++ [("columns", (r.pages.map (fun p => p.columns.length)).sum),
             ("extra", (r.pages.map (fun p => p.extra.length)).sum),
             ("pages", r.pages.length)])

/-- `.stats` with dispatch -/
def stats (r : Region) : Res Stats :=
  if r.cls = .page then pageStats r else if r.cls = .scan then scanStats r else regionStats r

/-- `PageXMLTextLine.stats` -/
def lineStats (l : Line) : Stats := [("words", (lineWords l).length)]

/-- `PageXMLTableCell.stats`, `PageXMLTableRow.stats`, `PageXMLTableRegion.stats` -/
def cellStats (c : Cell) : Stats := [("lines", c.lines.length), ("words", (c.lines.flatMap lineWords).length)]
def rowStats (r : Row) : Stats :=
  [("cells", r.cells.length), ("lines", (rowLines r).length), ("words", ((rowLines r).flatMap lineWords).length)]
def tableStats (t : Table) : Stats :=
  [("rows", t.rows.length), ("cells", (t.rows.map (fun r => r.cells.length)).sum),
   ("lines", (tableLines t).length), ("words", ((tableLines t).flatMap lineWords).length)]

/-! ### from the store to the tree -/

/-- all-or-nothing map -/
def optMapM {α β} (f : α → Option β) : List α → Option (List β)
  | [] => some []
  | a :: l =>
    match f a, optMapM f l with
    | some b, some bs => some (b :: bs)
    | _, _ => none

def toLine (σ : Store) (n : Nat) : Option Line :=
  match σ.get? n with
  | some nd => if nd.cls = .line then some { nid := n, text := nd.text, words := nd.words } else none
  | none => none

def toCell (σ : Store) (n : Nat) : Option Cell :=
  match σ.get? n with
  | some nd => if nd.cls = .cell then (optMapM (toLine σ) nd.lines).map (fun ls => { nid := n, lines := ls }) else none
  | none => none

def toRow (σ : Store) (n : Nat) : Option Row :=
  match σ.get? n with
  | some nd => if nd.cls = .row then (optMapM (toCell σ) nd.cells).map (fun cs => { nid := n, cells := cs }) else none
  | none => none

def toTable (σ : Store) (n : Nat) : Option Table :=
  match σ.get? n with
  | some nd => if nd.cls = .table then (optMapM (toRow σ) nd.rows).map (fun rs => { nid := n, rows := rs }) else none
  | none => none

/-- the recursion depth bound standing for CPython's recursion limit -/
def depthLimit : Nat := 1000

/-- the abstraction function: the tree below a region-family node.  `ord n` is the order in which
    `sorted()` returns the columns of page `n`.  `none`: an id that is not a node of the expected
    class, or nesting deeper than `fuel`. -/
def toRegion (ord : Nat → List Nat) (σ : Store) : Nat → Nat → Option Region
  | 0, _ => none
  | f + 1, n =>
    match σ.get? n with
    | none => none
    | some nd =>
      if nd.cls.isRegion then do
        let lines ← optMapM (toLine σ) nd.lines
        let subs ← optMapM (toRegion ord σ f) nd.regions
        let tables ← optMapM (toTable σ) nd.tables
        let columns ← optMapM (toRegion ord σ f) nd.columns
        let extra ← optMapM (toRegion ord σ f) nd.extra
        let pages ← optMapM (toRegion ord σ f) nd.pages
        some (.mk n nd.cls nd.text lines subs tables columns extra pages (ord n))
      else none

/-- all object numbers reachable from `n`, in the attribute order of the child lists
    (what the JSON and XML views read) -/
def reach (σ : Store) : Nat → Nat → List Nat
  | 0, _ => []
  | f + 1, n =>
    match σ.get? n with
    | none => []
    | some nd => n :: nd.allKids.flatMap (reach σ f)

/-! ### read accessors as operations on the store -/

inductive Acc where
  | getLines (n : Nat)
  | getWords (n : Nat)
  | getInner (n : Nat)
  | getTables (n : Nat)
  | getRegions (n : Nat)
  | stats (n : Nat)
  | numLines (n : Nat)
  | numWords (n : Nat)
  | numTextRegions (n : Nat)
  /-- `doc.json` (the content of the view is C06's subject: here it reads the subtree) -/
  | json (n : Nat)
  /-- `doc.to_pagexml()` (content: C07; a word or line wraps itself in fresh dummy parents) -/
  | toPagexml (n : Nat)
  | area (n : Nat)
  deriving Repr, DecidableEq

inductive AOut where
  | ids (l : List Nat)
  | words (l : List WordItem)
  | stats (s : Stats)
  | num (n : Nat)
  /-- a view of the subtree (JSON / XML): the objects it read -/
  | view (l : List Nat)
  /-- the area of the coordinates with this token (`none`: no coordinates, area 0) -/
  | area (tok : Option Nat)
  | raised (e : Err)
  deriving Repr, DecidableEq

def lift {α} (f : α → AOut) : Res α → AOut
  | .ok a => f a
  | .error e => .raised e

/-- the answer of a traversal accessor on the tree of node `n` -/
def answerOn (ord : Nat → List Nat) (σ : Store) (n : Nat) (onRegion : Region → AOut) (onLine : Line → Option AOut)
    (onTable : Table → Option AOut) (onRow : Row → Option AOut) (onCell : Cell → Option AOut)
    (onWord : Option AOut := none) : Res AOut :=
  match σ.get? n with
  | none => .error .KeyError
  | some nd =>
    let r : Option AOut :=
      match nd.cls with
      | .line => (toLine σ n).bind onLine
      | .table => (toTable σ n).bind onTable
      | .row => (toRow σ n).bind onRow
      | .cell => (toCell σ n).bind onCell
      | .word => onWord
      | _ => (toRegion ord σ depthLimit n).map onRegion
    match r with
    | some o => .ok o
    | none => .ok (.raised .AttributeError)      -- the class has no such accessor

def lineIds (ls : List Line) : List Nat := ls.map (·.nid)

/-- one accessor call: the store it leaves behind and its answer -/
def accStep (ord : Nat → List Nat) (σ : Store) : Acc → Res (Store × AOut)
  | .getLines n => do
    let o ← answerOn ord σ n (fun r => lift (fun ls => .ids (lineIds ls)) (getLines r)) (fun _ => none)
      (fun t => some (.ids (lineIds (tableLines t)))) (fun r => some (.ids (lineIds (rowLines r))))
      (fun c => some (.ids (lineIds (cellLines c))))
    return (σ, o)
  | .getWords n => do
    let o ← answerOn ord σ n (fun r => lift .words (getWords r)) (fun l => some (.words (lineWords l)))
      (fun t => some (.words ((tableLines t).flatMap lineWords))) (fun r => some (.words ((rowLines r).flatMap lineWords)))
      (fun c => some (.words (c.lines.flatMap lineWords)))
    return (σ, o)
  | .getInner n => do
    let o ← answerOn ord σ n (fun r => .ids (inner r)) (fun _ => none) (fun _ => none) (fun _ => none) (fun _ => none)
    return (σ, o)
  | .getTables n => do
    let o ← answerOn ord σ n (fun r => .ids (tableRegions r)) (fun _ => none) (fun _ => none) (fun _ => none) (fun _ => none)
    return (σ, o)
  | .getRegions n => do
    let o ← answerOn ord σ n (fun r => .ids (getRegions r)) (fun _ => none) (fun _ => none) (fun _ => none) (fun _ => none)
    return (σ, o)
  | .stats n => do
    let o ← answerOn ord σ n (fun r => lift .stats (stats r)) (fun l => some (.stats (lineStats l)))
      (fun t => some (.stats (tableStats t))) (fun r => some (.stats (rowStats r))) (fun c => some (.stats (cellStats c)))
      (some (.stats []))        -- a word inherits `PageXMLDoc.stats`: the empty dict
    return (σ, o)
  | .numLines n => do
    let o ← answerOn ord σ n (fun r => lift (fun ls => .num ls.length) (getLines r)) (fun _ => none)
      (fun t => some (.num (tableLines t).length)) (fun r => some (.num (rowLines r).length))
      (fun c => some (.num c.lines.length))
    return (σ, o)
  | .numWords n => do
    let o ← answerOn ord σ n (fun r => lift (fun ws => .num ws.length) (getWords r)) (fun l => some (.num (lineWords l).length))
      (fun t => some (.num ((tableLines t).flatMap lineWords).length)) (fun r => some (.num ((rowLines r).flatMap lineWords).length))
      (fun c => some (.num (c.lines.flatMap lineWords).length))
    return (σ, o)
  | .numTextRegions n => do
    let o ← answerOn ord σ n (fun r => .num r.subs.length) (fun _ => none) (fun _ => none) (fun _ => none) (fun _ => none)
    return (σ, o)
  | .json n =>
    if σ.has n then .ok (σ, .view (reach σ depthLimit n)) else .error .KeyError
  | .toPagexml n =>
    match σ.get? n with
    | none => .error .KeyError
    | some nd =>
      let view := AOut.view (reach σ depthLimit n)
      match nd.cls with
      | .word =>
        -- line = PageXMLTextLine(coords=self.coords, text=self.text); tr = PageXMLTextRegion(coords=self.coords)
        let σ₁ := (mkLine σ { coords := nd.coords, text := nd.text } []).1
        let σ₂ := (mkRegion σ₁ false { coords := nd.coords } [] [] []).1
        .ok (σ₂, view)
      | .line =>
        -- tr = PageXMLTextRegion(coords=self.coords)
        .ok ((mkRegion σ false { coords := nd.coords } [] [] []).1, view)
      | _ => .ok (σ, view)
  | .area n =>
    match σ.get? n with
    | none => .error .KeyError
    | some nd =>
      match nd.area with
      | some a => .ok (σ, .area a)
      | none => .ok (σ.upd n (fun x => { x with area := some x.coords }), .area nd.coords)

/-- a sequence of accessor calls: the final store and all answers -/
def accRun (ord : Nat → List Nat) (σ : Store) : List Acc → Res (Store × List AOut)
  | [] => .ok (σ, [])
  | a :: as => do
    let (σ₁, o) ← accStep ord σ a
    let (σ₂, os) ← accRun ord σ₁ as
    return (σ₂, o :: os)

end Pagexml.C04
