/-
Model of the JSON views (`json` properties of every PageXML document class) and of the
builders `json_to_pagexml_*` / `parse_pagexml_from_json` (pagexml/parser.py), with the
constructor side effects the builders trigger (`set_parent`, `set_as_parent`,
`set_parentage`, `set_scan_id`, reading-order re-sorting, row padding).
Transcribed statement by statement; see DESIGN §7 C06.

Documents are immutable trees.  Every class carries exactly the attributes the JSON view
reads.  Conventions:
* `main_type` / `domain` are class constants (every constructor overwrites them).
* `reading_order` `None` and `{}` are both `[]` (the modelled code only tests truthiness).
* Optional scalar attributes that the code guards by truthiness (`orientation`, `xheight`,
  `cornerpoints`) are carried as they are; `toJson` applies the guard.
* A page has no direct lines (`PageXMLPage.get_lines` raises for them, so has no JSON view).
-/
import PagexmlModel.Model.PyVal
import PagexmlModel.Model.C03

namespace Pagexml.C06

abbrev Pts := List (Int × Int)
abbrev Meta := List (Key × PyVal)
/-- `reading_order`: index → region id, in dict insertion order -/
abbrev RO := List (Int × PyVal)

/-- attributes common to every class: id, `type` list, metadata dict, coords points -/
structure Hdr where
  id : PyVal
  types : List String
  md : Meta
  coords : Option Pts
  deriving DecidableEq, Repr, Inhabited

structure Word where
  h : Hdr
  text : Option String
  conf : PyVal
  deriving DecidableEq, Repr, Inhabited

structure Line where
  h : Hdr
  baseline : Option Pts
  text : Option String
  conf : PyVal
  xheight : PyVal
  ro : RO
  roa : PyVal
  words : List Word
  deriving DecidableEq, Repr, Inhabited

structure Cell where
  h : Hdr
  row : PyVal
  col : Option Int
  cellSpan : PyVal
  rowSpan : PyVal
  header : PyVal
  cornerpoints : PyVal
  orientation : PyVal
  lines : List Line
  deriving DecidableEq, Repr, Inhabited

structure Row where
  h : Hdr
  /-- `len(self.column_cells)` (cells plus `None` padding) -/
  numCols : Nat
  orientation : PyVal
  cells : List Cell
  deriving DecidableEq, Repr, Inhabited

structure Table where
  h : Hdr
  orientation : PyVal
  rows : List Row
  deriving DecidableEq, Repr, Inhabited

/-- PageXMLTextRegion (exactly that class) -/
structure Region where
  h : Hdr
  text : Option String
  orientation : PyVal
  ro : RO
  roa : PyVal
  lines : List Line
  regions : List Region
  tables : List Table
  deriving Repr, Inhabited

/-- PageXMLColumn (its constructor takes no text) -/
structure Column where
  h : Hdr
  orientation : PyVal
  ro : RO
  roa : PyVal
  lines : List Line
  regions : List Region
  tables : List Table
  deriving Repr, Inhabited

/-- PageXMLPage (no direct lines) -/
structure Page where
  h : Hdr
  orientation : PyVal
  ro : RO
  roa : PyVal
  columns : List Column
  regions : List Region
  tables : List Table
  extra : List Region
  deriving Repr, Inhabited

structure Scan where
  h : Hdr
  orientation : PyVal
  ro : RO
  roa : PyVal
  pages : List Page
  columns : List Column
  regions : List Region
  tables : List Table
  lines : List Line
  deriving Repr, Inhabited

inductive Doc where
  | word (w : Word)
  | line (l : Line)
  | region (r : Region)
  | column (c : Column)
  | page (p : Page)
  | scan (s : Scan)
  deriving Repr, Inhabited

/-! ## the JSON views -/

def ptsVal (ps : Pts) : PyVal := .list (ps.map fun p => .list [.int p.1, .int p.2])
def typesVal (ts : List String) : PyVal := .list (ts.map .str)
def optStr : Option String → PyVal
  | none => .none
  | some s => .str s
/-- the reading-order dict; `kf` says how an index appears as a key: `Key.i` in the
    dictionary form, its decimal string after `json.dumps` / `json.loads` -/
def roVal (kf : Int → Key) (ro : RO) : PyVal := .dict (ro.map fun e => (kf e.1, e.2))
def natVal (n : Nat) : PyVal := .int n
def optIntVal : Option Int → PyVal
  | some i => .int i
  | none => .none

/-- a guarded assignment `if <present>: doc_json[k] = v` -/
def opt (k : String) (present : Bool) (v : PyVal) : List (Key × PyVal) :=
  if present then [(.s k, v)] else []

def optPts (k : String) : Option Pts → List (Key × PyVal)
  | none => []
  | some ps => [(.s k, ptsVal ps)]

def optTxt (k : String) : Option String → List (Key × PyVal)
  | none => []
  | some t => [(.s k, .str t)]

/-- StructureDoc.json, PhysicalStructureDoc.json, PageXMLDoc.json (keys in first-insertion
    order; `domain` is assigned twice with the same value) -/
def baseFields (kf : Int → Key) (mainType : String) (h : Hdr) (ro : RO) (roa : PyVal) :
    List (Key × PyVal) :=
  [(.s "id", h.id), (.s "type", typesVal h.types), (.s "main_type", .str mainType),
   (.s "domain", .str "physical"), (.s "metadata", .dict h.md)]
  ++ opt "reading_order" (!ro.isEmpty) (roVal kf ro)
  ++ optPts "coords" h.coords
  ++ [(.s "reading_order_attributes", roa)]

def Word.fields (kf : Int → Key) (w : Word) : List (Key × PyVal) :=
  baseFields kf "word" w.h [] .none
    ++ [(.s "text", optStr w.text)]
    ++ opt "conf" (w.conf != .none) w.conf

def Word.toJson (kf : Int → Key) (w : Word) : PyVal := .dict (w.fields kf)

/-- `len(text.split(' '))` -/
def splitCount (s : String) : Nat := (s.toList.filter (· == ' ')).length + 1

/-- `len(line.get_words())` / the per-line term of every `get_words` -/
def Line.wordCount (l : Line) : Nat :=
  if !l.words.isEmpty then l.words.length
  else match l.text with
    | some t => if t != "" then splitCount t else 0
    | none => 0

def sumBy {α} (f : α → Nat) : List α → Nat
  | [] => 0
  | a :: as => f a + sumBy f as

def Line.fields (kf : Int → Key) (l : Line) : List (Key × PyVal) :=
  baseFields kf "line" l.h l.ro l.roa
    ++ [(.s "text", optStr l.text)]
    ++ opt "conf" (l.conf != .none) l.conf
    ++ optPts "baseline" l.baseline
    ++ opt "words" (!l.words.isEmpty) (.list (l.words.map (Word.toJson kf)))
    ++ opt "xheight" l.xheight.truthy l.xheight

def Line.toJson (kf : Int → Key) (l : Line) : PyVal := .dict (l.fields kf)

def statsVal (kvs : List (String × Nat)) : PyVal := .dict (kvs.map fun e => (.s e.1, natVal e.2))

def Cell.numWords (c : Cell) : Nat := sumBy Line.wordCount c.lines

def Cell.fields (kf : Int → Key) (c : Cell) : List (Key × PyVal) :=
  baseFields kf "table_cell" c.h [] .none
    ++ [(.s "row", c.row), (.s "col", optIntVal c.col),
        (.s "cell_span", c.cellSpan), (.s "row_span", c.rowSpan),
        (.s "lines", .list (c.lines.map (Line.toJson kf)))]
    ++ opt "header" (c.header != .none) c.header
    ++ opt "cornerpoints" c.cornerpoints.truthy c.cornerpoints
    ++ opt "orientation" c.orientation.truthy c.orientation
    ++ [(.s "stats", statsVal [("lines", c.lines.length), ("words", c.numWords)])]

def Cell.toJson (kf : Int → Key) (c : Cell) : PyVal := .dict (c.fields kf)

def Row.numLines (r : Row) : Nat := sumBy (fun c : Cell => c.lines.length) r.cells
def Row.numWords (r : Row) : Nat := sumBy Cell.numWords r.cells

def Row.fields (kf : Int → Key) (r : Row) : List (Key × PyVal) :=
  baseFields kf "table_row" r.h [] .none
    ++ [(.s "num_cols", natVal r.numCols), (.s "cells", .list (r.cells.map (Cell.toJson kf)))]
    ++ opt "orientation" r.orientation.truthy r.orientation
    ++ [(.s "stats", statsVal [("cells", r.cells.length), ("lines", r.numLines), ("words", r.numWords)])]

def Row.toJson (kf : Int → Key) (r : Row) : PyVal := .dict (r.fields kf)

/-- `get_num_columns(rows)`: `max(len(row) for row in rows)`, 0 without rows -/
def maxCells : List Row → Nat
  | [] => 0
  | r :: rs => max r.cells.length (maxCells rs)

def Table.numCells (t : Table) : Nat := sumBy (fun r : Row => r.cells.length) t.rows
def Table.numLines (t : Table) : Nat := sumBy Row.numLines t.rows
def Table.numWords (t : Table) : Nat := sumBy Row.numWords t.rows

def Table.fields (kf : Int → Key) (t : Table) : List (Key × PyVal) :=
  baseFields kf "table_region" t.h [] .none
    ++ [(.s "num_rows", natVal t.rows.length), (.s "num_cols", natVal (maxCells t.rows)),
        (.s "rows", .list (t.rows.map (Row.toJson kf)))]
    ++ opt "orientation" t.orientation.truthy t.orientation
    ++ [(.s "stats", statsVal [("rows", t.rows.length), ("cells", t.numCells),
                               ("lines", t.numLines), ("words", t.numWords)])]

def Table.toJson (kf : Int → Key) (t : Table) : PyVal := .dict (t.fields kf)

/-! ### counts behind `stats` (TextRegion.get_lines / get_words / get_table_regions) -/

mutual
/-- `len(region.get_lines())`: the lines of all sub-regions and tables, then the own lines -/
def Region.numLines : Region → Nat
  | ⟨_, _, _, _, _, lines, regions, tables⟩ =>
    Region.numLinesL regions + sumBy Table.numLines tables + lines.length
def Region.numLinesL : List Region → Nat
  | [] => 0
  | r :: rs => r.numLines + Region.numLinesL rs
end

mutual
/-- sum of `Line.wordCount` over `region.get_lines()` -/
def Region.lineWords : Region → Nat
  | ⟨_, _, _, _, _, lines, regions, tables⟩ =>
    Region.lineWordsL regions + sumBy Table.numWords tables + sumBy Line.wordCount lines
def Region.lineWordsL : List Region → Nat
  | [] => 0
  | r :: rs => r.lineWords + Region.lineWordsL rs
end

mutual
/-- `len(region.get_table_regions())` -/
def Region.numTables : Region → Nat
  | ⟨_, _, _, _, _, _, regions, tables⟩ => tables.length + Region.numTablesL regions
def Region.numTablesL : List Region → Nat
  | [] => 0
  | r :: rs => r.numTables + Region.numTablesL rs
end

/-- TextRegion.stats (also used by Column and, as `super().stats`, by Scan) -/
def regionStats (text : Option String) (lines : List Line) (regions : List Region)
    (tables : List Table) : List (String × Nat) :=
  let nl := Region.numLinesL regions + sumBy Table.numLines tables + lines.length
  let nw := match text with
    | some t => splitCount t
    | none => Region.lineWordsL regions + sumBy Table.numWords tables + sumBy Line.wordCount lines
  [("lines", nl), ("words", nw), ("text_regions", regions.length)]
  ++ (if !tables.isEmpty then [("table_regions", tables.length)] else [])

/-- the part of TextRegion.json after the inherited fields, up to (excluding) `stats` -/
def regionFields (lines : List PyVal) (regions : List PyVal) (tables : List PyVal)
    (text : Option String) (orientation : PyVal) : List (Key × PyVal) :=
  optTxt "text" text
  ++ opt "lines" (!lines.isEmpty) (.list lines)
  ++ opt "text_regions" (!regions.isEmpty) (.list regions)
  ++ opt "table_regions" (!tables.isEmpty) (.list tables)
  ++ opt "orientation" orientation.truthy orientation

mutual
def Region.toJson (kf : Int → Key) : Region → PyVal
  | ⟨h, text, orientation, ro, roa, lines, regions, tables⟩ =>
    .dict (baseFields kf "text_region" h ro roa
      ++ regionFields (lines.map (Line.toJson kf)) (Region.toJsonL kf regions)
           (tables.map (Table.toJson kf)) text orientation
      ++ [(.s "stats", statsVal (regionStats text lines regions tables))])
def Region.toJsonL (kf : Int → Key) : List Region → List PyVal
  | [] => []
  | r :: rs => r.toJson kf :: Region.toJsonL kf rs
end

def Column.numLines (c : Column) : Nat :=
  Region.numLinesL c.regions + sumBy Table.numLines c.tables + c.lines.length
def Column.lineWords (c : Column) : Nat :=
  Region.lineWordsL c.regions + sumBy Table.numWords c.tables + sumBy Line.wordCount c.lines
def Column.numTables (c : Column) : Nat := c.tables.length + Region.numTablesL c.regions

def Column.toJson (kf : Int → Key) (c : Column) : PyVal :=
  .dict (baseFields kf "column" c.h c.ro c.roa
    ++ regionFields (c.lines.map (Line.toJson kf)) (Region.toJsonL kf c.regions)
         (c.tables.map (Table.toJson kf)) none c.orientation
    ++ [(.s "stats", statsVal (regionStats none c.lines c.regions c.tables))])

/-- PageXMLPage.stats -/
def Page.stats (p : Page) : List (String × Nat) :=
  let nl := sumBy Column.numLines p.columns + Region.numLinesL p.regions
            + sumBy Table.numLines p.tables + Region.numLinesL p.extra
  let nw := sumBy Column.lineWords p.columns + Region.lineWordsL p.regions
            + sumBy Table.numWords p.tables + Region.lineWordsL p.extra
  [("words", nw), ("lines", nl)]
  ++ (if !p.columns.isEmpty then [("columns", p.columns.length)] else [])
  ++ (if !p.extra.isEmpty then [("extra", p.extra.length)] else [])
  ++ (if !p.regions.isEmpty then [("text_regions", p.regions.length)] else [])
  ++ (if !p.tables.isEmpty then
        [("table_regions", p.tables.length + sumBy Column.numTables p.columns
            + Region.numTablesL p.regions + Region.numTablesL p.extra)] else [])

def Page.toJson (kf : Int → Key) (p : Page) : PyVal :=
  .dict (baseFields kf "page" p.h p.ro p.roa
    ++ regionFields [] (Region.toJsonL kf p.regions) (p.tables.map (Table.toJson kf)) none p.orientation
    ++ [(.s "stats", statsVal p.stats)]
    ++ opt "columns" (!p.columns.isEmpty) (.list (p.columns.map (Column.toJson kf)))
    ++ opt "extra" (!p.extra.isEmpty) (.list (Region.toJsonL kf p.extra)))

/-- PageXMLScan.stats -/
def Scan.stats (s : Scan) : List (String × Nat) :=
  regionStats none s.lines s.regions s.tables
  ++ [("columns", sumBy (fun p : Page => p.columns.length) s.pages),
      ("extra", sumBy (fun p : Page => p.extra.length) s.pages),
      ("pages", s.pages.length)]

def Scan.toJson (kf : Int → Key) (s : Scan) : PyVal :=
  .dict (baseFields kf "scan" s.h s.ro s.roa
    ++ regionFields (s.lines.map (Line.toJson kf)) (Region.toJsonL kf s.regions)
         (s.tables.map (Table.toJson kf)) none s.orientation
    ++ [(.s "stats", statsVal s.stats)]
    ++ opt "columns" (!s.columns.isEmpty) (.list (s.columns.map (Column.toJson kf)))
    ++ opt "pages" (!s.pages.isEmpty) (.list (s.pages.map (Page.toJson kf))))

def Doc.toJson (kf : Int → Key) : Doc → PyVal
  | .word w => w.toJson kf
  | .line l => l.toJson kf
  | .region r => r.toJson kf
  | .column c => c.toJson kf
  | .page p => p.toJson kf
  | .scan s => s.toJson kf

/-! ## constructor side effects -/

def Hdr.setMeta (k : String) (v : PyVal) (h : Hdr) : Hdr := { h with md := setKey (.s k) v h.md }

/-- PhysicalStructureDoc.add_parent_id_to_metadata, as triggered by `set_parent` -/
def Hdr.setParent (ptype : String) (pid : PyVal) (h : Hdr) : Hdr :=
  ((h.setMeta "parent_type" (.str ptype)).setMeta "parent_id" pid).setMeta (ptype ++ "_id") pid

def Word.setParent (t : String) (i : PyVal) (w : Word) : Word := { w with h := w.h.setParent t i }
def Line.setParent (t : String) (i : PyVal) (l : Line) : Line := { l with h := l.h.setParent t i }
def Region.setParent (t : String) (i : PyVal) (r : Region) : Region := { r with h := r.h.setParent t i }
def Column.setParent (t : String) (i : PyVal) (c : Column) : Column := { c with h := c.h.setParent t i }
def Page.setParent (t : String) (i : PyVal) (p : Page) : Page := { p with h := p.h.setParent t i }

/-- StructureDoc.add_type with a list: append what is not yet there -/
def addTypes (cur : List String) : List String → List String
  | [] => cur
  | t :: ts => addTypes (if t ∈ cur then cur else cur ++ [t]) ts

def baseTypes (cls : String) : List String := ["structure_doc", "physical_structure_doc", cls, "pagexml_doc"]

/-- the type list after the constructors of a region-like class ran, before the caller's
    `doc_type` is added: Column/Page/Scan go through PageXMLTextRegion.__init__ with
    `doc_type=<their tag>` -/
def regionBase (mt : String) : List String :=
  if mt = "text_region" then baseTypes "text_region" else baseTypes "text_region" ++ [mt]

/-! ### `set_scan_id`: the scan id in the metadata of everything below -/

def Word.mapAll (f : Hdr → Hdr) (w : Word) : Word := { w with h := f w.h }
def Line.mapAll (f : Hdr → Hdr) (l : Line) : Line :=
  { l with h := f l.h, words := l.words.map (Word.mapAll f) }
def Cell.mapAll (f : Hdr → Hdr) (c : Cell) : Cell :=
  { c with h := f c.h, lines := c.lines.map (Line.mapAll f) }
def Row.mapAll (f : Hdr → Hdr) (r : Row) : Row :=
  { r with h := f r.h, cells := r.cells.map (Cell.mapAll f) }
def Table.mapAll (f : Hdr → Hdr) (t : Table) : Table :=
  { t with h := f t.h, rows := t.rows.map (Row.mapAll f) }
mutual
def Region.mapAll (f : Hdr → Hdr) : Region → Region
  | ⟨h, text, orientation, ro, roa, lines, regions, tables⟩ =>
    ⟨f h, text, orientation, ro, roa, lines.map (Line.mapAll f), Region.mapAllL f regions,
     tables.map (Table.mapAll f)⟩
def Region.mapAllL (f : Hdr → Hdr) : List Region → List Region
  | [] => []
  | r :: rs => r.mapAll f :: Region.mapAllL f rs
end
def Column.mapAll (f : Hdr → Hdr) (c : Column) : Column :=
  { c with h := f c.h, lines := c.lines.map (Line.mapAll f), regions := Region.mapAllL f c.regions,
           tables := c.tables.map (Table.mapAll f) }
def Page.mapAll (f : Hdr → Hdr) (p : Page) : Page :=
  { p with h := f p.h, columns := p.columns.map (Column.mapAll f), regions := Region.mapAllL f p.regions,
           tables := p.tables.map (Table.mapAll f), extra := Region.mapAllL f p.extra }
def Scan.mapAll (f : Hdr → Hdr) (s : Scan) : Scan :=
  { s with h := f s.h, pages := s.pages.map (Page.mapAll f), columns := s.columns.map (Column.mapAll f),
           regions := Region.mapAllL f s.regions, tables := s.tables.map (Table.mapAll f),
           lines := s.lines.map (Line.mapAll f) }

/-! ### `set_parentage` (physical_document_model.py) -/

/-- on a line: `set_as_parent(words)` when there are words (a word has no children) -/
def Line.setParentage (l : Line) : Line :=
  { l with words := l.words.map (Word.setParent "line" l.h.id) }

/-- on a table cell: its lines -/
def Cell.setParentage (c : Cell) : Cell :=
  { c with lines := c.lines.map (fun l => (l.setParent "table_cell" c.h.id).setParentage) }

mutual
/-- on a text region: sub-regions (recursively), then lines (recursively) -/
def Region.setParentage : Region → Region
  | ⟨h, text, orientation, ro, roa, lines, regions, tables⟩ =>
    ⟨h, text, orientation, ro, roa,
     lines.map (fun l => (l.setParent "text_region" h.id).setParentage),
     Region.setParentageL "text_region" h.id regions, tables⟩
/-- `parent.set_as_parent(regions)` followed by `set_parentage(region)` for each.
    (`set_parent` writes the region's own metadata only, `set_parentage(region)` reads the
    region's id / main type and writes its children's metadata only: the two commute, and
    the model applies them in the order structural recursion accepts.) -/
def Region.setParentageL (pt : String) (pid : PyVal) : List Region → List Region
  | [] => []
  | r :: rs => (r.setParentage).setParent pt pid :: Region.setParentageL pt pid rs
end

def Column.setParentage (c : Column) : Column :=
  { c with regions := Region.setParentageL "column" c.h.id c.regions,
           lines := c.lines.map (fun l => (l.setParent "column" c.h.id).setParentage) }

def Page.setParentage (p : Page) : Page :=
  { p with columns := p.columns.map (fun c => (c.setParent "page" p.h.id).setParentage),
           regions := Region.setParentageL "page" p.h.id p.regions }

def Scan.setParentage (s : Scan) : Scan :=
  { s with pages := s.pages.map (fun p => (p.setParent "scan" s.h.id).setParentage),
           columns := s.columns.map (fun c => (c.setParent "scan" s.h.id).setParentage),
           regions := Region.setParentageL "scan" s.h.id s.regions,
           lines := s.lines.map (fun l => (l.setParent "scan" s.h.id).setParentage) }

/-! ### reading order in the TextRegion constructor -/

/-- insertion sort by index: `sorted(reading_order.items(), key=lambda x: x[0])` (stable) -/
def insertByIndex (e : Int × PyVal) : RO → RO
  | [] => [e]
  | x :: xs => if e.1 < x.1 then e :: x :: xs else x :: insertByIndex e xs
def sortByIndex : RO → RO
  | [] => []
  | e :: es => insertByIndex e (sortByIndex es)

/-- `list({v: None for v in vs})`: first occurrences -/
def dedupe : List PyVal → List PyVal → List PyVal
  | _, [] => []
  | seen, v :: vs => if v ∈ seen then dedupe seen vs else v :: dedupe (v :: seen) vs

/-- `tr_map[id]`: the last region with that id wins -/
def lastWithId {α} (idOf : α → PyVal) (id : PyVal) : List α → Option α
  | [] => none
  | r :: rs => match lastWithId idOf id rs with
    | some x => some x
    | none => if idOf r = id then some r else none

/-- TextRegion.get_text_regions_in_reading_order (for a non-empty reading order) -/
def reorder {α} (idOf : α → PyVal) (ro : RO) (rs : List α) : List α :=
  (dedupe [] ((sortByIndex ro).map (·.2))).filterMap (fun id => lastWithId idOf id rs)

/-- every region id is a value of the reading order -/
def allListed {α} (idOf : α → PyVal) (ro : RO) (rs : List α) : Bool :=
  rs.all fun r => ro.any fun e => e.2 = idOf r

/-- `if self.reading_order: self.set_text_regions_in_reader_order()`: a region that the
    reading order does not list switches the reading order off; otherwise the regions are
    put in reading order.  `sorts = false` for a page: PageXMLPage overrides
    `get_text_regions_in_reading_order`, and while the TextRegion constructor runs the page
    has neither columns nor extra yet, so the override returns the text regions as they are. -/
def applyReadingOrder {α} (idOf : α → PyVal) (sorts : Bool) (ro : RO) (rs : List α) : RO × List α :=
  if ro.isEmpty then (ro, rs)
  else if allListed idOf ro rs then (ro, if sorts then reorder idOf ro rs else rs)
  else ([], rs)

/-! ### row padding -/

/-- TableRow constructor: `column_cells` grows to `cell.col` (padding) and then by one, per
    cell; `cell.col` must be an int (`None > int` raises TypeError) -/
def colCells : Nat → List Cell → Res Nat
  | n, [] => .ok n
  | n, c :: cs => match c.col with
    | none => .error .TypeError
    | some col => colCells ((if col > (n : Int) then col.toNat else n) + 1) cs

/-- TextRegion constructor: `if len(row) < table.num_columns: row.pad_columns(table.num_columns)` -/
def Row.pad (m : Nat) (r : Row) : Row :=
  if r.cells.length < m then { r with numCols := max r.numCols m } else r

def Table.pad (t : Table) : Table := { t with rows := t.rows.map (Row.pad (maxCells t.rows)) }

/-! ## the builders -/

def PyVal.asList : PyVal → Res (List PyVal)
  | .list xs => .ok xs
  | _ => .error .TypeError

/-- `[f(x) for x in json_doc[k]] if k in json_doc else []` -/
def optChildren {α} (f : PyVal → Res α) : Option PyVal → Res (List α)
  | some ws => do (← ws.asList).mapM f
  | none => pure []

/-- `doc_type` as a list of tags (a string is one tag); other shapes are outside the model -/
def asTypes : PyVal → Res (List String)
  | .str s => .ok (if s = "" then [] else [s])
  | .list xs => xs.mapM fun x => match x with | .str s => .ok s | _ => .error .TypeError
  | _ => .error .TypeError

/-- `metadata if metadata else {}`; a truthy non-dict is outside the model -/
def asMeta : PyVal → Res Meta
  | .dict kvs => .ok kvs
  | v => if v.truthy then .error .TypeError else .ok []

def asText : PyVal → Res (Option String)
  | .none => .ok none
  | .str s => .ok (some s)
  | _ => .error .TypeError

def scalarOf : PyVal → C03.Scalar
  | .int i => .int i
  | _ => .nonint

def ptInOf : PyVal → C03.PtIn
  | .list xs => .seq (xs.map scalarOf)
  | _ => .notSeq

/-- `Coords(points)` / `Baseline(points)` on a JSON value -/
def parsePts : PyVal → Res Pts
  | .list xs => do let c ← C03.coordsOfList (xs.map ptInOf); pure c.points
  | .str s => do let c ← C03.coordsOfStr s.toList; pure c.points
  | _ => .error .TypeError

/-- json_to_coords -/
def jsonCoords (j : PyVal) (k : String := "coords") : Res (Option Pts) :=
  match j.get? k with
  | some v => do let ps ← parsePts v; pure (some ps)
  | none => .ok none

/-- `int(index)` on a dict key -/
def keyInt : Key → Res Int
  | .i n => .ok n
  | .s s => match pyInt? s.toList with
    | some n => .ok n
    | none => .error .ValueError

/-- `{int(index): region_id for index, region_id in reading_order.items()}` -/
def roOf : List (Key × PyVal) → RO → Res RO
  | [], acc => .ok acc
  | (k, v) :: m, acc => do
    let i ← keyInt k
    roOf m (if acc.any (·.1 = i) then acc.map (fun e => if e.1 = i then (i, v) else e) else acc ++ [(i, v)])

/-- json_to_region_metadata -/
def regionMeta (j : PyVal) : Res (RO × PyVal × PyVal) := do
  let rov := j.getD "reading_order" (.dict [])
  let ro ← if rov.truthy then
      (match rov with
       | .dict kvs => roOf kvs []
       | _ => .error .AttributeError)
    else pure []
  let roa := j.getD "reading_order_attributes" (.dict [])
  let orientation := j.getD "orientation" .none
  return (ro, roa, orientation)

/-- PageXMLWord(...) -/
def mkWord (id ty md : PyVal) (text : PyVal) (coords : Option Pts) (conf : PyVal) : Res Word := do
  let ts ← asTypes ty
  let m ← asMeta md
  let t ← asText text
  return { h := { id := id, types := addTypes (baseTypes "word") ts, md := m, coords := coords },
           text := t, conf := conf }

/-- json_to_pagexml_word (keyword arguments are evaluated in source order) -/
def fromJsonWord (j : PyVal) : Res Word := do
  let id ← j.req "id"
  let ty ← j.req "type"
  let md ← j.req "metadata"
  let text ← j.req "text"
  let coords ← jsonCoords j
  let conf := j.getD "conf" .none
  mkWord id ty md text coords conf

/-- PageXMLTextLine(...) -/
def mkLine (id ty md : PyVal) (coords baseline : Option Pts) (text conf : PyVal) (words : List Word)
    (ro : RO) (roa : PyVal) (xheight : PyVal) : Res Line := do
  let ts ← asTypes ty
  let m ← asMeta md
  let t ← asText text
  let h : Hdr := { id := id, types := addTypes (baseTypes "line") ts, md := setKey (.s "type") (.str "line") m,
                   coords := coords }
  return { h := h, baseline := baseline, text := t, conf := conf, xheight := xheight, ro := ro, roa := roa,
           words := words.map (Word.setParent "line" id) }

/-- json_to_pagexml_line -/
def fromJsonLine (j : PyVal) : Res Line := do
  let words ← optChildren fromJsonWord (j.get? "words")
  let (ro, roa, _) ← regionMeta j
  let id ← j.req "id"
  let ty ← j.req "type"
  let md ← j.req "metadata"
  let coords ← jsonCoords j
  let baseline ← jsonCoords j "baseline"
  let text ← j.req "text"
  let conf := j.getD "conf" .none
  let xheight := j.getD "xheight" .none
  mkLine id ty md coords baseline text conf words ro roa xheight

def asOptInt : PyVal → Res (Option Int)
  | .none => .ok none
  | .int i => .ok (some i)
  | _ => .error .TypeError

/-- json_to_pagexml_table_cell: PageXMLTableCell(...) then set_parentage -/
def fromJsonCell (j : PyVal) : Res Cell := do
  let lines ← optChildren fromJsonLine (j.get? "lines")
  let orientation := j.getD "orientation" .none
  let cornerpoints := j.getD "cornerpoints" .none
  let id ← j.req "id"
  let ty ← j.req "type"
  let md ← j.req "metadata"
  let coords ← jsonCoords j
  let row := j.getD "row" .none
  let header := j.getD "header" .none
  let col ← j.req "col"
  let cellSpan ← j.req "cell_span"
  let rowSpan ← j.req "row_span"
  let ts ← asTypes ty
  let m ← asMeta md
  let col ← asOptInt col
  -- `self.value = " ".join([line.text for line in self.lines if line.text is not None])`:
  -- the texts are strings or None here, nothing can raise
  let c : Cell := { h := { id := id, types := addTypes (baseTypes "table_cell") ts, md := m, coords := coords },
                    row := row, col := col, cellSpan := cellSpan, rowSpan := rowSpan, header := header,
                    cornerpoints := cornerpoints, orientation := orientation,
                    lines := lines.map (Line.setParent "table_cell" id) }
  return c.setParentage

/-- `check_cell_row_consistency`: all cells of a row carry the same row index -/
def sameRow : List Cell → Bool
  | [] => true
  | c :: cs => cs.all (fun d => d.row = c.row)

/-- json_to_pagexml_table_row: PageXMLTableRow(...) (set_parentage finds nothing to do on a row) -/
def fromJsonRow (j : PyVal) : Res Row := do
  let cells ← (← (j.getD "cells" (.list [])).asList).mapM fromJsonCell
  let orientation := j.getD "orientation" .none
  let id ← j.req "id"
  let ty ← j.req "type"
  let md ← j.req "metadata"
  let coords ← jsonCoords j
  let ts ← asTypes ty
  let m ← asMeta md
  if !sameRow cells then .error .ValueError else
  let n ← colCells 0 cells
  -- `self.row_idx = cells[0].row`
  if cells.isEmpty then .error .IndexError else
  return { h := { id := id, types := addTypes (baseTypes "table_row") ts, md := m, coords := coords },
           numCols := n, orientation := orientation, cells := cells }

/-- json_to_pagexml_table_region -/
def fromJsonTable (j : PyVal) : Res Table := do
  let rows ← (← (j.getD "rows" (.list [])).asList).mapM fromJsonRow
  let orientation := j.getD "orientation" .none
  let id ← j.req "id"
  let ty ← j.req "type"
  let md ← j.req "metadata"
  let coords ← jsonCoords j
  let ts ← asTypes ty
  let m ← asMeta md
  return { h := { id := id, types := addTypes (baseTypes "table_region") ts, md := m, coords := coords },
           orientation := orientation, rows := rows }

/-- what PageXMLTextRegion.__init__ does to the children it is given, for a class whose
    main type is `mt`: pad the table rows, parent the lines and regions, apply the reading order -/
structure RegionInit where
  ro : RO
  lines : List Line
  regions : List Region
  tables : List Table

def regionInit (mt : String) (id : PyVal) (ro : RO) (lines : List Line) (regions : List Region)
    (tables : List Table) : RegionInit :=
  let tables := tables.map Table.pad
  let lines := (lines.map (Line.setParent mt id)).map (Line.setParent mt id)
  let regions := regions.map (Region.setParent mt id)
  let (ro, regions) := applyReadingOrder (fun r : Region => r.h.id) (mt != "page") ro regions
  { ro := ro, lines := lines, regions := regions, tables := tables }

/-- json_to_pagexml_text_region; the recursion through `text_regions` takes fuel -/
def fromJsonRegion : Nat → PyVal → Res Region
  | 0, _ => .error .OutOfFuel
  | fuel + 1, j => do
    let regions ← (← (j.getD "text_regions" (.list [])).asList).mapM (fromJsonRegion fuel)
    let lines ← (← (j.getD "lines" (.list [])).asList).mapM fromJsonLine
    let tables ← (← (j.getD "table_regions" (.list [])).asList).mapM fromJsonTable
    let (ro, roa, orientation) ← regionMeta j
    let id ← j.req "id"
    let ty ← j.req "type"
    let md ← j.req "metadata"
    let coords ← jsonCoords j
    let text ← asText (j.getD "text" .none)
    let ts ← asTypes ty
    let m ← asMeta md
    let i := regionInit "text_region" id ro lines regions tables
    let r : Region := { h := { id := id, types := addTypes (regionBase "text_region") ts, md := m, coords := coords },
                        text := text, orientation := orientation, ro := i.ro, roa := roa,
                        lines := i.lines, regions := i.regions, tables := i.tables }
    return r.setParentage

/-- json_to_regions -/
def fromJsonRegions (fuel : Nat) (j : PyVal) : Res (List Region × List Table) := do
  let regions ← (← (j.getD "text_regions" (.list [])).asList).mapM (fromJsonRegion fuel)
  let tables ← (← (j.getD "table_regions" (.list [])).asList).mapM fromJsonTable
  return (regions, tables)

/-- json_to_pagexml_column -/
def fromJsonColumn (fuel : Nat) (j : PyVal) : Res Column := do
  let (regions, tables) ← fromJsonRegions fuel j
  let lines ← optChildren fromJsonLine (j.get? "lines")
  let (ro, roa, orientation) ← regionMeta j
  let id ← j.req "id"
  let ty ← j.req "type"
  let md ← j.req "metadata"
  let coords ← jsonCoords j
  let ts ← asTypes ty
  let m ← asMeta md
  let i := regionInit "column" id ro lines regions tables
  let c : Column := { h := { id := id, types := addTypes (regionBase "column") ts, md := m, coords := coords },
                      orientation := orientation, ro := i.ro, roa := roa,
                      lines := i.lines, regions := i.regions, tables := i.tables }
  return c.setParentage

/-- json_to_column_container (without the lines, which each caller handles) -/
def fromJsonContainer (fuel : Nat) (j : PyVal) : Res (List Column × List Region × List Table × List Line × Option Pts) := do
  let columns ← optChildren (fromJsonColumn fuel) (j.get? "columns")
  let (regions, tables) ← fromJsonRegions fuel j
  let lines ← (← (j.getD "lines" (.list [])).asList).mapM fromJsonLine
  let coords ← jsonCoords j
  return (columns, regions, tables, lines, coords)

/-- json_to_pagexml_page.  A page given direct lines is outside the model (its JSON view
    raises AttributeError): the builder accepts them, the model answers AttributeError. -/
def fromJsonPage (fuel : Nat) (j : PyVal) : Res Page := do
  let extra ← (← (j.getD "extra" (.list [])).asList).mapM (fromJsonRegion fuel)
  let (columns, regions, tables, lines, coords) ← fromJsonContainer fuel j
  let (ro, roa, orientation) ← regionMeta j
  let id ← j.req "id"
  let ty ← j.req "type"
  let md ← j.req "metadata"
  let ts ← asTypes ty
  let m ← asMeta md
  if !lines.isEmpty then .error .AttributeError else
  let i := regionInit "page" id ro [] regions tables
  let p : Page := { h := { id := id, types := addTypes (regionBase "page") ts, md := m, coords := coords },
                    orientation := orientation, ro := i.ro, roa := roa,
                    columns := columns.map (Column.setParent "page" id), regions := i.regions, tables := i.tables,
                    extra := extra.map (Region.setParent "page" id) }
  return p.setParentage

/-- json_to_pagexml_scan: PageXMLScan(...) (which ends with `set_scan_id`), then set_parentage -/
def fromJsonScan (fuel : Nat) (j : PyVal) : Res Scan := do
  let pages ← optChildren (fromJsonPage fuel) (j.get? "pages")
  let (columns, regions, tables, lines, coords) ← fromJsonContainer fuel j
  let (ro, roa, orientation) ← regionMeta j
  let id ← j.req "id"
  let ty ← j.req "type"
  let md ← j.req "metadata"
  let ts ← asTypes ty
  let m ← asMeta md
  let i := regionInit "scan" id ro lines regions tables
  let s : Scan := { h := { id := id, types := addTypes (regionBase "scan") ts, md := m, coords := coords },
                    orientation := orientation, ro := i.ro, roa := roa,
                    pages := pages.map (Page.setParent "scan" id),
                    columns := columns.map (Column.setParent "scan" id),
                    regions := i.regions, tables := i.tables, lines := i.lines }
  return (s.mapAll (Hdr.setMeta "scan_id" id)).setParentage

/-- `t in s` for strings: `t` occurs as a contiguous substring of `s` -/
def isSubstr (t : List Char) : List Char → Bool
  | [] => t.isEmpty
  | c :: cs => t.isPrefixOf (c :: cs) || isSubstr t cs

/-- `tag in json_doc['type']`: list membership, or substring test when `type` is a string -/
def hasTag (ty : PyVal) (tag : String) : Res Bool :=
  match ty with
  | .list xs => .ok (xs.any (· = .str tag))
  | .str s => .ok (isSubstr tag.toList s.toList)
  | _ => .error .TypeError

/-- json_to_pagexml_doc: the dispatch on the type tags (`none` = falls off the end, returns None) -/
def fromJson (fuel : Nat) (j : PyVal) : Res (Option Doc) := do
  let ty ← j.req "type"
  if !(← hasTag ty "pagexml_doc") then .error .TypeError
  else if ← hasTag ty "scan" then return some (.scan (← fromJsonScan fuel j))
  else if ← hasTag ty "page" then return some (.page (← fromJsonPage fuel j))
  else if ← hasTag ty "column" then return some (.column (← fromJsonColumn fuel j))
  else if ← hasTag ty "text_region" then return some (.region (← fromJsonRegion fuel j))
  else if ← hasTag ty "line" then return some (.line (← fromJsonLine j))
  else if ← hasTag ty "word" then return some (.word (← fromJsonWord j))
  else return none

end Pagexml.C06
