/-
Model of the line format of pagexml/helper/text_helper.py and pagexml/helper/pagexml_helper.py
(DESIGN §7 C14), transcribed statement by statement:

  get_bbox, get_line_format_json, get_line_format_tsv, make_line_format_file,
  read_lines_from_line_files, LineReader (__init__/__iter__/_iter/_iter_from_pagexml_docs/
  _iter_from_line_file), transform_box_to_coords, read_pagexml_docs_from_line_file,
  pagexml_to_line_format, write_pagexml_to_line_format, read_line_format_file, LineIterable,
and the traversals they rely on (PageXMLTextRegion.get_inner_text_regions / get_lines /
num_text_regions / num_lines, PageXMLScan.add_child / PageXMLTextRegion.add_child).

The string tables of the source (default header lists of writer and reader, record keys, keys
looked up when documents are rebuilt, separators of the older format) are regenerated from the
working tree on every run (Generated/C14.lean).  The DEFAULT HEADER LISTS of the model ARE the
generated ones (`allHeaders`, `defaultHeaders`): the model follows the source.  The seven column
NAMES (`sDocId` … `sLineBox`) are the vocabulary of the statement; that they are the keys the
source uses is an obligation decided on the generated tables (Lemmas/C14Consts.lean).

Contracts (DESIGN §3.6): gzip and file objects are the identity on the text written; text mode
reads with universal newlines (`univNl`); `sorted()` of file names / documents is the identity on
the lists the harness feeds (DESIGN §9); the box of a Qhull hull is the box of the points (C09).
-/
import PagexmlModel.Basic.Err
import PagexmlModel.Basic.PyInt
import PagexmlModel.Model.C03
import PagexmlModel.Generated.C14

namespace Pagexml.C14
open Pagexml.C03 (splitOn intercalate mkCoords Coords Pt)

abbrev Str := List Char

/-! ### documents -/

/-- the `box` of a `Coords` object: x, y, w, h -/
structure Box where
  x : Int
  y : Int
  w : Int
  h : Int
  deriving DecidableEq, Repr

structure Line where
  id : Str
  text : Option Str
  box : Option Box          -- `None` = the line has no coords
  deriving DecidableEq, Repr

/-- a text region; a document (scan) is a region too (PageXMLScan ⊂ PageXMLTextRegion) -/
inductive Region where
  | mk (id : Str) (box : Option Box) (lines : List Line) (subs : List Region)
  deriving Repr

def Region.id : Region → Str | .mk i _ _ _ => i
def Region.box : Region → Option Box | .mk _ b _ _ => b
def Region.lines : Region → List Line | .mk _ _ l _ => l
def Region.subs : Region → List Region | .mk _ _ _ s => s

mutual
/-- `PageXMLTextRegion.get_lines()` without reading order and tables: the lines of the
    sub-regions (depth first, in list order) and then the region's own lines -/
def Region.allLines : Region → List Line
  | .mk _ _ lines subs => allLinesL subs ++ lines
def allLinesL : List Region → List Line
  | [] => []
  | r :: rs => r.allLines ++ allLinesL rs
end

mutual
/-- `PageXMLTextRegion.get_inner_text_regions()` -/
def Region.inner : Region → List Region
  | .mk i b lines subs =>
    innerL subs ++ (if subs.isEmpty && !lines.isEmpty then [.mk i b lines subs] else [])
/-- the loop body over `self.text_regions` -/
def innerL : List Region → List Region
  | [] => []
  | r :: rs =>
    (if !r.subs.isEmpty then r.inner
     else if !r.lines.isEmpty then [r]
     else []) ++ innerL rs
end

/-! ### records (`get_line_format_json`) -/

def sDocId : Str := ['d','o','c','_','i','d']
def sRegionId : Str := ['t','e','x','t','r','e','g','i','o','n','_','i','d']
def sLineId : Str := ['l','i','n','e','_','i','d']
def sText : Str := ['t','e','x','t']
def sDocBox : Str := ['d','o','c','_','b','o','x']
def sRegionBox : Str := ['t','e','x','t','r','e','g','i','o','n','_','b','o','x']
def sLineBox : Str := ['l','i','n','e','_','b','o','x']

/-- the keys of every record, in insertion order (tied to `Generated.C14.recordKeys`) -/
def baseHeaders : List Str := [sDocId, sRegionId, sLineId, sText]
/-- the keys added with `add_bounding_box` (tied to `Generated.C14.recordBoxKeys`) -/
def boxHeaders : List Str := [sDocBox, sRegionBox, sLineBox]
/-- the seven column names of the statement -/
def columnNames : List Str := baseHeaders ++ boxHeaders
/-- the keys of a record of `get_line_format_json`, in insertion order -/
def recKeys (bbox : Bool) : List Str := baseHeaders ++ (if bbox then boxHeaders else [])
/-- the default header list of `make_line_format_file` (`headers=None`): what the source says -/
def allHeaders : List Str := Generated.C14.writerDefaultHeaders

/-- f"{x},{y},{w},{h}" -/
def bboxString (b : Box) : Str :=
  showInt b.x ++ [','] ++ showInt b.y ++ [','] ++ showInt b.w ++ [','] ++ showInt b.h

/-- `get_bbox`: None when there are no coords -/
def getBbox (b : Option Box) : Option Str := b.map bboxString

/-- a record as yielded by `get_line_format_json`: a dict in insertion order; values are
    strings or None -/
abbrev Rec := List (Str × Option Str)

def mkRec (bbox : Bool) (d tr : Region) (l : Line) : Rec :=
  [(sDocId, some d.id), (sRegionId, some tr.id), (sLineId, some l.id), (sText, l.text)] ++
  (if bbox then [(sDocBox, getBbox d.box), (sRegionBox, getBbox tr.box), (sLineBox, getBbox l.box)]
   else [])

/-- the regions whose ids are written for document `d` -/
def writtenRegions (outer : Bool) (d : Region) : List Region :=
  if d.subs.length = 0 && d.allLines.length > 0 then [d]
  else if outer then d.subs
  else d.inner

def records (outer bbox : Bool) (d : Region) : List Rec :=
  (writtenRegions outer d).flatMap (fun tr => tr.allLines.map (mkRec bbox d tr))

/-- `d[k]` on a record -/
def lookupKey {β} (k : Str) : List (Str × β) → Res β
  | [] => .error .KeyError
  | (k', v) :: rest => if k' = k then .ok v else lookupKey k rest

/-- `get_line_format_tsv`: the row of a record under a header list; None ↦ '' -/
def tsvRow (headers : List Str) (r : Rec) : Res (List Str) :=
  headers.mapM (fun h => (lookupKey h r).map (fun v => v.getD []))

/-! ### writing (`make_line_format_file`) -/

/-- one written line: '\t'.join(fields) + '\n' -/
def tsvLine (fields : List Str) : Str := intercalate ['\t'] fields ++ ['\n']

def encodeRows (rows : List (List Str)) : Str := rows.flatMap tsvLine

/-- the text of a line-format file: optional header line, then the rows -/
def encodeTsv (header : Option (List Str)) (rows : List (List Str)) : Str :=
  (match header with | some hs => tsvLine hs | none => []) ++ encodeRows rows

def makeLineFormatFile (headers : Option (List Str)) (outer bbox : Bool) (docs : List Region) :
    Res Str := do
  let hs := headers.getD allHeaders
  let rows ← (docs.flatMap (records outer bbox)).mapM (tsvRow hs)
  return encodeTsv (some hs) rows

/-! ### reading (`read_lines_from_line_files`, `LineReader._iter_from_line_file`) -/

/-- text-mode reading translates "\r\n" and "\r" to "\n" -/
def univNlAux : Bool → List Char → List Char
  | _, [] => []
  | afterCR, c :: cs =>
    if c = '\r' then '\n' :: univNlAux true cs
    else if c = '\n' && afterCR then univNlAux false cs
    else c :: univNlAux false cs

def univNl (cs : List Char) : List Char := univNlAux false cs

/-- `for line in fh`: the lines with their terminating '\n' (the last one may lack it) -/
def splitLines : List Char → List (List Char)
  | [] => []
  | c :: cs =>
    if c = '\n' then ['\n'] :: splitLines cs
    else match splitLines cs with
      | [] => [[c]]
      | l :: ls => (c :: l) :: ls

/-- `s.strip(chars)` for a character predicate -/
def stripChars (p : Char → Bool) (cs : List Char) : List Char :=
  ((cs.dropWhile p).reverse.dropWhile p).reverse

def isCRLF (c : Char) : Bool := c = '\r' || c = '\n'

/-- A generator's output: the items it yields, in order; an `.error` item is the exception
    that ends it (consumers stop at the first error, so later items are never looked at). -/
abbrev LStream (α : Type) := List (Res α)

/-- `list(generator)` -/
def collect {α} (s : LStream α) : Res (List α) := s.mapM id

/-- `read_lines_from_line_files`: the lines of all files; the first line of every file after
    the first is skipped when `hasHeaders` (`next(fh)` on an empty file: StopIteration inside a
    generator, which Python turns into RuntimeError — raised when that file is reached) -/
def readLinesAux (hasHeaders : Bool) : Bool → List Str → LStream Str
  | _, [] => []
  | first, f :: fs =>
    let ls := splitLines (univNl f)
    if hasHeaders && !first then
      match ls with
      | [] => [.error .RuntimeError]
      | _ :: t => t.map .ok ++ readLinesAux hasHeaders false fs
    else ls.map .ok ++ readLinesAux hasHeaders false fs

def readLinesFromLineFiles (files : List Str) (hasHeaders : Bool) : LStream Str :=
  readLinesAux hasHeaders true files

/-- `{header: cols[hi] for hi, header in enumerate(headers)}` (headers without duplicates) -/
def zipCols : List Str → List Str → Res (List (Str × Str))
  | [], _ => .ok []
  | _ :: _, [] => .error .IndexError
  | h :: hs, c :: cs => do
    let rest ← zipCols hs cs
    return (h, c) :: rest

/-- a record read from a line file: header ↦ column -/
abbrev DRec := List (Str × Str)

/-- the default header list of `LineReader._iter_from_line_file` (no header line, no supplied
    headers): what the source says -/
def defaultHeaders (bbox : Bool) : List Str :=
  Generated.C14.readerDefaultHeaders ++ (if bbox then Generated.C14.readerBoxHeaders else [])

/-- the row loop of `_iter_from_line_file` -/
def rowsOf (headers : List Str) : LStream Str → LStream DRec
  | [] => []
  | .error e :: _ => [.error e]
  | .ok line :: rest =>
    match zipCols headers (splitOn '\t' (stripChars isCRLF line)) with
    | .error e => [.error e]
    | .ok r => .ok r :: rowsOf headers rest

/-- `LineReader._iter_from_line_file`.
    `isSpace` is Python's `str.isspace` on the characters of the header line (`strip()`).
    `supplied` = `line_file_headers`; when it is given, `__init__` sets `has_headers = False`. -/
def iterFromLineFile (isSpace : Char → Bool) (files : List Str) (hasHeaders0 : Bool)
    (supplied : Option (List Str)) (bbox : Bool) : LStream DRec :=
  let hasHeaders := if supplied.isSome then false else hasHeaders0
  let lines := readLinesFromLineFiles files hasHeaders
  if hasHeaders then
    match lines with
    | [] => [.error .RuntimeError]             -- `next(line_iterator)` on an exhausted generator
    | .error e :: _ => [.error e]
    | .ok h :: rest => rowsOf (splitOn '\t' (stripChars isSpace h)) rest
  else
    match supplied with
    | some hs => rowsOf hs lines
    | none => rowsOf (defaultHeaders bbox) lines

/-! ### grouping (`LineReader.__iter__`) -/

/-- the grouping loop: `cur` = `lines`, `prev` = `prev_id` -/
def groupAux {α κ} [DecidableEq κ] (key : α → κ) : List α → κ → List α → List (List α)
  | cur, _, [] => if cur.isEmpty then [] else [cur]
  | cur, prev, x :: xs =>
    if key x ≠ prev then
      (if cur.isEmpty then [] else [cur]) ++ groupAux key [x] (key x) xs
    else groupAux key (cur ++ [x]) (key x) xs

def groupRuns {α κ} [DecidableEq κ] (key : α → κ) (init : κ) (xs : List α) : List (List α) :=
  groupAux key [] init xs

/-- a record of any route, values optional -/
def DRec.toRec (r : DRec) : Rec := r.map (fun (k, v) => (k, some v))

/-- "missing text reads back as empty": None ↦ '' -/
def Rec.norm (r : Rec) : DRec := r.map (fun (k, v) => (k, v.getD []))

/-- the key of a record for grouping (`line[groupby]`) -/
def keyOf (g : Str) (r : Rec) : Option Str :=
  match lookupKey g r with | .ok v => v | .error _ => none

/-- `LineReader.__iter__` with `groupby`: `line[groupby]` is looked up in every record as it
    arrives (KeyError); `prev_id` starts as None -/
def groupRecs (g : Str) (recs : LStream Rec) : Res (List (List Rec)) := do
  let rs ← recs.mapM (fun r => do let r ← r; let _ ← lookupKey g r; pure r)
  return groupRuns (keyOf g) none rs

/-- text read from a PageXML file: an empty TextEquiv parses as no text (xmltodict); everything
    else survives the XML round trip for the documents the harness sends on that route -/
def Line.xmlNorm (l : Line) : Line :=
  { l with text := match l.text with | some [] => none | t => t }

mutual
def Region.xmlNorm : Region → Region
  | .mk i b lines subs => .mk i b (lines.map Line.xmlNorm) (xmlNormL subs)
def xmlNormL : List Region → List Region
  | [] => []
  | r :: rs => r.xmlNorm :: xmlNormL rs
end

/-- `LineReader._iter`: line files, then PageXML files (parsed documents), then in-memory
    documents -/
def readerIter (isSpace : Char → Bool) (files : List Str) (hasHeaders : Bool)
    (supplied : Option (List Str)) (outer bbox : Bool)
    (fileDocs memDocs : List Region) : LStream Rec :=
  (if files.isEmpty then [] else
    (iterFromLineFile isSpace files hasHeaders supplied bbox).map (·.map DRec.toRec))
  ++ ((fileDocs.map Region.xmlNorm).flatMap (records outer bbox)).map .ok
  ++ (memDocs.flatMap (records outer bbox)).map .ok

/-! ### boxes back to coordinates (`transform_box_to_coords`) -/

def mapMOpt {α β} (f : α → Option β) : List α → Option (List β)
  | [] => some []
  | a :: as => match f a, mapMOpt f as with
    | some b, some bs => some (b :: bs)
    | _, _ => none

/-- `x, y, w, h = [int(part) for part in box_string.split(',')]`, then `Coords` of the four
    corners; a failing `int()` and a wrong number of parts are both ValueError -/
def transformBox (s : Str) : Res Coords :=
  match mapMOpt pyInt? (splitOn ',' s) with
  | some [x, y, w, h] => mkCoords [(x, y), (x + w, y), (x + w, y + h), (x, y + h)]
  | _ => .error .ValueError

def boxOfCoords (c : Coords) : Box := ⟨c.x, c.y, c.w, c.h⟩

/-! ### rebuilding documents (`read_pagexml_docs_from_line_file`) -/

structure RLine where
  id : Str
  text : Str
  coords : Option Coords
  deriving Repr, DecidableEq

structure RRegion where
  id : Str
  box : Option Box            -- box of the region's current coords
  lines : List RLine
  deriving Repr, DecidableEq

structure RDoc where
  id : Str
  coords : Option Coords
  regions : List RRegion
  deriving Repr, DecidableEq

/-- `parse_derived_coords` of a region's lines, observed through the box: a line without
    coords → AttributeError; otherwise, in each of the three branches of
    `coords_list_to_hull_coords` (≤ 2 points: `Coords(points)`; all points on one line: the two
    lexicographic extremes, fc690f6; else the Qhull hull, C09 contract) the box of the result
    is the box of all points -/
def RLine.coordsOrErr (l : RLine) : Res Coords :=
  match l.coords with
  | none => .error .AttributeError        -- `None.points`
  | some c => .ok c

def deriveBox (lines : List RLine) : Res Box := do
  let cs ← lines.mapM RLine.coordsOrErr
  return boxOfCoords (← mkCoords (cs.flatMap (·.points)))

/-- `curr_tr.add_child(line)` on the last region of the current document -/
def addLine (regions : List RRegion) (l : RLine) : Res (List RRegion) :=
  match regions.getLast? with
  | none => .error .AttributeError          -- unreachable: a region was just created
  | some r => do
    let ls := r.lines ++ [l]
    let b ← deriveBox ls
    return regions.dropLast ++ [{ r with lines := ls, box := some b }]

/-- the loop of `read_pagexml_docs_from_line_file`; `cur` = `curr_doc` (its last region is
    `curr_tr`); yielded documents are consed in front of the result of the remaining loop -/
def rebuildAux (bbox : Bool) : Option RDoc → LStream DRec → Res (List RDoc)
  | cur, [] => .ok (match cur with | none => [] | some d => [d])
  | _, .error e :: _ => .error e
  | cur, .ok r :: rs => do
    let (dc, tc, lc) ← (if bbox then do
        let dc ← transformBox (← lookupKey sDocBox r)
        let tc ← transformBox (← lookupKey sRegionBox r)
        let lc ← transformBox (← lookupKey sLineBox r)
        pure (some dc, some tc, some lc)
      else pure (none, none, none) : Res (Option Coords × Option Coords × Option Coords))
    let docId ← lookupKey sDocId r
    let newDoc := match cur with | none => true | some d => d.id ≠ docId
    let yielded := if newDoc then (match cur with | none => [] | some d => [d]) else []
    let doc : RDoc := if newDoc then { id := docId, coords := dc, regions := [] }
                      else (match cur with | some d => d | none => { id := docId, coords := dc, regions := [] })
    let trId ← lookupKey sRegionId r
    let newTr := match doc.regions.getLast? with | none => true | some t => t.id ≠ trId
    let regions := if newTr then doc.regions ++ [{ id := trId, box := tc.map boxOfCoords, lines := [] }]
                   else doc.regions
    let lineId ← lookupKey sLineId r
    let text ← lookupKey sText r
    let regions ← addLine regions { id := lineId, text := text, coords := lc }
    let rest ← rebuildAux bbox (some { doc with regions := regions }) rs
    return yielded ++ rest

/-- `read_pagexml_docs_from_line_file(line_files, has_headers, headers, add_bounding_box)` -/
def rebuildDocs (isSpace : Char → Bool) (files : List Str) (hasHeaders : Bool)
    (supplied : Option (List Str)) (bbox : Bool) : Res (List RDoc) :=
  -- through `LineReader.__iter__` / `_iter`: an empty list of line files is "no source"
  rebuildAux bbox none
    (if files.isEmpty then [] else iterFromLineFile isSpace files hasHeaders supplied bbox)

/-- `line.get_words()` of a line without Word children: `text.split(' ')` if the text is
    truthy, else nothing -/
def wordCount (t : Str) : Nat := if t.isEmpty then 0 else (splitOn ' ' t).length

def RDoc.numLines (d : RDoc) : Nat := (d.regions.map (·.lines.length)).sum
def RDoc.numWords (d : RDoc) : Nat :=
  (d.regions.map (fun r => (r.lines.map (fun l => wordCount l.text)).sum)).sum

/-- `doc.num_lines`, `doc.num_words` of an original document (lines without Word children,
    no region-level text) -/
def Region.numLines (d : Region) : Nat := d.allLines.length
def Region.numWords (d : Region) : Nat :=
  (d.allLines.map (fun l => wordCount (l.text.getD []))).sum

/-! ### the older three-column format of pagexml_helper.py -/

def sNone : Str := ['N','o','n','e']

/-- `pagexml_to_line_format` + `write_pagexml_to_line_format`:
    f"{doc_id}\t{line_id}\t{line_text}\n" (the literal parts as the source has them) — a missing
    text is written as "None" -/
def legacyWrite (docs : List Region) : Str :=
  docs.flatMap (fun d => d.allLines.flatMap (fun l =>
    d.id ++ Generated.C14.legacySepAfterDocId ++ l.id ++ Generated.C14.legacySepAfterLineId ++
      (l.text.getD sNone) ++ Generated.C14.legacyLineEnd))

/-- `{header: row[hi] if len(row) > hi else None for hi, header in enumerate(headers)}` -/
def zipColsOpt : List Str → List Str → List (Str × Option Str)
  | [], _ => []
  | h :: hs, [] => (h, none) :: zipColsOpt hs []
  | h :: hs, c :: cs => (h, some c) :: zipColsOpt hs cs

/-- `read_line_format_file` for one list of files (`headers` carried from file to file) -/
def legacyReadAux (isSpace : Char → Bool) (hasHeader : Bool) :
    Option (List Str) → List Str → Res (List Rec)
  | _, [] => .ok []
  | headers, f :: fs => do
    let ls := splitLines (univNl f)
    let (headers, ls) ← (if hasHeader || headers.isNone then
        match ls with
        | [] => .error .RuntimeError
        | h :: t => .ok (some (splitOn '\t' (stripChars isSpace h)), t)
      else .ok (headers, ls) : Res (Option (List Str) × List Str))
    let hs := headers.getD []
    let recs ← ls.mapM (fun line =>
      let row := splitOn '\t' (stripChars isSpace line)
      if row.length > hs.length then (.error .IndexError : Res Rec) else .ok (zipColsOpt hs row))
    let rest ← legacyReadAux isSpace hasHeader headers fs
    return recs ++ rest

def legacyRead (isSpace : Char → Bool) (files : List Str) (headers : Option (List Str))
    (hasHeader : Bool) : Res (List Rec) :=
  legacyReadAux isSpace hasHeader headers files

end Pagexml.C14
