/-
C01 — the text hierarchy: typed source documents (`SrcWord`, `SrcLine`, `SrcRegion`),
their rendering as XML element trees, the parser functions of pagexml/parser.py
transcribed over xmltodict values (`parseWord`, `parseLine`, `parseLineList`,
`regionItem` …), and `mirror*`, the structural map that *is* the statement of C01.

Quirks mirrored on purpose (each is what the code does now):
  * a Word keeps its confidence as the raw attribute string, a TextLine converts it with
    `float()`; `conf=""` on a line is `None`;
  * a Word whose Unicode element is empty has text `""`, a TextLine then has text `None`;
  * a region without Coords takes, after all children are parsed, the hull of all its kept
    sub-regions and lines that have coordinates (sub-regions first, then lines, whatever
    their order in the file); it stays without coordinates when there are none;
  * a region without coordinates, lines, kept sub-regions and text is dropped (`None`),
    and so is a bare `<TextRegion/>` (xmltodict value `None`).
Custom attributes are carried by the source type but not interpreted here (C11 models
`parse_custom_metadata`); float-valued attributes are opaque literals checked by
`isFloatLit`.
-/
import PagexmlModel.Model.Xml
import PagexmlModel.Model.C03

namespace Pagexml.C01
open Pagexml.X
open Pagexml.C03 (Pt Coords mkCoords coordsOfStr pointString splitOn)

/-! ### literals -/

def lowerAscii (c : Char) : Char :=
  if 65 ≤ c.toNat && c.toNat ≤ 90 then Char.ofNat (c.toNat + 32) else c

def isDigitGroup (cs : List Char) : Bool := (undDigitsVal cs false 0).isSome

/-- split at the first character satisfying `p` (which is dropped) -/
def splitFirst (p : Char → Bool) : List Char → List Char × Option (List Char)
  | [] => ([], none)
  | c :: cs =>
    if p c then ([], some cs)
    else match splitFirst p cs with
      | (a, b) => (c :: a, b)

def dropSign : List Char → List Char
  | '+' :: r => r
  | '-' :: r => r
  | r => r

def isFloatBody (cs : List Char) : Bool :=
  match splitFirst (fun c => c = 'e' || c = 'E') cs with
  | (mant, exp) =>
    let expOk := match exp with
      | none => true
      | some e => isDigitGroup (dropSign e)
    let mantOk := match splitFirst (fun c => c = '.') mant with
      | (ip, none) => isDigitGroup ip
      | (ip, some f) => (ip.isEmpty && isDigitGroup f) || (isDigitGroup ip && (f.isEmpty || isDigitGroup f))
    mantOk && expOk

/-- the strings `float()` accepts (ASCII digits; DESIGN §3.4: the value itself is opaque) -/
def isFloatLit (s : String) : Bool :=
  let body := dropSign (stripChars s.toList)
  let low := body.map lowerAscii
  low = "inf".toList || low = "infinity".toList || low = "nan".toList || isFloatBody body

def pyFloat (s : String) : Res String := if isFloatLit s then .ok s else .error .ValueError

def pyIntStr (s : String) : Res Int :=
  match pyInt? s.toList with
  | some i => .ok i
  | none => .error .ValueError

def strOf : PyVal → Res String
  | .str s => .ok s
  | _ => .error .TypeError

/-! ### source documents -/

structure SrcTE where
  conf : Option String
  plain : Option String
  unicode : String
  deriving Repr, DecidableEq, Inhabited

structure SrcWord where
  id : Option String
  custom : Option String
  coords : List Pt
  te : Option SrcTE
  deriving Repr, DecidableEq, Inhabited

structure SrcLine where
  id : Option String
  custom : Option String
  xheight : Option Int
  coords : List Pt
  baseline : Option (List Pt)
  te : Option SrcTE
  words : List SrcWord
  deriving Repr, DecidableEq, Inhabited

inductive SrcRegion where
  | mk (id : Option String) (orientation : Option String) (custom : Option String)
       (coords : Option (List Pt)) (te : Option SrcTE) (linesFirst : Bool)
       (lines : List SrcLine) (subs : List SrcRegion)
  deriving Repr, Inhabited

/-! ### rendering -/

def optAttr (k : String) : Option String → List (String × String)
  | none => []
  | some v => [(k, v)]

def pointsStr (ps : List Pt) : String := String.ofList (pointString ps)

def renderPoints (tag : String) (ps : List Pt) : Xml := .elem tag [("points", pointsStr ps)] "" []

def textElem (tag : String) (t : String) : Xml := .elem tag [] t []

def renderTE (te : SrcTE) : Xml :=
  .elem "TextEquiv" (optAttr "conf" te.conf) ""
    ((te.plain.map (textElem "PlainText")).toList ++ [textElem "Unicode" te.unicode])

def renderWord (w : SrcWord) : Xml :=
  .elem "Word" (optAttr "id" w.id ++ optAttr "custom" w.custom) ""
    ([renderPoints "Coords" w.coords] ++ (w.te.map renderTE).toList)

def intStr (i : Int) : String := String.ofList (showInt i)

def renderLine (l : SrcLine) : Xml :=
  .elem "TextLine" (optAttr "id" l.id ++ optAttr "custom" l.custom ++ optAttr "xheight" (l.xheight.map intStr)) ""
    ([renderPoints "Coords" l.coords] ++ (l.baseline.map (renderPoints "Baseline")).toList
      ++ l.words.map renderWord ++ (l.te.map renderTE).toList)

mutual
  def renderRegion : SrcRegion → Xml
    | .mk id orientation custom coords te linesFirst lines subs =>
      .elem "TextRegion" (optAttr "id" id ++ optAttr "orientation" orientation ++ optAttr "custom" custom) ""
        ((coords.map (renderPoints "Coords")).toList
          ++ (if linesFirst then lines.map renderLine ++ renderRegions subs
              else renderRegions subs ++ lines.map renderLine)
          ++ (te.map renderTE).toList)
  def renderRegions : List SrcRegion → List Xml
    | [] => []
    | r :: rs => renderRegion r :: renderRegions rs
end

/-! ### parsed documents -/

/-- a text value as the parser stores it: `None`, a string, or something else
    (a dict / list when the Unicode element has attributes or is repeated) -/
inductive Txt where
  | none
  | str (s : String)
  | other
  deriving Repr, DecidableEq, Inhabited

def txtOf : PyVal → Txt
  | .none => .none
  | .str s => .str s
  | _ => .other

structure Word where
  id : Option String
  text : Option String
  coords : Option Coords
  conf : Option String
  deriving Repr, DecidableEq, Inhabited

structure Line where
  id : Option String
  text : Txt
  coords : Option Coords
  baseline : Option Coords
  conf : Option String
  xheight : Option Int
  words : List Word
  deriving Repr, DecidableEq, Inhabited

inductive Region where
  | mk (id : Option String) (orientation : Option String) (coords : Option Coords) (text : Txt)
       (lines : List Line) (subs : List Region)
  deriving Repr, Inhabited

def Region.id : Region → Option String | .mk i _ _ _ _ _ => i
def Region.orientation : Region → Option String | .mk _ o _ _ _ _ => o
def Region.coords : Region → Option Coords | .mk _ _ c _ _ _ => c
def Region.text : Region → Txt | .mk _ _ _ t _ _ => t
def Region.lines : Region → List Line | .mk _ _ _ _ l _ => l
def Region.subs : Region → List Region | .mk _ _ _ _ _ s => s

mutual
  /-- `get_lines()` of a text region: the lines of the sub-regions first, then its own -/
  def Region.allLines : Region → List Line
    | .mk _ _ _ _ lines subs => allLinesList subs ++ lines
  def allLinesList : List Region → List Line
    | [] => []
    | r :: rs => r.allLines ++ allLinesList rs
end

/-! ### parser.py over xmltodict values -/

/-- `parse_coords` -/
def parseCoords (v : PyVal) : Res (Option Coords) :=
  match v with
  | .none => .ok none
  | _ => do
    if ← pyIn "@points" v then
      match ← pyGet "@points" v with
      | .str s => if s = "" then .ok none else some <$> coordsOfStr s.toList
      | _ => .error .TypeError
    else .ok none

/-- `parse_baseline` -/
def parseBaseline (v : PyVal) : Res Coords := do
  match ← pyGet "@points" v with
  | .str s => if s = "" then .error .ValueError else coordsOfStr s.toList
  | _ => .error .TypeError

/-- `parse_text_equiv` -/
def parseTextEquiv (v : PyVal) : Res Txt :=
  match v with
  | .str s => .ok (.str s)
  | .none => .ok .none
  | _ => do
    if ← pyIn "Unicode" v then txtOf <$> pyGet "Unicode" v
    else if ← pyIn "PlainText" v then txtOf <$> pyGet "PlainText" v
    else .ok .none

/-- `parse_conf` -/
def parseConf (v : PyVal) : Res (Option String) := do
  if truthy v then
    if ← pyIn "@conf" v then
      match ← pyGet "@conf" v with
      | .str s => if s = "" then .ok none else some <$> pyFloat s
      | _ => .error .TypeError
    else .ok none
  else .ok none

def optStrAttr (k : String) (d : Entries) : Res (Option String) :=
  match lookup k d with
  | none => .ok none
  | some v => some <$> strOf v

/-- one iteration of the loop in `parse_line_words` -/
def parseWord (w : PyVal) : Res Word :=
  match w with
  | .dict d => do
    let (text, conf) ← (match lookup "TextEquiv" d with
      | none => pure (none, none)
      | some .none => pure (none, none)
      | some te => do
        let u ← pyGet "Unicode" te
        let text ← (match u with
          | .str s => pure s
          | .dict _ => do strOf (← pyGet "#text" u)
          | _ => pure "")
        let conf ← (match te with
          | .dict ted => optStrAttr "@conf" ted
          | _ => pure none)
        pure (some text, conf) : Res (Option String × Option String))
    let id ← optStrAttr "@id" d
    let coords ← parseCoords (← pyGet "Coords" w)
    return { id := id, text := text, coords := coords, conf := conf }
  | _ => .error .TypeError

/-- `parse_line_words` -/
def parseWords (d : Entries) : Res (List Word) :=
  match lookup "Word" d with
  | none => .ok []
  | some (.dict wd) => do return [← parseWord (.dict wd)]
  | some (.list ws) => ws.mapM parseWord
  | some _ => .error .TypeError

/-- `parse_textline` -/
def parseLine (v : PyVal) : Res Line :=
  match v with
  | .dict d => do
    let text ← (match lookup "TextEquiv" d with
      | some te => parseTextEquiv te
      | none => pure .none)
    let xheight ← (match lookup "@xheight" d with
      | some x => do some <$> pyIntStr (← strOf x)
      | none => pure none)
    let id ← optStrAttr "@id" d
    let coords ← parseCoords (← pyGet "Coords" v)
    let baseline ← (match lookup "Baseline" d with
      | some b => some <$> parseBaseline b
      | none => pure none)
    let conf ← (match lookup "TextEquiv" d with
      | some te => parseConf te
      | none => pure none)
    let words ← parseWords d
    return { id := id, text := text, coords := coords, baseline := baseline, conf := conf,
             xheight := xheight, words := words }
  | _ => .error .TypeError

/-- `parse_textline_list` (a single TextLine arrives as a dict and is wrapped) -/
def parseLineList (v : PyVal) : Res (List Line) :=
  match v with
  | .dict d => do return [← parseLine (.dict d)]
  | .list xs => xs.mapM parseLine
  | _ => .error .TypeError

/-- `Coords(points)` for a point list: an empty list is an `IndexError` -/
def coordsOfPts (ps : List Pt) : Res Coords :=
  if ps.isEmpty then .error .IndexError else mkCoords ps

/-- `parse_derived_coords` / `coords_list_to_hull_coords`; `hull` stands for
    `edges_to_hull_points(points_to_hull_edges(points))` (C09's contract) -/
def derive (hull : List Pt → Res (List Pt)) (cs : List (Option Coords)) : Res Coords := do
  let ptss ← cs.mapM (fun c => match c with
    | none => (.error .AttributeError : Res (List Pt))
    | some c => .ok c.points)
  let pts := ptss.flatten
  if pts.length ≤ 2 then coordsOfPts pts
  else coordsOfPts (← hull pts)

/-- `coords_list_to_hull_coords` on coordinates objects (the located children) -/
def deriveC (hull : List Pt → Res (List Pt)) (cs : List Coords) : Res Coords := do
  let pts := (cs.map (·.points)).flatten
  if pts.length ≤ 2 then coordsOfPts pts
  else coordsOfPts (← hull pts)

/-- `if not text_region.coords and located: text_region.coords = parse_derived_coords(located)` -/
def deriveIfNeeded (hull : List Pt → Res (List Pt)) (cur : Option Coords) (children : List (Option Coords)) :
    Res (Option Coords) :=
  match cur with
  | some c => .ok (some c)
  | none =>
    let located := children.filterMap id
    if located.isEmpty then .ok none else some <$> deriveC hull located

/-- `len(text.split(' '))` -/
def splitCount (s : String) : Nat := (splitOn ' ' s.toList).length

/-- the words a line contributes to `get_words()` -/
def lineWordCount (l : Line) : Res Nat :=
  if !l.words.isEmpty then .ok l.words.length
  else match l.text with
    | .none => .ok 0
    | .str s => if s = "" then .ok 0 else .ok (splitCount s)
    | .other => .error .AttributeError

def sumCounts (ls : List Line) : Res Nat := do
  let ns ← ls.mapM lineWordCount
  return ns.foldl (· + ·) 0

/-- `num_words` of a text region -/
def regionWordCount (text : Txt) (allLines : List Line) : Res Nat :=
  match text with
  | .str s => .ok (splitCount s)
  | .other => .error .AttributeError
  | .none => sumCounts allLines

structure RegAcc where
  coords : Option Coords
  text : Txt
  lines : List Line
  subs : List Region
  deriving Inhabited

/-- the body of `for child in text_region_dict:`; `subsParsed` is the result of
    `parse_textregion_list` on the (list-wrapped) TextRegion value, consumed only when the
    loop reaches that key -/
def regionStep (_hull : List Pt → Res (List Pt)) (subsParsed : Option (Res (List (Option Region))))
    (acc : RegAcc) (kv : String × PyVal) : Res RegAcc :=
  if kv.1 = "TextEquiv" then do
    return { acc with text := ← parseTextEquiv kv.2 }
  else if kv.1 = "TextLine" then do
    let lines ← parseLineList kv.2
    return { acc with lines := lines }
  else if kv.1 = "TextRegion" then
    match subsParsed with
    | none => .ok acc
    | some r => do
      let subs := (← r).filterMap id
      return { acc with subs := subs }
  else .ok acc

/-- `parse_textregion` for a dict, given the parsed sub-regions -/
def assemble (hull : List Pt → Res (List Pt)) (d : Entries)
    (subsParsed : Option (Res (List (Option Region)))) : Res (Option Region) := do
  let id ← optStrAttr "@id" d
  let orientation ← (match lookup "@orientation" d with
    | some o => do some <$> pyFloat (← strOf o)
    | none => pure none)
  let coords ← (match lookup "Coords" d with
    | some c => parseCoords c
    | none => pure none)
  let acc ← d.foldlM (regionStep hull subsParsed)
    { coords := coords, text := .none, lines := [], subs := [] }
  -- after the loop: `if not text_region.coords: located = text_regions + lines with coords …`
  let derivedCoords ← deriveIfNeeded hull acc.coords (acc.subs.map (·.coords) ++ acc.lines.map (·.coords))
  let acc := { acc with coords := derivedCoords }
  if acc.coords.isNone then
    let allLines := allLinesList acc.subs ++ acc.lines
    let nWords ← regionWordCount acc.text allLines
    if allLines.length + nWords + acc.subs.length = 0 then return none
  return some (.mk id orientation acc.coords acc.text acc.lines acc.subs)

/-- a text-only `<TextRegion>abc</TextRegion>`: the membership tests are substring tests -/
def regionOfStr (s : String) : Res (Option Region) :=
  if isInfix "@id".toList s.toList || isInfix "@orientation".toList s.toList
     || isInfix "Coords".toList s.toList || isInfix "@custom".toList s.toList
  then .error .TypeError else .ok none

mutual
  /-- finds the TextRegion entry and parses its value -/
  def subRegions (hull : List Pt → Res (List Pt)) : Entries → Option (Res (List (Option Region)))
    | [] => none
    | (k, v) :: rest => if k = "TextRegion" then some (regionVal hull v) else subRegions hull rest
  /-- `parse_textregion_list` after the list-wrapping of a single value -/
  def regionVal (hull : List Pt → Res (List Pt)) : PyVal → Res (List (Option Region))
    | .list xs => regionList hull xs
    | .dict d => do return [← assemble hull d (subRegions hull d)]
    | .str s => do return [← regionOfStr s]
    | .none => .ok [none]
  def regionList (hull : List Pt → Res (List Pt)) : List PyVal → Res (List (Option Region))
    | [] => .ok []
    | x :: xs => do
      let a ← regionItem hull x
      let b ← regionList hull xs
      return a :: b
  /-- `parse_textregion` -/
  def regionItem (hull : List Pt → Res (List Pt)) : PyVal → Res (Option Region)
    | .dict d => assemble hull d (subRegions hull d)
    | .str s => regionOfStr s
    | .none => .ok none
    | .list _ => .error .TypeError
end

/-! ### the specification: what the parsed hierarchy must be -/

/-- the coordinates object of a non-empty point list (total version of `mkCoords`) -/
def boxOf (ps : List Pt) : Coords :=
  match ps with
  | [] => { points := [], x := 0, y := 0, w := 0, h := 0 }
  | p :: rest =>
    let x := (rest.map (·.1)).foldl min p.1
    let y := (rest.map (·.2)).foldl min p.2
    let mx := (rest.map (·.1)).foldl max p.1
    let my := (rest.map (·.2)).foldl max p.2
    { points := ps, x := x, y := y, w := mx - x, h := my - y }

def mirrorTEText (te : Option SrcTE) : Txt :=
  match te with
  | none => .none
  | some te => txtOf (textVal te.unicode)

def mirrorWord (w : SrcWord) : Word :=
  { id := w.id
    text := w.te.map (fun te => match textVal te.unicode with
      | .str s => s
      | _ => "")
    coords := some (boxOf w.coords)
    conf := w.te.bind (·.conf) }

def mirrorConf (te : Option SrcTE) : Option String :=
  te.bind (fun te => te.conf.bind (fun c => if c = "" then none else some c))

def mirrorLine (l : SrcLine) : Line :=
  { id := l.id
    text := mirrorTEText l.te
    coords := some (boxOf l.coords)
    baseline := l.baseline.map boxOf
    conf := mirrorConf l.te
    xheight := l.xheight
    words := l.words.map mirrorWord }

/-- the points a region without Coords is derived from -/
def childPts (cs : List (Option Coords)) : List Pt := ((cs.filterMap id).map (·.points)).flatten

def derived (hullT : List Pt → List Pt) (cs : List (Option Coords)) : Coords :=
  let pts := childPts cs
  boxOf (if pts.length ≤ 2 then pts else hullT pts)

/-- the coordinates of a mirrored region: its own Coords, else the hull of all its kept
    sub-regions and lines that have coordinates (sub-regions first), `none` if there are none -/
def regionCoords (hullT : List Pt → List Pt) (coords : Option (List Pt))
    (lc sc : List (Option Coords)) : Option Coords :=
  match coords with
  | some ps => some (boxOf ps)
  | none => if ((sc ++ lc).filterMap id).isEmpty then none else some (derived hullT (sc ++ lc))

/-- a region with neither coordinates nor content is skipped -/
def mkRegionOpt (id orientation : Option String) (cs : Option Coords) (text : Txt)
    (ls : List Line) (ss : List Region) : Option Region :=
  if cs.isNone && ls.isEmpty && ss.isEmpty && text = .none then none
  else some (.mk id orientation cs text ls ss)

mutual
  /-- the region the statement asks for (`none`: the region is skipped) -/
  def mirrorRegion (hullT : List Pt → List Pt) : SrcRegion → Option Region
    | .mk id orientation _custom coords te _linesFirst lines subs =>
      let ls := lines.map mirrorLine
      let ss := mirrorRegions hullT subs
      mkRegionOpt id orientation
        (regionCoords hullT coords (ls.map (·.coords)) (ss.map (·.coords)))
        (mirrorTEText te) ls ss
  def mirrorRegions (hullT : List Pt → List Pt) : List SrcRegion → List Region
    | [] => []
    | r :: rs =>
      match mirrorRegion hullT r with
      | some x => x :: mirrorRegions hullT rs
      | none => mirrorRegions hullT rs
end

/-! ### conformance (decidable) -/

def confOk (te : Option SrcTE) : Bool :=
  match te with
  | none => true
  | some te => match te.conf with
    | none => true
    | some c => c = "" || isFloatLit c

def wordOk (w : SrcWord) : Bool := !w.coords.isEmpty

def lineOk (l : SrcLine) : Bool :=
  !l.coords.isEmpty && l.baseline != some [] && confOk l.te && l.words.all wordOk

/-- the hull contract is only needed where it is used: more than two points
    (the point list is never empty: every coordinates object has points) -/
def ptsOk (hull : List Pt → Res (List Pt)) (hullT : List Pt → List Pt) (pts : List Pt) : Bool :=
  !pts.isEmpty && (pts.length ≤ 2 || (decide (hull pts = .ok (hullT pts)) && !(hullT pts).isEmpty))

/-- the hull contract at the one place a region without Coords uses it -/
def derivOk (hull : List Pt → Res (List Pt)) (hullT : List Pt → List Pt)
    (all : List (Option Coords)) : Bool :=
  if !(all.filterMap id).isEmpty then ptsOk hull hullT (childPts all) else true

mutual
  def regionOk (hull : List Pt → Res (List Pt)) (hullT : List Pt → List Pt) : SrcRegion → Bool
    | .mk _id orientation _custom coords _te _linesFirst lines subs =>
      coords != some []
      && (match orientation with
          | none => true
          | some o => isFloatLit o)
      && lines.all lineOk
      && regionsOk hull hullT subs
      && (match coords with
          | some _ => true
          | none =>
            let lc := (lines.map mirrorLine).map (·.coords)
            let sc := (mirrorRegions hullT subs).map (·.coords)
            derivOk hull hullT (sc ++ lc))
  def regionsOk (hull : List Pt → Res (List Pt)) (hullT : List Pt → List Pt) : List SrcRegion → Bool
    | [] => true
    | r :: rs => regionOk hull hullT r && regionsOk hull hullT rs
end

end Pagexml.C01
