/-
C08 — tables: `parse_table_cell`, `parse_corner_points`, `parse_tableregion`,
`make_rows_from_cells`, the table classes (`column_cells`, `pad_columns`, `num_columns`,
`values`, `shape`, `__getitem__`, stats) and the padding of short rows that
`PageXMLTextRegion.__init__` performs on the tables of a scan.
-/
import PagexmlModel.Model.C01
import PagexmlModel.Model.C05

namespace Pagexml.C08
open Pagexml.X Pagexml.C01
open Pagexml.C03 (Pt Coords)
open Pagexml.C05 (assocSet assocGet)

/-! ### source -/

structure SrcCell where
  id : String
  row : Nat
  col : Nat
  rowSpan : Option Nat
  colSpan : Option Nat
  header : Option String
  orientation : Option String
  custom : Option String
  coords : List Pt
  corner : Option String
  lines : List SrcLine
  deriving Repr, DecidableEq, Inhabited

structure SrcTable where
  id : Option String
  orientation : Option String
  custom : Option String
  coords : Option (List Pt)
  cells : List SrcCell
  deriving Repr, DecidableEq, Inhabited

def natStr (n : Nat) : String := String.ofList (showNat n)

def renderCell (c : SrcCell) : Xml :=
  .elem "TableCell"
    ([("id", c.id), ("row", natStr c.row), ("col", natStr c.col)]
      ++ optAttr "rowSpan" (c.rowSpan.map natStr) ++ optAttr "cellSpan" (c.colSpan.map natStr)
      ++ optAttr "header" c.header ++ optAttr "orientation" c.orientation ++ optAttr "custom" c.custom) ""
    ([renderPoints "Coords" c.coords] ++ c.lines.map renderLine
      ++ (c.corner.map (textElem "CornerPts")).toList)

def renderTable (t : SrcTable) : Xml :=
  .elem "TableRegion" (optAttr "id" t.id ++ optAttr "orientation" t.orientation ++ optAttr "custom" t.custom) ""
    ((t.coords.map (renderPoints "Coords")).toList ++ t.cells.map renderCell)

/-! ### parsed tables -/

/-- `cornerpoints`: four integers, or the text as it stands -/
inductive Corner where
  | pts (a b c d : Int)
  | raw (s : String)
  deriving Repr, DecidableEq, Inhabited

structure Cell where
  id : Option String
  row : Option Int
  col : Option Int
  rowSpan : Option Int
  cellSpan : Option Int
  header : Option String
  orientation : Option String
  coords : Option Coords
  corner : Option Corner
  lines : List Line
  value : String
  deriving Repr, DecidableEq, Inhabited

structure Row where
  id : Option Int
  coords : Coords
  cells : List Cell
  columnCells : List (Option Cell)
  rowIdx : Option Int
  deriving Repr, DecidableEq

structure Table where
  id : Option String
  orientation : Option String
  coords : Option Coords
  rows : List Row
  deriving Repr, DecidableEq, Inhabited

/-! ### parser -/

/-- `str.split()`: maximal runs of non-whitespace characters (`cur` = current run, reversed) -/
def splitWsAux : List Char → List Char → List (List Char)
  | [], cur => if cur.isEmpty then [] else [cur.reverse]
  | c :: cs, cur =>
    if isPySpace c then
      (if cur.isEmpty then splitWsAux cs [] else cur.reverse :: splitWsAux cs [])
    else splitWsAux cs (c :: cur)

def splitWs (cs : List Char) : List (List Char) := splitWsAux cs []

def allAsciiDigits (cs : List Char) : Bool := !cs.isEmpty && cs.all isAsciiDigit

/-- `parse_corner_points` -/
def parseCorner (v : PyVal) : Res Corner := do
  let s ← (match v with
    | .str s => pure s
    | .dict _ => do strOf (← pyGet "#text" v)
    | _ => .error .TypeError : Res String)
  let toks := splitWs s.toList
  match toks with
  | [a, b, c, d] =>
    if allAsciiDigits a && allAsciiDigits b && allAsciiDigits c && allAsciiDigits d then
      match pyInt? a, pyInt? b, pyInt? c, pyInt? d with
      | some a, some b, some c, some d => return .pts a b c d
      | _, _, _, _ => .error .ValueError
    else return .raw s
  | _ => return .raw s

def optIntAttr (k : String) (d : Entries) : Res (Option Int) :=
  match lookup k d with
  | none => .ok none
  | some v => do some <$> pyIntStr (← strOf v)

def joinSp : List String → String
  | [] => ""
  | [a] => a
  | a :: b :: rest => a ++ " " ++ joinSp (b :: rest)

/-- the text a line contributes to the value of its cell: `None` is left out
    (`if line.text is not None`); a text that is neither a string nor `None` makes `" ".join` raise -/
def lineTextRes (l : Line) : Res (Option String) :=
  match l.text with
  | .str s => .ok (some s)
  | .none => .ok none
  | .other => .error .TypeError

/-- `" ".join([line.text for line in lines if line.text is not None])` -/
def cellValue (ls : List Line) : Res String := do
  let ts ← ls.mapM lineTextRes
  return joinSp (ts.filterMap id)

/-- `parse_table_cell` -/
def parseCell (v : PyVal) : Res Cell :=
  match v with
  | .dict d => do
    let lines ← (match lookup "TextLine" d with
      | some tl => parseLineList tl
      | none => pure [])
    let id ← strOf (← pyGet "@id" v)
    let row ← optIntAttr "@row" d
    let col ← optIntAttr "@col" d
    let rowSpan ← optIntAttr "@rowSpan" d
    let cellSpan ← optIntAttr "@cellSpan" d
    let header ← optStrAttr "@header" d
    let orientation ← (match lookup "@orientation" d with
      | some o => do some <$> pyFloat (← strOf o)
      | none => pure none)
    let coords ← (match lookup "Coords" d with
      | some c => parseCoords c
      | none => pure none)
    let corner ← (match lookup "CornerPts" d with
      | some c => some <$> parseCorner c
      | none => pure none)
    let value ← cellValue lines
    return { id := some id, row := row, col := col, rowSpan := rowSpan, cellSpan := cellSpan,
             header := header, orientation := orientation, coords := coords, corner := corner,
             lines := lines, value := value }
  | _ => .error .TypeError

/-- `row_cells[key].append(item)` on a `defaultdict(list)` -/
def groupStep {β κ : Type} [DecidableEq κ] (rowOf : β → κ) (m : List (κ × List β)) (c : β) : List (κ × List β) :=
  match assocGet (rowOf c) m with
  | some cs => assocSet (rowOf c) (cs ++ [c]) m
  | none => m ++ [(rowOf c, [c])]

/-- the grouping loop of `make_rows_from_cells`: groups in first-occurrence order of the row index -/
def groupByRow (cells : List Cell) : List (Option Int × List Cell) :=
  cells.foldl (groupStep Cell.row) []

/-- the loop building `column_cells` in `PageXMLTableRow.__init__` -/
def columnStep (acc : List (Option Cell)) (c : Cell) : Res (List (Option Cell)) :=
  match c.col with
  | none => .error .TypeError
  | some col =>
    let acc := if col > acc.length then acc ++ List.replicate (col.toNat - acc.length) none else acc
    .ok (acc ++ [some c])

def mkRow (hull : List Pt → Res (List Pt)) (rowId : Option Int) (cells : List Cell) : Res Row := do
  let coords ← derive hull (cells.map (·.coords))
  let cols ← cells.foldlM columnStep []
  let rowIdx ← (match cells with
    | c :: _ => pure c.row
    | [] => .error .IndexError : Res (Option Int))
  return { id := rowId, coords := coords, cells := cells, columnCells := cols, rowIdx := rowIdx }

/-- `make_rows_from_cells` -/
def rowsFromCells (hull : List Pt → Res (List Pt)) (cells : List Cell) : Res (List Row) :=
  (groupByRow cells).mapM (fun g => mkRow hull g.1 g.2)

/-- `parse_tableregion` -/
def parseTable (hull : List Pt → Res (List Pt)) (v : PyVal) : Res Table :=
  match v with
  | .dict d => do
    let id ← optStrAttr "@id" d
    let orientation ← (match lookup "@orientation" d with
      | some o => do some <$> pyFloat (← strOf o)
      | none => pure none)
    let coords ← (match lookup "Coords" d with
      | some c => parseCoords c
      | none => pure none)
    let cells ← (match lookup "TableCell" d with
      | none => pure []
      | some (.dict cd) => do pure [← parseCell (.dict cd)]
      | some (.list cs) => cs.mapM parseCell
      | some _ => .error .TypeError : Res (List Cell))
    let rows ← rowsFromCells hull cells
    return { id := id, orientation := orientation, coords := coords, rows := rows }
  | .str s =>
    -- a text-only element: the membership tests are substring tests, the loop runs over characters
    if isInfix "@id".toList s.toList || isInfix "@orientation".toList s.toList
       || isInfix "Coords".toList s.toList || isInfix "@custom".toList s.toList
    then .error .TypeError
    else .ok { id := none, orientation := none, coords := none, rows := [] }
  | _ => .error .TypeError

/-! ### the table classes -/

def maxLen : List Nat → Nat
  | [] => 0
  | a :: as => as.foldl max a

/-- `table.num_columns`: the number of cells of the fullest row (0 without rows) -/
def Table.numColumns (t : Table) : Nat := maxLen (t.rows.map (·.cells.length))

/-- `row.pad_columns(n)` -/
def Row.pad (r : Row) (n : Nat) : Row :=
  { r with columnCells := r.columnCells ++ List.replicate (n - r.columnCells.length) none }

/-- the loop over `table_regions` in `PageXMLTextRegion.__init__` -/
def padTable (t : Table) : Table :=
  { t with rows := t.rows.map (fun r => if r.cells.length < t.numColumns then r.pad t.numColumns else r) }

def Table.shape (t : Table) : Nat × Nat := (t.rows.length, t.numColumns)

/-- `row.values` for a row of table `t` -/
def rowValues (t : Table) (r : Row) : List String :=
  let vs := r.columnCells.map (fun c => match c with
    | none => ""
    | some c => c.value)
  if vs.length < t.numColumns then vs ++ List.replicate (t.numColumns - vs.length) "" else vs

def Table.values (t : Table) : List (List String) := t.rows.map (rowValues t)

/-- `PageXMLTableCell(row=row_idx, col=j, doc_type='empty_cell')` -/
def emptyCell (rowIdx : Option Int) (j : Nat) : Cell :=
  { id := none, row := rowIdx, col := some j, rowSpan := none, cellSpan := none, header := none,
    orientation := none, coords := none, corner := none, lines := [], value := "" }

/-- `table[i][j]` for non-negative indices -/
def Table.getItem (t : Table) (i j : Nat) : Res Cell :=
  match t.rows[i]? with
  | none => .error .IndexError
  | some r => match r.columnCells[j]? with
    | none => .error .IndexError
    | some none => .ok (emptyCell r.rowIdx j)
    | some (some c) => .ok c

def cellWordCount (c : Cell) : Res Nat := sumCounts c.lines

structure TableStats where
  rows : Nat
  cells : Nat
  lines : Nat
  words : Nat
  deriving Repr, DecidableEq

def Table.allCells (t : Table) : List Cell := (t.rows.map (·.cells)).flatten
def Table.allLines (t : Table) : List Line := (t.allCells.map (·.lines)).flatten

def Table.stats (t : Table) : Res TableStats := do
  let ws ← t.allCells.mapM cellWordCount
  return { rows := t.rows.length, cells := t.allCells.length, lines := t.allLines.length,
           words := ws.foldl (· + ·) 0 }

/-! ### the specification -/

/-- the corner points of a (stripped, non-empty) text -/
def cornerOfText (s : String) : Corner :=
  match splitWs s.toList with
  | [a, b, c, d] =>
    if allAsciiDigits a && allAsciiDigits b && allAsciiDigits c && allAsciiDigits d then
      match pyInt? a, pyInt? b, pyInt? c, pyInt? d with
      | some a, some b, some c, some d => .pts a b c d
      | _, _, _, _ => .raw s
    else .raw s
  | _ => .raw s

/-- the text of a line if it has one -/
def lineTextOpt (l : Line) : Option String :=
  match l.text with
  | .str s => some s
  | _ => none

def mirrorCell (c : SrcCell) : Cell :=
  let lines := c.lines.map mirrorLine
  { id := some c.id, row := some c.row, col := some c.col
    rowSpan := c.rowSpan.map Int.ofNat, cellSpan := c.colSpan.map Int.ofNat
    header := c.header, orientation := c.orientation
    coords := some (boxOf c.coords)
    corner := c.corner.map (fun t => cornerOfText (X.strip t))
    lines := lines
    value := joinSp (lines.filterMap lineTextOpt) }

/-- `column_cells` of a row: the cells at their column positions, gaps filled with `None` -/
def columnCellsOf (cells : List Cell) : List (Option Cell) :=
  cells.foldl (fun acc c =>
    let col := (c.col.getD 0).toNat
    (if col > acc.length then acc ++ List.replicate (col - acc.length) none else acc) ++ [some c]) []

def mirrorRow (hullT : List Pt → List Pt) (g : Option Int × List Cell) : Row :=
  { id := g.1, coords := derived hullT (g.2.map (·.coords)), cells := g.2,
    columnCells := columnCellsOf g.2, rowIdx := g.2.head?.bind (·.row) }

/-- the table the statement asks for, before the padding done by the scan -/
def mirrorTable (hullT : List Pt → List Pt) (t : SrcTable) : Table :=
  { id := t.id, orientation := t.orientation, coords := t.coords.map boxOf,
    rows := (groupByRow (t.cells.map mirrorCell)).map (mirrorRow hullT) }

end Pagexml.C08
