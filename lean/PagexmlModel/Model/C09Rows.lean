/-
C09 — table rows: `parser.make_rows_from_cells` as far as the derived coordinates are concerned.

    row_cells = defaultdict(list)
    for cell in cells:
        row_cells[cell.row].append(cell)
    for row_id in row_cells:
        row_coords = parse_derived_coords(row_cells[row_id])
        table_row = PageXMLTableRow(doc_id=row_id, coords=row_coords, cells=row_cells[row_id])

A cell is what this function can see of a `PageXMLTableCell`: the row index it is listed under, its
coordinates, and the optional attributes (`rowSpan`, `cellSpan`, `header`) that it carries along and
never reads.  The grouping loop is the one of the table model (`C08.groupStep`).
-/
import PagexmlModel.Model.C09
import PagexmlModel.Model.C08

namespace Pagexml.C09
open Pagexml.C03 (Pt Coords)

structure CellG where
  row : Option Int
  rowSpan : Option Int
  cellSpan : Option Int
  header : Option String
  /-- `cell.coords.points` (`none`: `coords is None`) -/
  coords : Option (List Pt)
  deriving Repr, DecidableEq, Inhabited

structure RowG where
  id : Option Int
  cells : List CellG
  coords : Coords
  deriving Repr, DecidableEq

/-- the `defaultdict(list)` loop: one group per row index, in first-occurrence order -/
def groupRows (cells : List CellG) : List (Option Int × List CellG) :=
  cells.foldl (C08.groupStep CellG.row) []

/-- one row: its coordinates are `parse_derived_coords` of the cells listed under the index -/
def mkRowG (he : HullEdges) (g : Option Int × List CellG) : Res RowG := do
  let c ← parseDerivedCoords he (g.2.map (·.coords))
  return { id := g.1, cells := g.2, coords := c }

/-- `make_rows_from_cells` -/
def rowsFromCells (he : HullEdges) (cells : List CellG) : Res (List RowG) :=
  (groupRows cells).mapM (mkRowG he)

end Pagexml.C09
