/-
Model of pagexml/helper/file_helper.py (archive readers) — DESIGN §7 C12.

* path functions (`os.path.split`, `os.path.splitext`, `os.path.normpath` of posixpath, `str.split`)
  transcribed over `List Char`;
* `parse_archived_filename`, `get_archiver_mode`, `get_archive_functions` evaluated over the tables
  GENERATED from the source (`Generated/C12.lean`);
* `read_zip_handle` / `read_tar_handle` / `read_7z_handle` / `read_inner_archive` / `Extractor` as
  generators over an abstract archive tree (what a faithful container library lists, DESIGN §3.6).

A Python generator is modelled by `Gen`: the items yielded, then possibly an exception (an exception
escaping a generator ends it).  Exceptions are class names; "BadArchive" stands for the error of the
container library that is asked to open something it cannot read (BadZipFile / ReadError / Bad7zFile).
-/
import PagexmlModel.Model.C03
import PagexmlModel.Generated.C12

namespace Pagexml.C12
open Pagexml.C03 (splitOn intercalate)
open Pagexml.Generated.C12

abbrev Path := List Char
abbrev Bytes := List UInt8

/-! ### string and path functions -/

/-- `p[p.rfind(sep)+1:]` — the part after the last separator (all of `p` if there is none) -/
def lastSeg (sep : Char) : Path → Path
  | [] => []
  | c :: cs => if sep ∈ cs then lastSeg sep cs else if c = sep then cs else c :: cs

/-- `p[:p.rfind(sep)+1]` -/
def initSeg (sep : Char) (p : Path) : Path := p.take (p.length - (lastSeg sep p).length)

/-- `s.rstrip(c)` -/
def rstrip (c : Char) (s : Path) : Path := (s.reverse.dropWhile (· = c)).reverse

/-- `s.endswith(suf)` -/
def endsWith (s suf : Path) : Bool := suf.isSuffixOf s

/-- `posixpath.split` -/
def posixSplit (p : Path) : Path × Path :=
  let head := initSeg '/' p
  let tail := lastSeg '/' p
  (if head.all (· = '/') then head else rstrip '/' head, tail)

/-- `posixpath.splitext` (`genericpath._splitext` with sep '/', no altsep): the extension starts at the
    last dot of the last path component, unless only dots precede it there -/
def splitext (p : Path) : Path × Path :=
  let name := lastSeg '/' p
  if '.' ∈ name then
    let ext := lastSeg '.' name
    let base := name.take (name.length - ext.length - 1)
    if base.all (· = '.') then (p, [])
    else (p.take (p.length - ext.length - 1), '.' :: ext)
  else (p, [])

/-- one step of the component loop of `posixpath.normpath` -/
def normStep (initialSlashes : Nat) (acc : List Path) (comp : Path) : List Path :=
  if comp = [] ∨ comp = ['.'] then acc
  else if comp ≠ ['.', '.'] ∨ (initialSlashes = 0 ∧ acc = []) ∨ (acc ≠ [] ∧ acc.getLast? = some ['.', '.'])
  then acc ++ [comp]
  else acc.dropLast      -- `elif new_comps: new_comps.pop()`; popping nothing when empty

/-- `posixpath.normpath` -/
def normpath (p : Path) : Path :=
  if p = [] then ['.'] else
  let initialSlashes : Nat :=
    match p with
    | '/' :: '/' :: '/' :: _ => 1
    | '/' :: '/' :: _ => 2
    | '/' :: _ => 1
    | _ => 0
  let comps := (splitOn '/' p).foldl (normStep initialSlashes) []
  let r := List.replicate initialSlashes '/' ++ intercalate ['/'] comps
  if r = [] then ['.'] else r

structure Parsed where
  dir : Path
  file : Path
  ext : Path
  deriving Repr, DecidableEq

def doubleExtsL : List Path := doubleExts.map String.toList

/-- the first half of `parse_archived_filename` (os.sep = '/'): directory and file name -/
def splitDirFile (fname : Path) : Path × Path :=
  let nb := fname.count '\\'
  let ns := fname.count '/'
  if nb > 0 ∧ ns = 0 then
    -- `*dirs, file = fname.split('\\')`, `dir = '\\'.join(dirs)`
    ((initSeg '\\' fname).dropLast, lastSeg '\\' fname)
  else if nb = 0 ∧ ns > 0 then posixSplit fname
  else if nb = 0 ∧ ns = 0 then ([], fname)
  else posixSplit (normpath fname)

/-- the second half: `base, ext = os.path.splitext(file)` and the double-extension rule (generated) -/
def extOfFile (file : Path) : Path :=
  let be := splitext file
  if doubleExtsL.contains be.2 ∧ endsWith be.1 doubleBaseSuffix.toList
  then doublePrefix.toList ++ be.2 else be.2

/-- `parse_archived_filename` -/
def parseArchivedFilename (fname : Path) : Parsed :=
  let df := splitDirFile fname
  { dir := df.1, file := df.2, ext := extOfFile df.2 }

/-! ### the generated tables -/

def zipExts : List Path := zipExtensions.map String.toList

/-- `ext in ZIP_EXTENSIONS` -/
def isZipExt (ext : Path) : Bool := zipExts.contains ext

def lookupMode (ext : Path) : List (List String × String × String) → Option (String × String)
  | [] => none
  | (exts, a, m) :: rest => if (exts.map String.toList).contains ext then some (a, m) else lookupMode ext rest

/-- `get_archiver_mode` -/
def archiverMode (p : Path) : Except String (String × String) :=
  match lookupMode (parseArchivedFilename p).ext archiverModeChain with
  | some r => .ok r
  | none => .error archiverModeElse

def lookupFns (archiver : String) : List (String × String × String) → Option (String × String)
  | [] => none
  | (a, o, r) :: rest => if a = archiver then some (o, r) else lookupFns archiver rest

/-- `get_archive_functions` -/
def archiveFns (archiver : String) : Except String (String × String) :=
  match lookupFns archiver archiveFunctions with
  | some r => .ok r
  | none => .error archiveFunctionsElse

/-! ### archives -/

/-- the container format a blob really has -/
inductive Kind where
  | zip | tar | targz | tarbz2 | sevenz
  deriving DecidableEq, Repr

/-- what a faithful container library lists: regular files with their bytes, directories, and
    regular files whose bytes are themselves a container of format `kind` holding `inner` -/
inductive Member where
  | file (path : Path) (data : Bytes)
  | dir (path : Path)
  | nested (path : Path) (kind : Kind) (raw : Bytes) (inner : List Member)

abbrev Archive := List Member

/-- does `openFn(blob, mode=mode)` succeed on a container of format `k` (contract of the libraries) -/
def opens (openFn mode : String) (k : Kind) : Bool :=
  if openFn = "zipfile.ZipFile" then mode = "r" && k = .zip
  else if openFn = "py7zr.SevenZipFile" then mode = "r" && k = .sevenz
  else if openFn = "tarfile.open" then
    if mode = "r:" then k = .tar
    else if mode = "r:gz" then k = .targz
    else if mode = "r:bz2" then k = .tarbz2
    else if mode = "r" || mode = "r:*" then k = .tar || k = .targz || k = .tarbz2
    else false
  else false

structure FileInfo where
  sourceFile : List Path
  archivedFilename : Path
  archivedFilepath : Path
  deriving Repr, DecidableEq

abbrev Item := FileInfo × Option Bytes

/-- a generator run: the items yielded, then the exception that ended it (if any) -/
structure Gen (α : Type) where
  items : List α
  exn : Option String
  deriving Repr, DecidableEq

def Gen.nil {α} : Gen α := ⟨[], none⟩
def Gen.raise {α} (e : String) : Gen α := ⟨[], some e⟩
def Gen.yield {α} (a : α) : Gen α := ⟨[a], none⟩
/-- run `g`, then (if it did not raise) `h` -/
def Gen.append {α} (g h : Gen α) : Gen α :=
  match g.exn with
  | some _ => g
  | none => ⟨g.items ++ h.items, h.exn⟩
def Gen.map {α β} (f : α → β) (g : Gen α) : Gen β := ⟨g.items.map f, g.exn⟩

/-- `inner_file_info['source_file'] = file_info['source_file'] + inner_file_info['source_file']` -/
def prependSource (outer : List Path) (it : Item) : Item :=
  ({ it.1 with sourceFile := outer ++ it.1.sourceFile }, it.2)

def mkInfo (archiveName memberPath : Path) : FileInfo :=
  { sourceFile := [archiveName], archivedFilename := (parseArchivedFilename memberPath).file,
    archivedFilepath := memberPath }

def content (namesOnly : Bool) (data : Bytes) : Option Bytes := if namesOnly then none else some data

/-- what `read_inner_archive` does before it iterates: `get_archiver_mode`, `get_archive_functions`,
    open.  Result: the reader to iterate with, or the exception raised. -/
def openInner (memberPath : Path) (kind : Option Kind) : Except String String := do
  let (archiver, mode) ← archiverMode memberPath
  let (openFn, reader) ← archiveFns archiver
  match kind with
  | some k => if opens openFn mode k then .ok reader else .error "BadArchive"
  | none => .error "BadArchive"

mutual
/-- the body of the member loop of `read_zip_handle` / `read_tar_handle` (they have the same control
    flow: skip directories, expand members whose extension is in ZIP_EXTENSIONS, yield the others)
    and of `read_7z_handle` (py7zr's `readall()` lists regular files only; every one is yielded) -/
def readMember (namesOnly : Bool) (reader : String) (archiveName : Path) : Member → Gen Item
  | .dir _ => .nil
  | .file path data =>
    let info := mkInfo archiveName path
    if reader = "read_7z_handle" then .yield (info, content namesOnly data)
    else if isZipExt (parseArchivedFilename path).ext then
      match openInner path none with
      | .error e => .raise e
      | .ok _ => .raise "BadArchive"
    else .yield (info, content namesOnly data)
  | .nested path kind raw inner =>
    let info := mkInfo archiveName path
    if reader = "read_7z_handle" then .yield (info, content namesOnly raw)
    else if isZipExt (parseArchivedFilename path).ext then
      match openInner path (some kind) with
      | .error e => .raise e
      | .ok innerReader =>
        if innerReader = "read_zip_handle" ∨ innerReader = "read_tar_handle" ∨ innerReader = "read_7z_handle" then
          (readHandle namesOnly innerReader path inner).map (prependSource info.sourceFile)
        else .raise "ModelUnknownReader"
    else .yield (info, content namesOnly raw)

def readHandle (namesOnly : Bool) (reader : String) (archiveName : Path) : List Member → Gen Item
  | [] => .nil
  | m :: ms => (readMember namesOnly reader archiveName m).append (readHandle namesOnly reader archiveName ms)
end

/-- `read_page_archive_file` (`Extractor.__init__` + `__iter__`) on a file named `path` that really
    is a container of format `kind` listing `a` -/
def readPageArchiveFile (namesOnly : Bool) (path : Path) (kind : Kind) (a : Archive) : Gen Item :=
  match archiverMode path with
  | .error e => .raise e
  | .ok (archiver, mode) =>
    match archiveFns archiver with
    | .error e => .raise e
    | .ok (openFn, reader) =>
      if opens openFn mode kind then
        if reader = "read_zip_handle" ∨ reader = "read_tar_handle" ∨ reader = "read_7z_handle" then
          readHandle namesOnly reader path a
        else .raise "ModelUnknownReader"
      else .raise "BadArchive"

/-! ### directories -/

/-- the regular files of a directory tree (paths relative to the root) that
    `glob(os.path.join(root, '**/*.xml'), recursive=True)` followed by `endswith('.xml')` selects:
    the name ends in `.xml` and no path component starts with a dot (glob skips hidden entries).
    The order of the result is the directory-scan order, which is not specified: compared as sets. -/
def hiddenPath (p : Path) : Bool := (splitOn '/' p).any (fun c => c.head? = some '.')

/-- the name ends in `.xml` and the entry is not hidden -/
def xmlVisible (p : Path) : Bool := endsWith (lastSeg '/' p) ".xml".toList && !hiddenPath p

def globXml : List Member → List Path
  | [] => []
  | .file path _ :: ms => if xmlVisible path then path :: globXml ms else globXml ms
  | .dir _ :: ms => globXml ms
  | .nested path _ _ _ :: ms => if xmlVisible path then path :: globXml ms else globXml ms

end Pagexml.C12
