/-
GENERATED on every run by harness/translate.py from the current /repo working tree.
Do not edit: the property theorems are re-checked against what the code says NOW.
source: pagexml/model/pagexml_document_model.py: default `threshold` of is_horizontally_overlapping / is_vertically_overlapping
-/
namespace Pagexml.Generated.C10

/-- default threshold (p, q) of is_horizontally_overlapping: used by is_below -/
def hOverlapThr : Int × Int := (1, 2)

/-- default threshold (p, q) of is_vertically_overlapping: used by is_next_to -/
def vOverlapThr : Int × Int := (1, 2)

end Pagexml.Generated.C10
