/-
GENERATED on every run by harness/translate.py from the current /repo working tree.
Do not edit: the property theorems are re-checked against what the code says NOW.
source: pagexml/analysis/layout_stats.py: step reaching compute_baseline_distances / compute_bounding_box_distances from the functions that pass none, fall-back step of get_text_heights, thresholds of the is_*_overlapping calls; pagexml/model/physical_document_model.py: in_same_column
-/
namespace Pagexml.Generated.C19

/-- step with which get_line_distances, get_textregion_line_distances, compute_textregion_distance and
    compute_lines_stats reach compute_baseline_distances (they pass none: its default) -/
def lineDistStep : Int := 50

/-- step with which get_line_distances reaches compute_bounding_box_distances -/
def bboxDistStep : Int := 50

/-- get_text_heights: `if line.baseline.width <= step: step = N` -/
def textHeightsFallbackStep : Int := 5

/-- threshold (p, q) with which compute_textregion_distance reaches is_vertically_overlapping -/
def regionVOverlapThr : Int × Int := (1, 2)

/-- threshold (p, q) with which compute_textregions_stats reaches is_horizontally_overlapping -/
def regionHOverlapThr : Int × Int := (1, 2)

/-- in_same_column: `get_horizontal_overlap(e1, e2) > e1.coords.w / N` -/
def sameColumnDivisor : Int := 2

end Pagexml.Generated.C19
