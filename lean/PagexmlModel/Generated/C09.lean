/-
GENERATED on every run by harness/translate.py from the current /repo working tree.
Do not edit: the property theorems are re-checked against what the code says NOW.
source: pagexml/model/coords.py: coords_list_to_hull_coords `len(points) <= N`; pagexml/model/basic_document_model.py: poly_area `len(points) <= N`
-/
namespace Pagexml.Generated.C09

/-- coords_list_to_hull_coords: up to this many points are returned as given (no hull computed) -/
def hullAsGivenMax : Nat := 2

/-- poly_area: up to this many points have area 0 (no hull computed) -/
def areaZeroMax : Nat := 2

end Pagexml.Generated.C09
