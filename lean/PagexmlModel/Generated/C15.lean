/-
GENERATED on every run by harness/translate.py from the current /repo working tree.
Do not edit: the property theorems are re-checked against what the code says NOW.
source: pagexml/model/pagexml_document_model.py: PageXMLTextLine.is_next_to (overlap limit, two baseline tolerances), sort_lines (two ratios), PageXMLTextRegion.__lt__ -> is_horizontally_overlapping (threshold); pagexml/model/coords.py: baseline_is_below (ratio)
-/
namespace Pagexml.Generated.C15

/-- `is_next_to`: `get_horizontal_overlap(self, other) > N` means "not next to" -/
def nextToMaxHOverlap : Int := 40

/-- `is_next_to`: `self.baseline.top > other.baseline.bottom + N` means "not next to" -/
def nextToTolTop : Int := 10

/-- `is_next_to`: `self.baseline.bottom < other.baseline.top - N` means "not next to" -/
def nextToTolBottom : Int := 10

/-- `sort_lines`: `vertical_ratio < p/q` (first half of the "side by side" test) -/
def sortLinesVRatio : Int × Int := (1, 5)

/-- `sort_lines`: `horizontal_ratio > p/q` (second half) -/
def sortLinesHRatio : Int × Int := (4, 5)

/-- `baseline_is_below`: `num_below / num_overlap > p/q` -/
def baselineBelowRatio : Int × Int := (1, 2)

/-- threshold (p, q) that reaches `is_horizontally_overlapping` from `PageXMLTextRegion.__lt__` -/
def regionHOverlapThr : Int × Int := (1, 2)

end Pagexml.Generated.C15
