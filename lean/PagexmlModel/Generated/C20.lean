/- GENERATED on every run by harness/props/c20_translate.py from the current /repo working tree.
   Do not edit: the property theorems are re-checked against what the code says NOW.
   (1) pagexml/analysis/text_stats.py: module constants wpl_to_cat / wpl_cat_min / wpl_cat_max / wpl_cat_range,
       evaluated at run time because they are computed with np.log;
   (2) read with `ast`: pagexml/analysis/stats.py (defaults of get_doc_stats, the arguments with which it reaches
       _init_doc_stats and text_stats.get_word_cat_stats, DEFAULT_ELEMENTS, `fields` and the bin range of
       _init_doc_stats), pagexml/analysis/text_stats.py (defaults, dict keys and length loop of get_word_cat_stats, _SMALL and
       the factor of the score in compute_log_likelihood), pagexml/analysis/layout_stats.py (`prev_point = N` of
       categorise_line_width / get_boundary_width_ranges). -/
namespace Pagexml.Generated.C20

/-- `wpl_cat_range` in dict order: (range label, `wpl_cat_min`, `wpl_cat_max`) -/
def wplCats : List (String × Nat × Nat) := [
  ("0-0", 0, 0),
  ("1-1", 1, 1),
  ("2-2", 2, 2),
  ("3-3", 3, 3),
  ("4-5", 4, 5),
  ("6-9", 6, 9),
  ("10-15", 10, 15),
  ("16-25", 16, 25),
  ("26-42", 26, 42),
  ("43-70", 43, 70),
  ("71-100", 71, 100)
]

/-- for `wpl` = 0, 1, …: index into `wplCats` of `wpl_cat_range[wpl_to_cat[wpl]]` -/
def wplToCat : List Nat := [0, 1, 2, 3, 4, 4, 5, 5, 5, 5, 6, 6, 6, 6, 6, 6, 7, 7, 7, 7, 7, 7, 7, 7, 7, 7, 8, 8, 8, 8, 8, 8, 8, 8, 8, 8, 8, 8, 8, 8, 8, 8, 8, 9, 9, 9, 9, 9, 9, 9, 9, 9, 9, 9, 9, 9, 9, 9, 9, 9, 9, 9, 9, 9, 9, 9, 9, 9, 9, 9, 9, 10, 10, 10, 10, 10, 10, 10, 10, 10, 10, 10, 10, 10, 10, 10, 10, 10, 10, 10, 10, 10, 10, 10, 10, 10, 10, 10, 10, 10, 10]

/-- index of `wpl_cat_range[max(wpl_cat_range.keys())]` (lines with more words than the table covers) -/
def wplOverflow : Nat := 10

/-- default `max_word_length` of get_doc_stats -/
def defaultMaxWordLength : Nat := 30

/-- default `line_bin_width` of get_doc_stats (`range(line_bin_width, max_bin, line_bin_width)` are the boundary
    points when none are passed) -/
def defaultLineBinWidth : Int := 300

/-- default `max_bin` of get_doc_stats -/
def defaultMaxBin : Int := 3000

/-- `word_length_bin_size` with which get_doc_stats reaches _init_doc_stats (the literal passed, else the default) -/
def initBinSize : Nat := 5

/-- `word_length_bin_size` with which get_doc_stats reaches text_stats.get_word_cat_stats -/
def wordCatBinSize : Nat := 5

/-- default `max_word_length` of get_word_cat_stats (called directly) -/
def wordCatDefaultMaxLen : Nat := 30

/-- default `word_length_bin_size` of get_word_cat_stats (called directly) -/
def wordCatDefaultBinSize : Nat := 5

/-- `N` of `range(word_length_bin_size, max_word_length + N, word_length_bin_size)` in _init_doc_stats -/
def initBinStopPlus : Nat := 1

/-- `(A, B)` of `for wl in range(A, max_word_length + B)` in get_word_cat_stats -/
def wordLoop : Nat × Nat := (1, 1)

/-- `DEFAULT_ELEMENTS` of stats.py -/
def defaultElements : List String := ["lines", "words", "text_regions", "columns", "extra", "pages"]

/-- `fields` of _init_doc_stats (the columns that do not depend on the configuration) -/
def initFields : List String := ["doc_id", "doc_num", "doc_width", "doc_height", "lines", "words", "text_regions", "columns", "extra", "pages", "num_words", "num_alpha_words", "num_number_words", "num_title_words", "num_non_title_words", "num_stop_words", "num_punctuation_words", "num_oversized_words"]

/-- the keys of the dict display `word_cat_stats = {…}` of get_word_cat_stats (get_doc_stats appends each to the
    column of that name) -/
def wordCatKeys : List String := ["num_words", "num_alpha_words", "num_number_words", "num_title_words", "num_non_title_words", "num_stop_words", "num_punctuation_words", "num_oversized_words"]

/-- `prev_point = N` at the start of categorise_line_width -/
def catWidthStart : Int := 0

/-- `prev_point = N` at the start of get_boundary_width_ranges -/
def rangesWidthStart : Int := 0

/-- `_SMALL` of text_stats.py as the exact ratio (numerator, denominator) its decimal literal denotes -/
def small : Nat × Nat := (1, 100000000000000000000)

/-- `N` of `return N * sum_likelihood, …` in compute_log_likelihood -/
def scoreFactor : Nat := 2

end Pagexml.Generated.C20
