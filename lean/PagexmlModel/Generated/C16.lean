/-
GENERATED on every run by harness/translate.py from the current /repo working tree.
Do not edit: the property theorems are re-checked against what the code says NOW.
source: pagexml/helper/pagexml_helper.py: the „ literals of make_text_region_text, the blanks of make_line_text, the hyphen and the PMI threshold of line_ends_with_word_break, the defaults of make_line_text, make_text_region_text, merge_lines
-/
namespace Pagexml.Generated.C16

/-- `S` of `prev_line_text.startswith(S)` in make_text_region_text (the prefix that is cut off) -/
def quoteStrip : Char := '„'

/-- `S` of `S in word_break_chars` in make_text_region_text -/
def quoteTested : Char := '„'

/-- `S` of `end_word.endswith(S)` in make_text_region_text -/
def quoteEnd : Char := '„'

/-- `S` of `curr_line.text.startswith(S)` in make_text_region_text -/
def quoteStart : Char := '„'

/-- `S` of `line_text[-2] != S` in make_line_text -/
def detachBlank : List Char := [' ']

/-- the constant pieces of `f' {line_text[-1]} '` in make_line_text -/
def detachPadBefore : List Char := [' ']
def detachPadAfter : List Char := [' ']

/-- `S` of `line_text + S` in make_line_text (what follows a line that is not merged) -/
def linePad : List Char := [' ']

/-- `S` of `curr_line.text[-1] == S` in line_ends_with_word_break -/
def wordBreakHyphen : List Char := ['-']

/-- `N` = p/q of `pmi > N` in line_ends_with_word_break -/
def pmiThreshold : Nat × Nat := (1, 1)

/-- default `word_break_chars` of make_line_text -/
def defaultBreakMakeLineText : List Char := ['-']

/-- default `word_break_chars` of make_text_region_text -/
def defaultBreakMakeText : List Char := ['-']

/-- default `word_break_char` of merge_lines -/
def defaultMergeWordBreak : List Char := ['-']

/-- default `remove_word_break` of merge_lines -/
def defaultMergeRemove : Bool := false

end Pagexml.Generated.C16
