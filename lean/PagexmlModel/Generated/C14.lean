/-
GENERATED on every run by harness/translate.py from the current /repo working tree.
Do not edit: the property theorems are re-checked against what the code says NOW.
source: pagexml/helper/text_helper.py: default header list of make_line_format_file, default header lists of LineReader._iter_from_line_file, record keys of get_line_format_json, keys read by read_pagexml_docs_from_line_file; pagexml/helper/pagexml_helper.py: f-string written by write_pagexml_to_line_format
-/
namespace Pagexml.Generated.C14

/-- make_line_format_file: `headers = [...]` under `if headers is None:` -/
def writerDefaultHeaders : List (List Char) :=
  [['d','o','c','_','i','d'],   -- 'doc_id'
   ['t','e','x','t','r','e','g','i','o','n','_','i','d'],   -- 'textregion_id'
   ['l','i','n','e','_','i','d'],   -- 'line_id'
   ['t','e','x','t'],   -- 'text'
   ['d','o','c','_','b','o','x'],   -- 'doc_box'
   ['t','e','x','t','r','e','g','i','o','n','_','b','o','x'],   -- 'textregion_box'
   ['l','i','n','e','_','b','o','x']]   -- 'line_box'

/-- LineReader._iter_from_line_file: `self.line_file_headers = [...]` when no header line is read and no headers were supplied -/
def readerDefaultHeaders : List (List Char) :=
  [['d','o','c','_','i','d'],   -- 'doc_id'
   ['t','e','x','t','r','e','g','i','o','n','_','i','d'],   -- 'textregion_id'
   ['l','i','n','e','_','i','d'],   -- 'line_id'
   ['t','e','x','t']]   -- 'text'

/-- … `self.line_file_headers.extend([...])` under `if self.add_bounding_box is True:` -/
def readerBoxHeaders : List (List Char) :=
  [['d','o','c','_','b','o','x'],   -- 'doc_box'
   ['t','e','x','t','r','e','g','i','o','n','_','b','o','x'],   -- 'textregion_box'
   ['l','i','n','e','_','b','o','x']]   -- 'line_box'

/-- get_line_format_json: keys of the dict display `json_doc = {...}`, in order -/
def recordKeys : List (List Char) :=
  [['d','o','c','_','i','d'],   -- 'doc_id'
   ['t','e','x','t','r','e','g','i','o','n','_','i','d'],   -- 'textregion_id'
   ['l','i','n','e','_','i','d'],   -- 'line_id'
   ['t','e','x','t']]   -- 'text'

/-- … keys of `json_doc[key] = …` under `if add_bounding_box is True:`, in order -/
def recordBoxKeys : List (List Char) :=
  [['d','o','c','_','b','o','x'],   -- 'doc_box'
   ['t','e','x','t','r','e','g','i','o','n','_','b','o','x'],   -- 'textregion_box'
   ['l','i','n','e','_','b','o','x']]   -- 'line_box'

/-- read_pagexml_docs_from_line_file: keys of `line_dict[key]` read outside `if add_bounding_box is True:` (first occurrences, in source order) -/
def rebuildKeys : List (List Char) :=
  [['d','o','c','_','i','d'],   -- 'doc_id'
   ['t','e','x','t','r','e','g','i','o','n','_','i','d'],   -- 'textregion_id'
   ['l','i','n','e','_','i','d'],   -- 'line_id'
   ['t','e','x','t']]   -- 'text'

/-- … read inside `if add_bounding_box is True:` -/
def rebuildBoxKeys : List (List Char) :=
  [['d','o','c','_','b','o','x'],   -- 'doc_box'
   ['t','e','x','t','r','e','g','i','o','n','_','b','o','x'],   -- 'textregion_box'
   ['l','i','n','e','_','b','o','x']]   -- 'line_box'

/-- write_pagexml_to_line_format: literal text after the document id of f"{doc_id}…{line_id}…{line_text}…" -/
def legacySepAfterDocId : List Char := ['\t']

/-- … after the line id -/
def legacySepAfterLineId : List Char := ['\t']

/-- … after the text -/
def legacyLineEnd : List Char := ['\n']

end Pagexml.Generated.C14
