/-
GENERATED on every run by harness/translate.py from the current /repo working tree.
Do not edit: the property theorems are re-checked against what the code says NOW.
source: pagexml/analysis/text_stats.py: the arguments with which determine_word_break, merge_is_more_common and start_word_has_incorrect_titlecase call their predicates (literal passed, else the default of the callee), the thresholds and hyphen literals inside has_word_break_symbol, merge_is_more_common, end_start_are_hyphenated_compound, has_non_merge_word, the default break characters of determine_word_break; pagexml/helper/text_helper.py: the character set and the doubled hyphen of remove_hyphen, the two blanks of get_line_words, the default break characters of get_line_words, get_page_lines_words, remove_word_break_chars
-/
namespace Pagexml.Generated.C17

/-- `factor` reaching end_start_are_bigram from its 1st call in determine_word_break -/
def bigramFactorFirst : Nat := 5

/-- `factor` reaching end_start_are_bigram from its 2nd call in determine_word_break -/
def bigramFactorSecond : Nat := 2

/-- `factor` reaching start_word_has_incorrect_titlecase from determine_word_break -/
def titlecaseFactor : Nat := 10

/-- `common_freq` reaching end_is_common_word from determine_word_break -/
def commonFreq : Nat := 1000

/-- `factor` reaching is_non_mid_word(end_word) from merge_is_more_common -/
def mergeNonMidFactorEnd : Nat := 5

/-- `factor` reaching is_non_mid_word(start_word) from merge_is_more_common -/
def mergeNonMidFactorStart : Nat := 5

/-- `N` of `wbd.freq['all'][merge_word] > N` in merge_is_more_common -/
def mergeMoreCommonMin : Nat := 0

/-- `factor` reaching is_non_mid_word(start_word) from start_word_has_incorrect_titlecase -/
def titlecaseNonMidFactorStart : Nat := 5

/-- `factor` reaching is_non_mid_word(end_word) from start_word_has_incorrect_titlecase -/
def titlecaseNonMidFactorEnd : Nat := 5

/-- `S` of `end_word[-1] != S` in has_word_break_symbol -/
def breakSymbol : List Char := ['-']

/-- `N` of `wbd.freq['all'][merge_word] > N` in has_word_break_symbol -/
def breakSymbolMergeMin : Nat := 0

/-- `S` of `end_word[-1] == S` in end_start_are_hyphenated_compound -/
def compoundHyphen : List Char := ['-']

/-- `(N0, N1, N2)` of `freq['mid'][start_word] == N0 and freq['all'][merge_word] == N1 and freq['all'][end_word + start_word] == N2` in end_start_are_hyphenated_compound -/
def compoundStartUnseen : Nat × Nat × Nat := (0, 0, 0)

/-- `(N0, N1, N2)` of `freq['mid'][end_word] == N0 and freq['all'][merge_word] == N1 and freq['all'][end_word + start_word] == N2` in end_start_are_hyphenated_compound -/
def compoundEndUnseen : Nat × Nat × Nat := (0, 0, 0)

/-- `S` of `end_word == S` in has_non_merge_word -/
def nonMergeEndWord : List Char := ['-']

/-- `S` of `start_word == S` in has_non_merge_word -/
def nonMergeStartWord : List Char := ['-']

/-- the characters of `word[-1] in {…}` in remove_hyphen -/
def hyphenChars : List Char := ['-', '=', ':']

/-- `S` of `word[-2:] == S` in remove_hyphen -/
def doubleHyphen : List Char := ['-', '-']

/-- `S` of `line[-2] == S` in get_line_words (tied to the blank the model writes) -/
def normBlank : List Char := [' ']

/-- `S` of `term == S` in get_line_words (tied to the blank the model writes) -/
def skipTerm : List Char := [' ']

/-- default `word_break_chars` of get_line_words -/
def defaultBreakGetLineWords : List Char := ['-']

/-- default `word_break_chars` of get_page_lines_words -/
def defaultBreakPageLinesWords : List Char := ['-']

/-- default `word_break_chars` of remove_word_break_chars -/
def defaultBreakRemoveWordBreakChars : List Char := ['-', '=', ':']

/-- default `word_break_chars` of determine_word_break -/
def defaultBreakDetermine : List Char := ['-']

end Pagexml.Generated.C17
