/-
GENERATED on every run by harness/translate.py from the current /repo working tree.
Do not edit: the property theorems are re-checked against what the code says NOW.
source: pagexml/column_parser.py: defaults of split_lines_on_column_gaps, max(gap_threshold, N) in determine_freq_gap_interval, the recursive call and its guard in handle_extra_lines; pagexml/model/pagexml_document_model.py: threshold of is_horizontally_overlapping as called from column_parser / PageXMLTextRegion.__lt__
-/
namespace Pagexml.Generated.C18

/-- default `gap_threshold` of split_lines_on_column_gaps -/
def defaultGapThreshold : Int := 50

/-- default `min_column_width` of split_lines_on_column_gaps -/
def defaultMinColumnWidth : Int := 20

/-- default `overlap_threshold` (p, q) of split_lines_on_column_gaps, handed down to within_column -/
def withinThr : Int × Int := (1, 2)

/-- `N` of `next_pixel - curr_pixel < max(gap_threshold, N)` in determine_freq_gap_interval -/
def minGapPixels : Int := 2

/-- `min_column_width` passed by the recursive call in handle_extra_lines -/
def recMinColumnWidth : Int := 0

/-- `N` of the guard `if min_column_width > N:` around the recursive call -/
def recGuard : Int := 0

/-- threshold (p, q) with which column_parser and `__lt__` reach is_horizontally_overlapping -/
def colHOverlapThr : Int × Int := (1, 2)

end Pagexml.Generated.C18
