import PagexmlModel.Drv.Util
import PagexmlModel.Model.C13
open Lean

namespace Pagexml.Drv.C13
open Pagexml.C13

def decMember (j : Json) : Dec (Member Int) := do
  let name := (← strF j "name").toList
  match fieldOpt j "fault" with
  | some c => return { name := name, out := .fault (← asStr c) }
  | none => return { name := name, out := .good (← intF j "id") }

def jRun (r : Run Int) : Json :=
  jObj [("ok", jObj [("yielded", jList jInt r.1), ("exn", jOpt jStr r.2)])]

def clausesOf (route : String) : Dec (List Clause) :=
  match route with
  | "files" => .ok Pagexml.Generated.C13.filesExcept
  | "archive" => .ok Pagexml.Generated.C13.archiveExcept
  | r => .error s!"unknown route {r}"

def jAction : Action → Json
  | .continue_ => jStr "continue"
  | .raise_ => jStr "raise"
  | .unknown w => jStr ("unknown:" ++ w)

def utf8 (t : List Char) : List UInt8 := (String.ofList t).toUTF8.toList

def decBytes (j : Json) : Dec (List UInt8) := do
  (← asList asNat j).mapM fun n => if n < 256 then .ok (UInt8.ofNat n) else .error "byte out of range"

def handle (op : String) (args : Json) : Dec Json := do
  match op with
  | "batch" =>
    let ms ← asList decMember (← field args "members")
    return jRun (batch (← clausesOf (← strF args "route")) (← boolF args "ignore") ms)
  | "handle" =>
    return jObj [("ok", jAction (Pagexml.C13.handle (← clausesOf (← strF args "route")) (← boolF args "ignore")
      (nameLacks (← strF args "name").toList) (← strF args "cls")))]
  | "is_subclass" =>
    return jObj [("ok", jBool (isSubclass (← strF args "c") (← strF args "d")))]
  | "parse_file" =>
    -- disk: [[path, text | null (FileNotFoundError)]]; the parser parameter is the identity on the
    -- bytes it is handed, so the answer shows which bytes reach expat and which name is recorded
    let disk ← asList (asPair asStr (asOpt asStr)) (← field args "disk")
    let diskF : List Char → Except String (List Char) := fun p =>
      match disk.lookup (String.ofList p) with
      | some (some t) => .ok t.toList
      | _ => .error "FileNotFoundError"
    let data : Data ← match ← strF args "kind" with
      | "absent" => pure Data.absent
      | "text" => pure (Data.text (← strF args "v").toList)
      | "bytes" => pure (Data.bytes (← decBytes (← field args "v")))
      | k => .error s!"unknown data kind {k}"
    match parseFile diskF utf8 (fun b => .ok b) (← strF args "name").toList data with
    | .ok (b, n) => return jObj [("ok", jObj [("parsed_bytes", jList (fun x => jNat x.toNat) b),
                                               ("filename", jStr (String.ofList n))])]
    | .error e => return jObj [("err", jStr e)]
  | _ => .error s!"unknown op {op}"

end Pagexml.Drv.C13
