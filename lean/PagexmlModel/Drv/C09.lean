import PagexmlModel.Drv.Util
import PagexmlModel.Model.C09
import PagexmlModel.Model.C09Rows
open Lean

namespace Pagexml.Drv.C09
open Pagexml.C09
open Pagexml.C03 (Pt Coords)

def decPt (j : Json) : Dec Pt := asPair asInt asInt j
def decPts (j : Json) : Dec (List Pt) := asList decPt j
def jPt (p : Pt) : Json := jPair jInt jInt p
def jPts (l : List Pt) : Json := jList jPt l

def decErr (s : String) : Dec Err :=
  match s with
  | "QhullError" => .ok .QhullError
  | "IndexError" => .ok .IndexError
  | "ValueError" => .ok .ValueError
  | "TypeError" => .ok .TypeError
  | "KeyError" => .ok .KeyError
  | "AttributeError" => .ok .AttributeError
  | _ => .error s!"unknown error class {s}"

def decEdges (j : Json) : Dec Edges := asList (asPair decPt decPts) j
def jEdges (e : Edges) : Json := jList (jPair jPt jPts) e

/-- `{"ok": x}` / `{"err": "Class"}` -/
def decRes {α} (f : Json → Dec α) (j : Json) : Dec (Res α) :=
  match fieldOpt j "err" with
  | some e => do let s ← asStr e; return .error (← decErr s)
  | none => do let v ← field j "ok"; return .ok (← f v)

/-- the library's answers for this case: a finite table `points ↦ edge dict | error`;
    a point list the table does not hold answers KeyError (never produced by the real code here,
    so a miss shows up as a disagreement) -/
def decTable (j : Json) : Dec HullEdges := do
  let rows ← asList (fun r => do
    let pts ← decPts (← field r "points")
    let res ← decRes decEdges (← field r "edges")
    return (pts, res)) j
  return fun pts => match rows.lookup pts with
    | some r => r
    | none => .error .KeyError

def jCoords (c : Coords) : Json :=
  jObj [("points", jPts c.points), ("x", jInt c.x), ("y", jInt c.y), ("w", jInt c.w), ("h", jInt c.h)]

def jRes {α} (f : α → Json) (r : Res α) : Json := answer f r

def decOp (j : Json) : Dec Op := do
  match ← asArr j with
  | [.str "set", c] => return .setCoords (← asOpt decPts c)
  | [.str "add", s, c] => return .addChild (← asNat s) (← asOpt decPts c)
  | [.str "area"] => return .readArea
  | [.str "coords"] => return .readCoords
  | _ => .error s!"bad op {j}"

def jOut : Out → Json
  | .unit => jObj [("unit", Json.null)]
  | .area a => jObj [("area2", jInt a)]
  | .coords c => jObj [("coords", jOpt jPts c)]
  | .err e => jObj [("err", jStr e.name)]

def handle (op : String) (args : Json) : Dec Json := do
  match op with
  | "derive" =>
    let docs ← asList (asOpt decPts) (← field args "docs")
    let he ← decTable (← field args "table")
    let all := (docs.filterMap id).flatten
    let r := parseDerivedCoords he docs
    let planar : Bool := decide (2 < all.length) && (match collinearExtremes all with
      | .ok none => true
      | _ => false)
    let cert : Json := match r with
      | .ok c => if planar then jBool (HullCert all c.points) else Json.null
      | .error _ => Json.null
    let cyc : Json := match he all, r with
      | .ok e, .ok c => if planar then jBool (cycleDict e c.points) else Json.null
      | _, _ => Json.null
    let cert2 : Json := match r with
      | .ok c => if planar then (match hullPoints he c.points with
          | .ok ws => jBool (HullCert c.points ws)
          | .error _ => jBool false) else Json.null
      | .error _ => Json.null
    let areaAll := polyArea2 he all
    let areaHull : Res Int := match r with
      | .ok c => docArea2 he (some c.points)
      | .error e => .error e
    return jObj [("ok", jObj [("coords", jRes jCoords r), ("cert", cert), ("cert2", cert2), ("cycle", cyc), ("planar", jBool planar),
                              ("area2_all", jRes jInt areaAll), ("area2_hull", jRes jInt areaHull)])]
  | "region" =>
    let own ← asOpt decPts (← field args "own")
    let regions ← asList (asOpt decPts) (← field args "regions")
    let lines ← asList (asOpt decPts) (← field args "lines")
    let he ← decTable (← field args "table")
    return answer (jOpt jPts) (deriveRegion he own regions lines)
  | "extremes" =>
    let pts ← decPts (← field args "points")
    return answer (jOpt jPts) (collinearExtremes pts)
  | "edges" =>
    let ss ← asList (asPair decPt decPt) (← field args "simplices")
    return jObj [("ok", jEdges (edgesOfSimplices ss))]
  | "walk" =>
    let e ← decEdges (← field args "edges")
    return answer jPts (edgesToHullPoints e.length e)
  | "area" =>
    let c ← asOpt decPts (← field args "points")
    let he ← decTable (← field args "table")
    return answer jInt (docArea2 he c)
  | "cert" =>
    let pts ← decPts (← field args "pts")
    let vs ← decPts (← field args "vs")
    return jObj [("ok", jObj [("cert", jBool (HullCert pts vs)), ("area2", jInt (area2 vs))])]
  | "history" =>
    let nslots ← natF args "nslots"
    let init ← asOpt decPts (← field args "init")
    let kids ← asList (asPair asNat (asOpt decPts)) (← field args "kids")
    let ops ← asList decOp (← field args "ops")
    let he ← decTable (← field args "table")
    let r := run he nslots { coords := init, cache := none, kids := kids } ops
    return jObj [("ok", jObj [("outs", jList jOut r.2), ("coords", jOpt jPts r.1.coords)])]
  | "rows" =>
    -- make_rows_from_cells: cells as {row, row_span, cell_span, header, pts}
    let cells ← asList (fun c => do
      return ({ row := ← asOpt asInt (← field c "row"), rowSpan := ← asOpt asInt (← field c "row_span"),
                cellSpan := ← asOpt asInt (← field c "cell_span"), header := ← asOpt asStr (← field c "header"),
                coords := ← asOpt decPts (← field c "pts") } : CellG)) (← field args "cells")
    let he ← decTable (← field args "table")
    return answer (jList (fun (r : RowG) => jObj [("row", jOpt jInt r.id), ("docs", jList (jOpt jPts) (r.cells.map (·.coords))),
                                                  ("coords", jCoords r.coords)])) (rowsFromCells he cells)
  | _ => .error s!"unknown op {op}"

end Pagexml.Drv.C09
