import PagexmlModel.Drv.Util
import PagexmlModel.Model.C03
open Lean

namespace Pagexml.Drv.C03
open Pagexml.C03

def decScalar (j : Json) : Dec Scalar :=
  match j with
  | .null => .ok .nonint
  | _ => Scalar.int <$> asInt j

def decPtIn (j : Json) : Dec PtIn :=
  match j with
  | .null => .ok .notSeq
  | _ => PtIn.seq <$> asList decScalar j

def jPt (p : Pt) : Json := jPair jInt jInt p

def jCoords (c : Coords) : Json :=
  jObj [("points", jList jPt c.points), ("x", jInt c.x), ("y", jInt c.y), ("w", jInt c.w), ("h", jInt c.h),
        ("left", jInt c.left), ("right", jInt c.right), ("top", jInt c.top), ("bottom", jInt c.bottom),
        ("width", jInt c.width), ("height", jInt c.height),
        ("point_string", jStr (String.ofList (pointString c.points)))]

def handle (op : String) (args : Json) : Dec Json := do
  match op with
  | "coords_list" =>
    let ps ← asList decPtIn (← field args "points")
    return answer jCoords (coordsOfList ps)
  | "coords_str" =>
    let s ← strF args "s"
    return answer jCoords (coordsOfStr s.toList)
  | _ => .error s!"unknown op {op}"

end Pagexml.Drv.C03
