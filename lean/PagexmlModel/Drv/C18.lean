import PagexmlModel.Drv.Util
import PagexmlModel.Model.C18
open Lean

namespace Pagexml.Drv.C18
open Pagexml.C18

def decBox (j : Json) : Dec Box := do
  match ← asList asInt j with
  | [l, t, r, b] => return ⟨l, t, r, b⟩
  | _ => .error s!"not a box: {j}"

def decLine (j : Json) : Dec Line := do
  return ⟨← strF j "id", ← decBox (← field j "box")⟩

def decId (j : Json) : Dec PyId :=
  match j with
  | .null => .ok .none
  | _ => PyId.lit <$> asStr j

partial def decRegion (j : Json) : Dec Region := do
  let ls ← asList decLine (← field j "lines")
  let subs ← match fieldOpt j "subs" with
    | some s => asList decRegion s
    | none => pure []
  return .mk ls subs

def decReg (args : Json) : Dec RegInfo := do
  let rid ← decId (← field args "rid")
  let parent ← match fieldOpt args "parent" with
    | none => pure none
    | some p => some <$> decId (← field p "id")
  return ⟨rid, parent⟩

def jBox (b : Box) : Json := jList jInt [b.l, b.t, b.width, b.height]

def jCol (c : Col) : Json :=
  jObj [("lines", jList (fun (l : Line) => jStr l.id) c.lines), ("box", jBox c.box),
        ("id", jStr (String.ofList c.id.render))]

def handle (op : String) (args : Json) : Dec Json := do
  match op with
  | "split" =>
    let g ← decReg args
    let r ← decRegion (← field args "region")
    -- `null` / absent: the argument is not passed to the real function, the regenerated default applies
    let optInt (k : String) : Dec (Option Int) :=
      match fieldOpt args k with
      | none => pure none
      | some .null => pure none
      | some j => some <$> asInt j
    let thr ← optInt "thr"
    let mcw ← optInt "mcw"
    return answer (jList jCol) (splitRegionDefaults thr mcw g r)
  | "gaps" =>
    let r ← decRegion (← field args "region")
    let thr ← intF args "thr"
    return answer (jList (jPair jInt jInt)) (.ok (gapIntervals thr (pixels r.getLines)))
  | "pixels" =>
    let r ← decRegion (← field args "region")
    return answer (jList jInt) (.ok (pixels r.getLines))
  | _ => .error s!"unknown op {op}"

end Pagexml.Drv.C18
