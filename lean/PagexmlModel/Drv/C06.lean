import PagexmlModel.Drv.Util
import PagexmlModel.Model.C06WF
import PagexmlModel.Model.C06JV
import PagexmlModel.Model.C06Ctor
open Lean

namespace Pagexml.Drv.C06
open Pagexml.C06

/-! wire format of a Python value:
    null | bool | integer | {"f": "<repr of float>"} | string | [..] | {"d": [[key, value], …]}
    (key: string or integer) | {"o": "<class>"} -/

def decKey (j : Json) : Dec Key :=
  match j with
  | .str s => .ok (.s s)
  | _ => Key.i <$> asInt j

partial def decPy (j : Json) : Dec PyVal :=
  match j with
  | .null => .ok .none
  | .bool b => .ok (.bool b)
  | .num _ => PyVal.int <$> asInt j
  | .str s => .ok (.str s)
  | .arr a => PyVal.list <$> a.toList.mapM decPy
  | .obj _ =>
    match j.getObjVal? "f", j.getObjVal? "d", j.getObjVal? "o" with
    | .ok (.str l), _, _ => .ok (.num l)
    | _, .ok (.arr kvs), _ => PyVal.dict <$> kvs.toList.mapM fun kv =>
        match kv with
        | .arr #[k, v] => do return (← decKey k, ← decPy v)
        | _ => .error s!"not a key/value pair: {kv}"
    | _, _, .ok (.str c) => .ok (.obj c)
    | _, _, _ => .error s!"not a wire value: {j}"

def jKey : Key → Json
  | .s k => jStr k
  | .i n => jInt n

partial def jPy : PyVal → Json
  | .none => Json.null
  | .bool b => jBool b
  | .int i => jInt i
  | .num l => jObj [("f", jStr l)]
  | .str s => jStr s
  | .list xs => Json.arr (xs.map jPy).toArray
  | .dict kvs => jObj [("d", Json.arr (kvs.map fun kv => Json.arr #[jKey kv.1, jPy kv.2]).toArray)]
  | .obj c => jObj [("o", jStr c)]

def decPts (j : Json) : Dec Pts := asList (asPair asInt asInt) j
def jPts (ps : Pts) : Json := jList (jPair jInt jInt) ps

def decMeta (j : Json) : Dec Meta := do
  match ← decPy j with
  | .dict kvs => return kvs
  | _ => .error "metadata is not a dict"

def decRO (j : Json) : Dec RO := asList (asPair asInt decPy) j
def jRO (ro : RO) : Json := jList (jPair jInt jPy) ro

def decHdr (j : Json) : Dec Hdr := do
  return { id := ← decPy (← field j "id"), types := ← asList asStr (← field j "types"),
           md := ← decMeta (← field j "md"), coords := ← asOpt decPts (← field j "coords") }
def jHdr (h : Hdr) : Json :=
  jObj [("id", jPy h.id), ("types", jList jStr h.types), ("md", jPy (.dict h.md)), ("coords", jOpt jPts h.coords)]

def pyF (j : Json) (k : String) : Dec PyVal := do decPy (← field j k)
def listF {α} (f : Json → Dec α) (j : Json) (k : String) : Dec (List α) := do asList f (← field j k)

def decWord (j : Json) : Dec Word := do
  return { h := ← decHdr (← field j "h"), text := ← asOpt asStr (← field j "text"), conf := ← pyF j "conf" }
def jWord (w : Word) : Json :=
  jObj [("cls", jStr "word"), ("h", jHdr w.h), ("text", jOpt jStr w.text), ("conf", jPy w.conf)]

def decLine (j : Json) : Dec Line := do
  return { h := ← decHdr (← field j "h"), baseline := ← asOpt decPts (← field j "baseline"),
           text := ← asOpt asStr (← field j "text"), conf := ← pyF j "conf", xheight := ← pyF j "xheight",
           ro := ← decRO (← field j "ro"), roa := ← pyF j "roa", words := ← listF decWord j "words" }
def jLine (l : Line) : Json :=
  jObj [("cls", jStr "line"), ("h", jHdr l.h), ("baseline", jOpt jPts l.baseline), ("text", jOpt jStr l.text),
        ("conf", jPy l.conf), ("xheight", jPy l.xheight), ("ro", jRO l.ro), ("roa", jPy l.roa),
        ("words", jList jWord l.words)]

def decCell (j : Json) : Dec Cell := do
  return { h := ← decHdr (← field j "h"), row := ← pyF j "row", col := ← asOpt asInt (← field j "col"),
           cellSpan := ← pyF j "cell_span", rowSpan := ← pyF j "row_span", header := ← pyF j "header",
           cornerpoints := ← pyF j "cornerpoints", orientation := ← pyF j "orientation",
           lines := ← listF decLine j "lines" }
def jCell (c : Cell) : Json :=
  jObj [("cls", jStr "table_cell"), ("h", jHdr c.h), ("row", jPy c.row), ("col", jOpt jInt c.col),
        ("cell_span", jPy c.cellSpan), ("row_span", jPy c.rowSpan), ("header", jPy c.header),
        ("cornerpoints", jPy c.cornerpoints), ("orientation", jPy c.orientation), ("lines", jList jLine c.lines)]

def decRow (j : Json) : Dec Row := do
  return { h := ← decHdr (← field j "h"), numCols := ← natF j "num_cols", orientation := ← pyF j "orientation",
           cells := ← listF decCell j "cells" }
def jRow (r : Row) : Json :=
  jObj [("cls", jStr "table_row"), ("h", jHdr r.h), ("num_cols", jNat r.numCols), ("orientation", jPy r.orientation),
        ("cells", jList jCell r.cells)]

def decTable (j : Json) : Dec Table := do
  return { h := ← decHdr (← field j "h"), orientation := ← pyF j "orientation", rows := ← listF decRow j "rows" }
def jTable (t : Table) : Json :=
  jObj [("cls", jStr "table_region"), ("h", jHdr t.h), ("orientation", jPy t.orientation), ("rows", jList jRow t.rows)]

partial def decRegion (j : Json) : Dec Region := do
  return { h := ← decHdr (← field j "h"), text := ← asOpt asStr (← field j "text"),
           orientation := ← pyF j "orientation", ro := ← decRO (← field j "ro"), roa := ← pyF j "roa",
           lines := ← listF decLine j "lines", regions := ← listF decRegion j "regions",
           tables := ← listF decTable j "tables" }
partial def jRegion (r : Region) : Json :=
  jObj [("cls", jStr "text_region"), ("h", jHdr r.h), ("text", jOpt jStr r.text), ("orientation", jPy r.orientation),
        ("ro", jRO r.ro), ("roa", jPy r.roa), ("lines", jList jLine r.lines),
        ("regions", Json.arr (r.regions.map jRegion).toArray), ("tables", jList jTable r.tables)]

def decColumn (j : Json) : Dec Column := do
  return { h := ← decHdr (← field j "h"), orientation := ← pyF j "orientation", ro := ← decRO (← field j "ro"),
           roa := ← pyF j "roa", lines := ← listF decLine j "lines", regions := ← listF decRegion j "regions",
           tables := ← listF decTable j "tables" }
def jColumn (c : Column) : Json :=
  jObj [("cls", jStr "column"), ("h", jHdr c.h), ("orientation", jPy c.orientation), ("ro", jRO c.ro),
        ("roa", jPy c.roa), ("lines", jList jLine c.lines), ("regions", jList jRegion c.regions),
        ("tables", jList jTable c.tables)]

def decPage (j : Json) : Dec Page := do
  return { h := ← decHdr (← field j "h"), orientation := ← pyF j "orientation", ro := ← decRO (← field j "ro"),
           roa := ← pyF j "roa", columns := ← listF decColumn j "columns", regions := ← listF decRegion j "regions",
           tables := ← listF decTable j "tables", extra := ← listF decRegion j "extra" }
def jPage (p : Page) : Json :=
  jObj [("cls", jStr "page"), ("h", jHdr p.h), ("orientation", jPy p.orientation), ("ro", jRO p.ro),
        ("roa", jPy p.roa), ("columns", jList jColumn p.columns), ("regions", jList jRegion p.regions),
        ("tables", jList jTable p.tables), ("extra", jList jRegion p.extra)]

def decScan (j : Json) : Dec Scan := do
  return { h := ← decHdr (← field j "h"), orientation := ← pyF j "orientation", ro := ← decRO (← field j "ro"),
           roa := ← pyF j "roa", pages := ← listF decPage j "pages", columns := ← listF decColumn j "columns",
           regions := ← listF decRegion j "regions", tables := ← listF decTable j "tables",
           lines := ← listF decLine j "lines" }
def jScan (s : Scan) : Json :=
  jObj [("cls", jStr "scan"), ("h", jHdr s.h), ("orientation", jPy s.orientation), ("ro", jRO s.ro),
        ("roa", jPy s.roa), ("pages", jList jPage s.pages), ("columns", jList jColumn s.columns),
        ("regions", jList jRegion s.regions), ("tables", jList jTable s.tables), ("lines", jList jLine s.lines)]

def decDoc (j : Json) : Dec Doc := do
  match ← strF j "cls" with
  | "word" => Doc.word <$> decWord j
  | "line" => Doc.line <$> decLine j
  | "text_region" => Doc.region <$> decRegion j
  | "column" => Doc.column <$> decColumn j
  | "page" => Doc.page <$> decPage j
  | "scan" => Doc.scan <$> decScan j
  | c => .error s!"unknown class {c}"

def jDoc : Doc → Json
  | .word w => jWord w
  | .line l => jLine l
  | .region r => jRegion r
  | .column c => jColumn c
  | .page p => jPage p
  | .scan s => jScan s

partial def pySize : PyVal → Nat
  | .list xs => 1 + (xs.map pySize).foldl (· + ·) 0
  | .dict kvs => 1 + (kvs.map (fun kv => pySize kv.2)).foldl (· + ·) 0
  | _ => 1

def handle (op : String) (args : Json) : Dec Json := do
  match op with
  | "to_json" =>
    -- the JSON view: dictionary form (int keys) and string-route form (str keys)
    let d ← decDoc (← field args "doc")
    return jObj [("ok", jObj [("dict", jPy (d.toJson Key.i)), ("str", jPy (d.toJson strKey)),
                              ("norm", jPy (d.toJson Key.i).norm),
                              ("encodable", jBool (d.toJson Key.i).encodable),
                              ("wf", jBool d.ok), ("jv", jBool d.jv),
                              ("gc", jBool (d.toJson Key.i).guardsCanon), ("depth", jNat d.depth)])]
  | "from_json" =>
    let j ← decPy (← field args "json")
    -- the fuel is the size of the input: more than its nesting depth
    -- `wf`: the rebuilt document is well-formed again (so a second trip is covered by the theorem)
    return match fromJson (pySize j) j with
      | .ok (some d) => jObj [("ok", jDoc d), ("wf", jBool d.ok), ("jv", jBool d.jv),
                              ("in_gc", jBool j.guardsCanon), ("in_stable", jBool j.stable)]
      | .ok none => jObj [("ok", Json.null)]
      | .error e => jObj [("err", jStr e.name)]
  | _ => .error s!"unknown op {op}"

end Pagexml.Drv.C06
