/-
JSON helpers for the line-protocol driver. Only driver modules import this file
(and `Lean.Data.Json`); model files stay import-free.
-/
import Lean.Data.Json
import PagexmlModel.Basic.Err
open Lean

namespace Pagexml.Drv

/-- an undecodable request: infrastructure error, never a model answer -/
abbrev Dec := Except String

def field (j : Json) (k : String) : Dec Json :=
  match j.getObjVal? k with
  | .ok v => .ok v
  | .error _ => .error s!"missing field {k}"

def fieldOpt (j : Json) (k : String) : Option Json :=
  match j.getObjVal? k with
  | .ok .null => none
  | .ok v => some v
  | .error _ => none

/-- integers travel as JSON numbers or as decimal strings (when they may exceed 2^53) -/
def asInt (j : Json) : Dec Int :=
  match j with
  | .num n => if n.exponent = 0 then .ok n.mantissa else .error s!"not an integer: {j}"
  | .str s => match s.toInt? with
    | some i => .ok i
    | none => .error s!"not an integer string: {s}"
  | _ => .error s!"not an integer: {j}"

def asNat (j : Json) : Dec Nat := do
  let i ← asInt j
  if i < 0 then .error s!"negative: {i}" else .ok i.toNat

def asStr (j : Json) : Dec String :=
  match j with
  | .str s => .ok s
  | _ => .error s!"not a string: {j}"

def asBool (j : Json) : Dec Bool :=
  match j with
  | .bool b => .ok b
  | _ => .error s!"not a bool: {j}"

def asArr (j : Json) : Dec (List Json) :=
  match j with
  | .arr a => .ok a.toList
  | _ => .error s!"not an array: {j}"

def asList {α} (f : Json → Dec α) (j : Json) : Dec (List α) := do
  let a ← asArr j
  a.mapM f

def asPair {α β} (f : Json → Dec α) (g : Json → Dec β) (j : Json) : Dec (α × β) := do
  match ← asArr j with
  | [a, b] => return (← f a, ← g b)
  | _ => .error s!"not a pair: {j}"

def asOpt {α} (f : Json → Dec α) (j : Json) : Dec (Option α) :=
  match j with
  | .null => .ok none
  | _ => some <$> f j

def intF (j : Json) (k : String) : Dec Int := do asInt (← field j k)
def natF (j : Json) (k : String) : Dec Nat := do asNat (← field j k)
def strF (j : Json) (k : String) : Dec String := do asStr (← field j k)
def boolF (j : Json) (k : String) : Dec Bool := do asBool (← field j k)

def jInt (i : Int) : Json := Json.num ⟨i, 0⟩
def jNat (n : Nat) : Json := Json.num ⟨n, 0⟩
def jStr (s : String) : Json := Json.str s
def jBool (b : Bool) : Json := Json.bool b
def jList {α} (f : α → Json) (l : List α) : Json := Json.arr (l.map f).toArray
def jPair {α β} (f : α → Json) (g : β → Json) (p : α × β) : Json := Json.arr #[f p.1, g p.2]
def jOpt {α} (f : α → Json) : Option α → Json
  | none => Json.null
  | some a => f a
def jObj (kvs : List (String × Json)) : Json := Json.mkObj kvs

/-- the answer payload for a model result -/
def answer {α} (f : α → Json) : Res α → Json
  | .ok a => jObj [("ok", f a)]
  | .error e => jObj [("err", jStr e.name)]

end Pagexml.Drv
