import PagexmlModel.Drv.Util
import PagexmlModel.Drv.C03
import PagexmlModel.Drv.C10
open Lean

namespace Pagexml.Drv

/-- dispatch on the property id; one handler module per property -/
def dispatch (p op : String) (args : Json) : Dec Json :=
  match p with
  | "C03" => C03.handle op args
  | "C10" => C10.handle op args
  | _ => .error s!"unknown property {p}"

end Pagexml.Drv
