import PagexmlModel.Drv.Util
import PagexmlModel.Drv.C03
import PagexmlModel.Drv.C06
import PagexmlModel.Drv.C07
import PagexmlModel.Drv.C01
import PagexmlModel.Drv.C05
import PagexmlModel.Drv.C08
import PagexmlModel.Drv.C09
import PagexmlModel.Drv.C19
import PagexmlModel.Drv.C02
import PagexmlModel.Drv.C04
import PagexmlModel.Drv.C10
import PagexmlModel.Drv.C11
import PagexmlModel.Drv.C20
import PagexmlModel.Drv.C18
import PagexmlModel.Drv.C17
import PagexmlModel.Drv.C16
import PagexmlModel.Drv.C15
import PagexmlModel.Drv.C14
import PagexmlModel.Drv.C13
import PagexmlModel.Drv.C12
open Lean

namespace Pagexml.Drv

/-- dispatch on the property id; one handler module per property -/
def dispatch (p op : String) (args : Json) : Dec Json :=
  match p with
  | "C03" => C03.handle op args
  | "C06" => C06.handle op args
  | "C07" => C07.handle op args
  | "C01" => C01.handle op args
  | "C05" => C05.handle op args
  | "C08" => C08.handle op args
  | "C09" => C09.handle op args
  | "C19" => C19.handle op args
  | "C02" => C02.handle op args
  | "C04" => C04.handle op args
  | "C10" => C10.handle op args
  | "C11" => C11.handle op args
  | "C12" => C12.handle op args
  | "C13" => C13.handle op args
  | "C14" => C14.handle op args
  | "C15" => C15.handle op args
  | "C16" => C16.handle op args
  | "C17" => C17.handle op args
  | "C18" => C18.handle op args
  | "C20" => C20.handle op args
  | _ => .error s!"unknown property {p}"

end Pagexml.Drv
