import PagexmlModel.Drv.Util
import PagexmlModel.Model.C20
open Lean

namespace Pagexml.Drv.C20
open Pagexml.C20

/-- a line text as the driver sees it: emptiness, tokens, tokens of the lower-cased text
    (all three computed by the running CPython; the model is parametric in them) -/
structure DLine where
  empty : Bool
  toks : List String
  ltoks : List String

def dOps : LineOps DLine String :=
  { isEmpty := fun l => l.empty, lower := fun l => { l with toks := l.ltoks }, tok := fun l => l.toks }

def decLine (j : Json) : Dec (LineIn DLine) :=
  match j with
  | .null => .ok .none
  | .str "dict" => .ok .dictNoText
  | .str "type" => .ok .badType
  | _ => do
    let e ← boolF j "empty"
    let t ← asList asStr (← field j "toks")
    let lt ← asList asStr (← field j "ltoks")
    return .text { empty := e, toks := t, ltoks := lt }

def decCounter (j : Json) : Dec (Counter String) := asList (asPair asStr asNat) j

def decAnalyser (j : Json) : Dec (Analyser String) := do
  return { all := ← decCounter (← field j "all"), start := ← decCounter (← field j "start"),
           mid := ← decCounter (← field j "mid"), end_ := ← decCounter (← field j "end"),
           numLines := ← natF j "num_lines" }

def jCounter (c : Counter String) : Json := jList (jPair jStr jNat) c
def jFrac (f : Frac) : Json := jPair jNat jNat f

def jStats (s : Stats) : Json :=
  jObj [("total_all_tokens", jNat s.totalAll), ("total_mid_tokens", jNat s.totalMid),
        ("total_end_tokens", jNat s.totalEnd), ("total_start_tokens", jNat s.totalStart),
        ("total_lines", jNat s.totalLines)]

def jRow (r : StatRow String) : Json :=
  jObj [("token_type", jStr r.token), ("all_freq", jNat r.allFreq), ("all_frac", jFrac r.allFrac),
        ("start_freq", jNat r.startFreq), ("start_frac", jFrac r.startFrac), ("start_rel_frac", jFrac r.startRel),
        ("mid_freq", jNat r.midFreq), ("mid_frac", jFrac r.midFrac), ("mid_rel_frac", jFrac r.midRel),
        ("end_freq", jNat r.endFreq), ("end_frac", jFrac r.endFrac), ("end_rel_frac", jFrac r.endRel)]

def jAnalyser (p : Analyser String × Stats) : Json :=
  let a := p.1
  jObj [("all", jCounter a.all), ("start", jCounter a.start), ("mid", jCounter a.mid), ("end", jCounter a.end_),
        ("num_lines", jNat a.numLines), ("stats", jStats p.2),
        ("num_tokens", jObj [("all", jNat (ctotal a.all)), ("start", jNat (ctotal a.start)),
                             ("mid", jNat (ctotal a.mid)), ("end", jNat (ctotal a.end_))]),
        ("num_types", jObj [("all", jNat a.all.length), ("start", jNat a.start.length),
                            ("mid", jNat a.mid.length), ("end", jNat a.end_.length)]),
        ("rows", match getStats a with
                 | .ok rows => jList jRow rows
                 | .error e => jObj [("err", jStr e.name)])]

def construct (kind : String) (ic : Bool) (lines : List (LineIn DLine)) : Dec (Res (Analyser String × Stats)) :=
  match kind with
  | "word" => .ok (lineWordAnalyser dOps ic lines)
  | "char" => .ok (lineCharAnalyser dOps ic lines)
  | _ => .error s!"unknown analyser kind {kind}"

def jRes {α} (f : α → Json) (r : Res α) : Json := answer f r

def jTable (t : Table) : Json := Json.arr #[jInt t.a, jInt t.b, jInt t.c, jInt t.d]

def jKeyness (l : List (String × Table × Bool)) : Json :=
  jList (fun (p : String × Table × Bool) => Json.arr #[jStr p.1, jTable p.2.1, jBool p.2.2]) l

/-! word statistics and document statistics -/

structure DWord where
  len : Nat
  alpha : Bool
  digit : Bool
  title : Bool
  punct : Bool
  stop : Bool

def dCls : WordClass DWord :=
  { len := (·.len), isAlpha := (·.alpha), isDigit := (·.digit), isTitle := (·.title),
    isPunct := (·.punct), isStop := (·.stop) }

def decWord (j : Json) : Dec DWord := do
  return { len := ← natF j "len", alpha := ← boolF j "alpha", digit := ← boolF j "digit",
           title := ← boolF j "title", punct := ← boolF j "punct", stop := ← boolF j "stop" }

structure DText where
  empty : Bool
  doc : List DWord
  wpl : List DWord

def dTextOps : TextOps DText DWord :=
  { docTok := (·.doc), wplTok := (·.wpl), isEmptyText := (·.empty) }

def decText (j : Json) : Dec DText := do
  return { empty := ← boolF j "empty", doc := ← asList decWord (← field j "doc"),
           wpl := ← asList decWord (← field j "wpl") }

def decDocLine (j : Json) : Dec (DocLine DText) := do
  return { text := ← asOpt decText (← field j "text"), width := ← intF j "width" }

def decDoc (j : Json) : Dec (Doc DText) := do
  return { id := ← strF j "id", size := ← asOpt (asPair asInt asInt) (← field j "size"),
           elems := ← asList (asOpt asNat) (← field j "elems"),
           lines := ← asList decDocLine (← field j "lines") }

-- column names: `colName` / `rangeStr` of the model (the fixed ones are tied to `fields` of _init_doc_stats and
-- DEFAULT_ELEMENTS by `consts_init_fields`)

/-- an optional argument: `null` / absent = not passed to the real function, the regenerated default applies -/
def optArg {α} (f : Json → Dec α) (args : Json) (k : String) : Dec (Option α) :=
  match fieldOpt args k with
  | none => pure none
  | some .null => pure none
  | some j => some <$> f j

def jVal : Val → Json
  | .none => Json.null
  | .int i => jInt i
  | .str s => jStr s

def jDocTable (t : DocTable) : Json :=
  jList (fun (p : Col × List Val) => Json.arr #[jStr (colName p.1), jList jVal p.2]) t

/-- keys: the model's names of the word-category columns (tied to the source by `consts_word_cat_keys`) -/
def jWordCat (s : WordCatStats) : Json :=
  jObj ((wordCatCols.map colName).zip
          [jNat s.numWords, jNat s.numAlpha, jNat s.numNumber, jNat s.numTitle, jNat s.numNonTitle,
           jOpt jNat s.numStop, jNat s.numPunct, jNat s.numOversized] ++
        s.bins.map (fun b => (colName (Col.wordLen b.1), jNat b.2)))

def handle (op : String) (args : Json) : Dec Json := do
  match op with
  | "analyse" =>
    let kind ← strF args "kind"
    let ic ← boolF args "ic"
    let lines ← asList decLine (← field args "lines")
    return jRes jAnalyser (← construct kind ic lines)
  | "split" =>
    -- analyse every part; add the first two (`a + b`); merge all parts
    let kind ← strF args "kind"
    let ic ← boolF args "ic"
    let parts ← asList (asList decLine) (← field args "parts")
    let rs ← parts.mapM (construct kind ic)
    let oks := rs.filterMap (fun r => match r with | .ok p => some p.1 | .error _ => none)
    let allOk := oks.length == rs.length
    let addJ : Json := match oks with
      | a :: b :: _ => jRes jAnalyser (addAnalysers a b)
      | _ => Json.null
    let mergeJ : Json := if allOk then jRes jAnalyser (mergeAnalysers oks) else Json.null
    return jObj [("ok", jObj [("parts", jList (jRes jAnalyser) rs), ("add", addJ), ("merge", mergeJ)])]
  | "add" =>
    let a ← decAnalyser (← field args "a")
    let b ← decAnalyser (← field args "b")
    return jRes jAnalyser (addAnalysers a b)
  | "merge" =>
    let as ← asList decAnalyser (← field args "as")
    return jRes jAnalyser (mergeAnalysers as)
  | "keyness" =>
    let t ← decCounter (← field args "target")
    let r ← decCounter (← field args "ref")
    let v ← match fieldOpt args "vocab" with
      | some j => some <$> asList asStr j
      | none => pure none
    return jObj [("ok", jKeyness (computeKeyness t r v))]
  | "complement" =>
    -- analyse the corpus, then `compute_complement_keyness(analyser, counter)`
    let kind ← strF args "kind"
    let ic ← boolF args "ic"
    let lines ← asList decLine (← field args "lines")
    let which ← strF args "counter"
    match ← construct kind ic lines with
    | .error e => return jObj [("err", jStr e.name)]
    | .ok p =>
      let a := p.1
      let t ← match which with
        | "all" => pure a.all | "start" => pure a.start | "mid" => pure a.mid | "end" => pure a.end_
        | _ => .error s!"unknown counter {which}"
      return jObj [("ok", jObj [("analyser", jAnalyser p),
                                ("keyness", jKeyness (computeKeyness t (complementCounter a.all t) none))])]
  | "word_cat_stats" =>
    let ws ← asList decWord (← field args "words")
    let useStop ← boolF args "use_stop"
    let maxLen ← optArg asNat args "max_len"
    let size ← optArg asNat args "size"
    return jObj [("ok", jWordCat (wordCatStatsPy dCls useStop maxLen size ws))]
  | "line_width" =>
    let ws ← asList asInt (← field args "widths")
    let bps ← asList asInt (← field args "bps")
    return jObj [("ok", jObj [
      ("stats", jList (fun (p : WidthRange × Nat) => Json.arr #[jStr (rangeStr p.1), jNat p.2]) (lineWidthStats ws bps)),
      ("ranges", jList (fun r => jStr (rangeStr r)) (boundaryWidthRanges bps)),
      ("cats", jList (fun w => jStr (rangeStr (categoriseLineWidth w bps))) ws)])]
  | "doc_stats" =>
    let docs ← asList decDoc (← field args "docs")
    let bps ← optArg (asList asInt) args "bps"
    let useStop ← boolF args "use_stop"
    let maxLen ← optArg asNat args "max_len"
    let lbw ← optArg asInt args "line_bin_width"
    let mb ← optArg asInt args "max_bin"
    return answer jDocTable (getDocStatsPy dTextOps dCls bps useStop maxLen lbw mb docs)
  | _ => .error s!"unknown op {op}"

end Pagexml.Drv.C20
