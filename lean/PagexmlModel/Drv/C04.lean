import PagexmlModel.Drv.Util
import PagexmlModel.Drv.C02
import PagexmlModel.Model.C04
open Lean

namespace Pagexml.Drv.C04
open Pagexml.C02 Pagexml.C04

def decAcc (j : Json) : Dec Acc := do
  let a ← strF j "acc"
  let n ← natF j "n"
  match a with
  | "get_lines" => return .getLines n
  | "get_words" => return .getWords n
  | "get_inner_text_regions" => return .getInner n
  | "get_table_regions" => return .getTables n
  | "get_regions" => return .getRegions n
  | "stats" => return .stats n
  | "num_lines" => return .numLines n
  | "num_words" => return .numWords n
  | "num_text_regions" => return .numTextRegions n
  | "json" => return .json n
  | "to_pagexml" => return .toPagexml n
  | "area" => return .area n
  | _ => .error s!"unknown accessor {a}"

def jWord : WordItem → Json
  | .node n => jObj [("n", jNat n)]
  | .tok s => jObj [("t", jStr s)]

def jAOut : AOut → Json
  | .ids l => jObj [("ids", jList jNat l)]
  | .words l => jObj [("words", jList jWord l)]
  | .stats s => jObj [("stats", jList (jPair jStr jNat) s)]
  | .num n => jObj [("num", jNat n)]
  | .view l => jObj [("view", jList jNat l)]
  | .area t => jObj [("area", jOpt jNat t)]
  | .raised e => jObj [("raised", jStr e.name)]

def runAccs (ord : Nat → List Nat) (σ : Store) : List Acc → List Json → List Json
  | [], acc => acc.reverse
  | a :: as, acc =>
    match accStep ord σ a with
    | .ok (σ', o) => runAccs ord σ' as (jObj [("out", jAOut o), ("store", Pagexml.Drv.C02.jStore σ')] :: acc)
    | .error e => (jObj [("err", jStr e.name)] :: acc).reverse

def handle (op : String) (args : Json) : Dec Json := do
  match op with
  | "accs" =>
    let ops ← asList Pagexml.Drv.C02.decOp (← field args "build")
    let accs ← asList decAcc (← field args "accs")
    let ordL ← asList (asPair asNat (asList asNat)) (← field args "ord")
    let ord : Nat → List Nat := fun n => (ordL.lookup n).getD []
    match run Store.empty ops with
    | .ok σ => return jObj [("ok", Json.arr (runAccs ord σ accs []).toArray)]
    | .error e => return jObj [("err", jStr e.name)]
  | _ => .error s!"unknown op {op}"

end Pagexml.Drv.C04
