/-
Decoders / encoders shared by the C01, C05 and C08 driver modules:
XML trees, xmltodict values, typed source pages, parsed scans.
-/
import PagexmlModel.Drv.Util
import PagexmlModel.Model.Scan
open Lean

namespace Pagexml.Drv.Doc
open Pagexml.X Pagexml.C01 Pagexml.C05 Pagexml.C08 Pagexml.Scan
open Pagexml.C03 (Pt Coords)

/-! ### decoding -/

def decKV (j : Json) : Dec (String × String) := asPair asStr asStr j

partial def decXml (j : Json) : Dec Xml := do
  let t ← strF j "t"
  let a ← asList decKV (← field j "a")
  let x ← strF j "x"
  let c ← asList decXml (← field j "c")
  return .elem t a x c

def decPt (j : Json) : Dec Pt := asPair asInt asInt j
def decPts (j : Json) : Dec (List Pt) := asList decPt j

def optF {α} (f : Json → Dec α) (j : Json) (k : String) : Dec (Option α) :=
  match fieldOpt j k with
  | none => .ok none
  | some v => some <$> f v

def decTE (j : Json) : Dec SrcTE := do
  return { conf := ← optF asStr j "conf", plain := ← optF asStr j "plain", unicode := ← strF j "unicode" }

def decWord (j : Json) : Dec SrcWord := do
  return { id := ← optF asStr j "id", custom := ← optF asStr j "custom",
           coords := ← decPts (← field j "coords"), te := ← optF decTE j "te" }

def decLine (j : Json) : Dec SrcLine := do
  return { id := ← optF asStr j "id", custom := ← optF asStr j "custom",
           xheight := ← optF asInt j "xheight", coords := ← decPts (← field j "coords"),
           baseline := ← optF decPts j "baseline", te := ← optF decTE j "te",
           words := ← asList decWord (← field j "words") }

partial def decRegion (j : Json) : Dec SrcRegion := do
  return .mk (← optF asStr j "id") (← optF asStr j "orientation") (← optF asStr j "custom")
    (← optF decPts j "coords") (← optF decTE j "te") (← boolF j "lines_first")
    (← asList decLine (← field j "lines")) (← asList decRegion (← field j "subs"))

def decCell (j : Json) : Dec SrcCell := do
  return { id := ← strF j "id", row := ← natF j "row", col := ← natF j "col",
           rowSpan := ← optF asNat j "row_span", colSpan := ← optF asNat j "col_span",
           header := ← optF asStr j "header", orientation := ← optF asStr j "orientation",
           custom := ← optF asStr j "custom", coords := ← decPts (← field j "coords"),
           corner := ← optF asStr j "corner", lines := ← asList decLine (← field j "lines") }

def decTable (j : Json) : Dec SrcTable := do
  return { id := ← optF asStr j "id", orientation := ← optF asStr j "orientation",
           custom := ← optF asStr j "custom", coords := ← optF decPts j "coords",
           cells := ← asList decCell (← field j "cells") }

def decMeta (j : Json) : Dec SrcMeta := do
  return { creator := ← optF asStr j "creator", created := ← optF asStr j "created",
           lastChange := ← optF asStr j "last_change", comments := ← optF asStr j "comments" }

def decRO (j : Json) : Dec SrcRO := do
  match ← strF j "kind" with
  | "absent" => return .absent
  | "empty" => return .empty
  | "ordered" =>
    let refs ← asList (asPair asInt asStr) (← field j "refs")
    return .ordered (← strF j "id") (← optF asStr j "caption") refs
  | "unordered" =>
    let refs ← asList asStr (← field j "refs")
    return .unordered (← strF j "id") refs
  | k => .error s!"unknown reading order kind {k}"

def decPage (j : Json) : Dec SrcPage := do
  return { ns2019 := ← boolF j "ns2019", mdata := ← optF decMeta j "meta",
           imageFilename := ← optF asStr j "image_filename", width := ← natF j "width",
           height := ← natF j "height", roFirst := ← boolF j "ro_first", ro := ← decRO (← field j "ro"),
           regions := ← asList decRegion (← field j "regions"),
           tables := ← asList decTable (← field j "tables") }

/-- the hull table supplied by the harness: `[[input points, {"ok": points} | {"err": class}], …]`;
    a miss is reported as `OutOfFuel`, which the handlers turn into an undecodable request -/
def decHullEntry (j : Json) : Dec (List Pt × Res (List Pt)) := do
  match ← asArr j with
  | [i, o] =>
    let inp ← decPts i
    match fieldOpt o "ok" with
    | some ps => return (inp, .ok (← decPts ps))
    | none =>
      match ← strF o "err" with
      | "QhullError" => return (inp, .error .QhullError)
      | "IndexError" => return (inp, .error .IndexError)
      | "ValueError" => return (inp, .error .ValueError)
      | e => .error s!"unknown hull error {e}"
  | _ => .error "hull entry is not a pair"

def hullOfTable (tbl : List (List Pt × Res (List Pt))) (pts : List Pt) : Res (List Pt) :=
  match tbl.find? (fun e => e.1 = pts) with
  | some e => e.2
  | none => .error .OutOfFuel

def hullTOf (hull : List Pt → Res (List Pt)) (pts : List Pt) : List Pt :=
  match hull pts with
  | .ok r => r
  | .error _ => []

/-! ### encoding -/

partial def jPyVal : PyVal → Json
  | .none => Json.null
  | .str s => jStr s
  | .list xs => Json.arr (xs.map jPyVal).toArray
  | .dict kvs => jObj [("d", Json.arr (kvs.map (fun kv => Json.arr #[jStr kv.1, jPyVal kv.2])).toArray)]

def jPt (p : Pt) : Json := jPair jInt jInt p
def jCoords (c : Option Coords) : Json := jOpt (fun c => jList jPt c.points) c
def jTxt : Txt → Json
  | .none => Json.null
  | .str s => jStr s
  | .other => jObj [("other", jBool true)]

def jWord (w : Word) : Json :=
  jObj [("id", jOpt jStr w.id), ("text", jOpt jStr w.text), ("coords", jCoords w.coords), ("conf", jOpt jStr w.conf)]

def jLine (l : Line) : Json :=
  jObj [("id", jOpt jStr l.id), ("text", jTxt l.text), ("coords", jCoords l.coords),
        ("baseline", jCoords l.baseline), ("conf", jOpt jStr l.conf), ("xheight", jOpt jInt l.xheight),
        ("words", jList jWord l.words)]

partial def jRegion : Region → Json
  | .mk id o c t ls ss =>
    jObj [("id", jOpt jStr id), ("orientation", jOpt jStr o), ("coords", jCoords c), ("text", jTxt t),
          ("lines", jList jLine ls), ("regions", Json.arr (ss.map jRegion).toArray)]

def jCorner : Corner → Json
  | .pts a b c d => Json.arr #[jInt a, jInt b, jInt c, jInt d]
  | .raw s => jStr s

def jCell (c : Cell) : Json :=
  jObj [("id", jOpt jStr c.id), ("row", jOpt jInt c.row), ("col", jOpt jInt c.col),
        ("row_span", jOpt jInt c.rowSpan), ("cell_span", jOpt jInt c.cellSpan), ("header", jOpt jStr c.header),
        ("orientation", jOpt jStr c.orientation), ("coords", jCoords c.coords), ("corner", jOpt jCorner c.corner),
        ("lines", jList jLine c.lines), ("value", jStr c.value)]

def jRow (r : Row) : Json :=
  jObj [("id", jOpt jInt r.id), ("coords", jCoords (some r.coords)), ("cells", jList jCell r.cells),
        ("column_cells", jList (fun c => jOpt (fun (c : Cell) => jOpt jStr c.id) c) r.columnCells),
        ("row_idx", jOpt jInt r.rowIdx)]

def jRes {α} (f : α → Json) : Res α → Json
  | .ok a => f a
  | .error e => jObj [("err", jStr e.name)]

def jStats (s : TableStats) : Json :=
  jObj [("rows", jNat s.rows), ("cells", jNat s.cells), ("lines", jNat s.lines), ("words", jNat s.words)]

def jItem (c : Cell) : Json :=
  jObj [("id", jOpt jStr c.id), ("row", jOpt jInt c.row), ("col", jOpt jInt c.col), ("value", jStr c.value),
        ("lines", jList (fun (l : Line) => jOpt jStr l.id) c.lines)]

def jTable (t : Table) : Json :=
  let (r, c) := t.shape
  let items := (List.range r).map (fun i => (List.range c).map (fun j => jRes jItem (t.getItem i j)))
  jObj [("id", jOpt jStr t.id), ("orientation", jOpt jStr t.orientation), ("coords", jCoords t.coords),
        ("rows", jList jRow t.rows), ("shape", Json.arr #[jNat r, jNat c]),
        ("values", jList (jList jStr) t.values), ("stats", jRes jStats t.stats),
        ("items", Json.arr (items.map (fun row => Json.arr row.toArray)).toArray)]

def jMetaVal : MetaVal → Json
  | .str s => jStr s
  | .int i => jObj [("int", jInt i)]
  | .date r => jObj [("date", jStr r)]
  | .other => jObj [("other", jBool true)]

def jRO (ro : RO) : Json := jList (jPair jInt jStr) ro

def jScan (s : Scan) : Json :=
  jObj [("id", jStr s.id), ("coords", jCoords s.coords),
        ("metadata", jList (jPair jStr jMetaVal) s.mdata),
        ("regions", jList jRegion s.regions), ("tables", jList jTable s.tables),
        ("reading_order", jOpt jRO s.readingOrder),
        ("ro_attrs", jList (jPair jStr jStr) s.roAttrs),
        ("lines", jList (fun (l : Line) => jOpt jStr l.id) s.getLines),
        ("regions_in_ro", jList (fun (r : Region) => jOpt jStr r.id) s.regionsInReadingOrder)]

/-- a hull-table miss (`OutOfFuel`) is an undecodable request, not a model answer -/
def answerScan (r : Res Scan) : Dec Json :=
  match r with
  | .error .OutOfFuel => .error "hull table miss"
  | r => .ok (answer jScan r)

/-! ### operations -/

def handle (op : String) (args : Json) : Dec Json := do
  match op with
  | "is_space" =>
    let cps ← asList asNat (← field args "cps")
    return jObj [("ok", jList (fun n => jBool (isPySpace (Char.ofNat n))) cps)]
  | "is_float" =>
    let ss ← asList asStr (← field args "ss")
    return jObj [("ok", jList (fun s => jBool (isFloatLit s)) ss)]
  | "to_dict" =>
    let x ← decXml (← field args "xml")
    return jObj [("ok", jPyVal (toDictDoc x))]
  | "parse_xml" =>
    let x ← decXml (← field args "xml")
    let fname ← strF args "fname"
    let tbl ← asList decHullEntry (← field args "hulls")
    answerScan (parseScan (hullOfTable tbl) fname (toDictDoc x))
  | "parse_src" =>
    let p ← decPage (← field args "src")
    let fname ← strF args "fname"
    let tbl ← asList decHullEntry (← field args "hulls")
    let hull := hullOfTable tbl
    let parsed ← answerScan (parseScan hull fname (toDictDoc (renderDoc p)))
    return jObj [("parsed", parsed), ("mirror", jScan (mirrorScan (hullTOf hull) fname p)),
                 ("dict", jPyVal (toDictDoc (renderDoc p)))]
  | _ => .error s!"unknown op {op}"

end Pagexml.Drv.Doc
