import PagexmlModel.Drv.Util
import PagexmlModel.Model.C10
open Lean

namespace Pagexml.Drv.C10
open Pagexml.C10

def decBox (j : Json) : Dec Box := do
  match ← asList asInt j with
  | [l, t, r, b] => return ⟨l, t, r, b⟩
  | _ => .error s!"box needs 4 ints: {j}"

def decKind (s : String) : Dec Kind :=
  match s with
  | "region" => .ok .region
  | "line" => .ok .line
  | "word" => .ok .word
  | _ => .error s!"unknown kind {s}"

def decElem (j : Json) : Dec Elem := do
  let kind ← decKind (← strF j "kind")
  let coords ← asOpt decBox ((fieldOpt j "coords").getD Json.null)
  let baseline ← asOpt decBox ((fieldOpt j "baseline").getD Json.null)
  let scanId ← asOpt asStr ((fieldOpt j "scan_id").getD Json.null)
  let columnId ← asOpt asStr ((fieldOpt j "column_id").getD Json.null)
  return { kind, coords, baseline, scanId, columnId }

def jRatio (p : Int × Int) : Json := jPair jInt jInt p

def jRegionType : RegionType → Json
  | .point => jStr "POINT" | .hline => jStr "HLINE" | .vline => jStr "VLINE" | .box => jStr "BOX"

def evalPair (a b : Elem) (t : Thr) (margin px py : Int) : Json :=
  jObj [
    ("has_baseline", jList jBool [hasBaseline a, hasBaseline b]),
    ("has_baseline_pdm", jList jBool [hasBaselinePdm a, hasBaselinePdm b]),
    ("h_overlap", answer jInt (hOverlap a b)),
    ("v_overlap", answer jInt (vOverlap a b)),
    ("is_v_overlapping", answer jBool (isVOverlapping a b t)),
    ("is_h_overlapping", answer jBool (isHOverlapping a b t)),
    ("h_diff", answer jInt (hDiff a b)),
    ("v_diff", answer jInt (vDiff a b)),
    ("h_diff_ratio", answer jRatio (hDiffRatio a b)),
    ("v_diff_ratio", answer jRatio (vDiffRatio a b)),
    ("h_overlap_ratio", answer jRatio (hOverlapRatio a b)),
    ("v_overlap_ratio", answer jRatio (vOverlapRatio a b)),
    ("is_below", answer jBool (isBelow a b margin)),
    ("is_next_to", answer jBool (isNextTo a b margin)),
    ("h_distance", answer jInt (hDistance a b)),
    ("v_distance", answer jInt (vDistance a b)),
    ("in_same_column", answer jBool (inSameColumn a b)),
    ("is_point_inside", answer jBool (isPointInside px py a)),
    ("region_type", answer jRegionType (regionType a)),
    ("regions_overlap", jObj [("ok", jBool (regionsOverlap a b t))])
  ]

def handle (op : String) (args : Json) : Dec Json := do
  match op with
  | "pair" =>
    let a ← decElem (← field args "a")
    let b ← decElem (← field args "b")
    let (p, q) ← asPair asInt asInt (← field args "thr")
    let margin ← intF args "margin"
    let (px, py) ← asPair asInt asInt (← field args "pt")
    return jObj [("ok", evalPair a b ⟨p, q⟩ margin px py)]
  | _ => .error s!"unknown op {op}"

end Pagexml.Drv.C10
