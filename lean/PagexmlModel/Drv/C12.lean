import PagexmlModel.Drv.Util
import PagexmlModel.Model.C12
open Lean

namespace Pagexml.Drv.C12
open Pagexml.C12

def hexDigit (c : Char) : Dec Nat :=
  if '0' ≤ c ∧ c ≤ '9' then .ok (c.toNat - '0'.toNat)
  else if 'a' ≤ c ∧ c ≤ 'f' then .ok (c.toNat - 'a'.toNat + 10)
  else .error s!"not a hex digit: {c}"

def decHexL : List Char → Dec Bytes
  | [] => .ok []
  | [_] => .error "odd hex length"
  | a :: b :: rest => do
    let x ← hexDigit a
    let y ← hexDigit b
    let r ← decHexL rest
    return UInt8.ofNat (x * 16 + y) :: r

def decHex (j : Json) : Dec Bytes := do decHexL (← asStr j).toList

def hexOf (n : Nat) : Char := if n < 10 then Char.ofNat ('0'.toNat + n) else Char.ofNat ('a'.toNat + n - 10)
def encHex (b : Bytes) : String :=
  String.ofList (b.flatMap fun x => [hexOf (x.toNat / 16), hexOf (x.toNat % 16)])

def decKind (j : Json) : Dec Kind := do
  match ← asStr j with
  | "zip" => .ok .zip | "tar" => .ok .tar | "targz" => .ok .targz | "tarbz2" => .ok .tarbz2
  | "sevenz" => .ok .sevenz
  | s => .error s!"unknown container kind {s}"

partial def decMember (j : Json) : Dec Member := do
  let p := (← strF j "p").toList
  match ← strF j "t" with
  | "f" => return .file p (← decHex (← field j "d"))
  | "d" => return .dir p
  | "n" =>
    let ms ← (← asArr (← field j "m")).mapM decMember
    return .nested p (← decKind (← field j "k")) (← decHex (← field j "raw")) ms
  | t => .error s!"unknown member type {t}"

def jPath (p : Path) : Json := jStr (String.ofList p)

def jItem (it : Item) : Json :=
  jObj [("source_file", jList jPath it.1.sourceFile), ("archived_filename", jPath it.1.archivedFilename),
        ("archived_filepath", jPath it.1.archivedFilepath), ("data", jOpt (fun b => jStr (encHex b)) it.2)]

def jGen (g : Gen Item) : Json :=
  jObj [("ok", jObj [("items", jList jItem g.items), ("exn", jOpt jStr g.exn)])]

def jExc {α} (f : α → Json) : Except String α → Json
  | .ok a => jObj [("ok", f a)]
  | .error e => jObj [("err", jStr e)]

def handle (op : String) (args : Json) : Dec Json := do
  match op with
  | "paf" =>
    let r := parseArchivedFilename (← strF args "s").toList
    return jObj [("ok", Json.arr #[jPath r.dir, jPath r.file, jPath r.ext])]
  | "archiver_mode" =>
    return jExc (jPair jStr jStr) (archiverMode (← strF args "s").toList)
  | "is_zip_ext" =>
    return jObj [("ok", jBool (isZipExt (← strF args "s").toList))]
  | "read" =>
    let ms ← (← asArr (← field args "members")).mapM decMember
    let g := readPageArchiveFile (← boolF args "names_only") (← strF args "path").toList
      (← decKind (← field args "kind")) ms
    return jGen g
  | "glob" =>
    let ms ← (← asArr (← field args "members")).mapM decMember
    return jObj [("ok", jList jPath (globXml ms))]
  | _ => .error s!"unknown op {op}"

end Pagexml.Drv.C12
