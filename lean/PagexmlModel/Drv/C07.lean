import PagexmlModel.Drv.Util
import PagexmlModel.Drv.C06
import PagexmlModel.Drv.Doc
import PagexmlModel.Model.C07Parse
open Lean

namespace Pagexml.Drv.C07
open Pagexml.C06 Pagexml.C07

partial def jXml (x : Xml) : Json :=
  jObj [("tag", jStr x.tag), ("attrs", Json.arr (x.attrs.map fun kv => Json.arr #[jStr kv.1, jStr kv.2]).toArray),
        ("text", jOpt jStr x.text), ("children", Json.arr (x.children.map jXml).toArray)]

partial def jNode (n : Node) : Json :=
  jObj [("id", jOpt jStr n.id), ("points", jOpt jStr n.points), ("baseline", jOpt jStr n.baseline),
        ("text", jOpt jStr n.text), ("conf", jOpt jStr n.conf), ("custom", jOpt jStr n.custom),
        ("lines", Json.arr (n.lines.map jNode).toArray), ("regions", Json.arr (n.regions.map jNode).toArray),
        ("words", Json.arr (n.words.map jNode).toArray)]

def docNodes : Doc → List Node
  | .scan s => regionNodes s.regions
  | .region r => [regionNode r]
  | _ => []

def handle (op : String) (args : Json) : Dec Json := do
  match op with
  | "export" =>
    let d ← Pagexml.Drv.C06.decDoc (← field args "doc")
    match exportDoc d with
    | .error e => return jObj [("err", jStr e.name)]
    | .ok x =>
      let page := (pageOf x).getD ⟨"", [], none, []⟩
      let fname := (fieldOpt args "fname").bind (fun j => j.getStr?.toOption) |>.getD "reparsed.xml"
      -- the second half: the tree as the parser's XML reader sees it, xmltodict, the C01 parser
      let dict := X.toDictDoc (docX x)
      let parsed := Scan.parseScan (fun _ => .error .OutOfFuel) fname dict
      let sc := asScan d
      return jObj [("ok", jObj [("ns", jStr Gen.pageNamespace), ("tree", jXml x),
        ("dict", Doc.jPyVal dict),
        ("parsed", match parsed with
          | .error .OutOfFuel => jObj [("hull", jBool true)]
          | r => answer Doc.jScan r),
        ("rt", jBool (rtDoc d)),
        ("exp", jBool (match sc with | some s => expScan s | none => false)),
        ("pure_tree", match sc with | some s => jXml (scanTree s) | none => Json.null),
        ("content", match sc with | some s => Doc.jScan (contentScan fname s) | none => Json.null),
        -- what the parser reads back from the exported tree, and the same content read from the document
        ("read_regions", Json.arr ((readNodes "TextRegion" page.children).map jNode).toArray),
        ("doc_regions", Json.arr ((docNodes d).map jNode).toArray),
        ("read_order", Json.arr ((readingOrderAt page).map fun e => Json.arr #[jStr e.1, jStr e.2]).toArray)])]
  | "valid_child" =>
    let p ← strF args "parent"
    let c ← strF args "child"
    return jObj [("ok", jObj [("valid", match validChild p c with | .ok b => jBool b | .error e => jStr e.name),
                              ("singleton", match singleton p c with | .ok b => jBool b | .error e => jStr e.name)])]
  | _ => .error s!"unknown op {op}"

end Pagexml.Drv.C07
