import PagexmlModel.Drv.Util
import PagexmlModel.Model.C17
import Std.Data.HashMap
open Lean

namespace Pagexml.Drv.C17
open Pagexml.C17

/-- class bits as computed by the running CPython (harness/props/c17.py `class_bits`):
    1 `\w`, 2 isalpha, 4 isupper, 8 islower, 16 category Lt, 32 isdigit, 64 isspace -/
def decCharClass (j : Json) : Dec CharClass := do
  let kvs ← match j with
    | .obj o => pure (o.toList)
    | _ => .error s!"class table is not an object: {j}"
  let mut m : Std.HashMap Char Nat := {}
  for (k, v) in kvs do
    match k.toList with
    | [c] => m := m.insert c (← asNat v)
    | _ => throw s!"class table key is not one character: {k}"
  let bit (b : Nat) (c : Char) : Bool := ((m.getD c 0) / b) % 2 == 1
  return { isWord := bit 1, isAlpha := bit 2, isUpper := bit 4, isLower := bit 8,
           isTitle := bit 16, isDigit := bit 32, isSpace := bit 64 }

def decBreak (j : Json) : Dec BreakSet := do
  let s ← asStr j
  let cs := s.toList
  return fun c => cs.contains c

/-- `"B": null` = the real function was called without `word_break_chars`: the model uses the default
    regenerated from the source (Model/C17.lean `lineWordsD` …), the harness does not send a copy of it -/
def decBreakOpt (j : Json) : Dec (Option BreakSet) := asOpt decBreak j

def decStr (j : Json) : Dec Str := do return (← asStr j).toList
def decOptStr (j : Json) : Dec (Option Str) := asOpt decStr j
def decWords (j : Json) : Dec (List Str) := asList decStr j

def jS (s : Str) : Json := jStr (String.ofList s)
def jWords (ws : List Str) : Json := jList jS ws

def decCounter (j : Json) : Dec (Str → Nat) := do
  let kvs ← asList (asPair asStr asNat) j
  let m : Std.HashMap String Nat := kvs.foldl (fun m (k, v) => m.insert k v) {}
  return fun w => m.getD (String.ofList w) 0

def decSet (j : Json) : Dec (Str → Bool) := do
  let ks ← asList asStr j
  let m : Std.HashMap String Unit := ks.foldl (fun m k => m.insert k ()) {}
  return fun w => m.contains (String.ofList w)

def decBigram (j : Json) : Dec (Str → Str → Nat) := do
  let rows ← asList asArr j
  let mut m : Std.HashMap (String × String) Nat := {}
  for r in rows do
    match r with
    | [a, b, n] => m := m.insert (← asStr a, ← asStr b) (← asNat n)
    | _ => throw "bigram row is not a triple"
  return fun a b => m.getD (String.ofList a, String.ofList b) 0

def decDetector (j : Json) : Dec Detector := do
  return { freqAll := ← decCounter (← field j "all"), freqMid := ← decCounter (← field j "mid"),
           freqStart := ← decCounter (← field j "start"), freqEnd := ← decCounter (← field j "end"),
           bigram := ← decBigram (← field j "bigram"),
           typicalMergeEnds := ← decSet (← field j "tme"), typicalMergeStarts := ← decSet (← field j "tms"),
           typicalNonMergeEnds := ← decSet (← field j "tnme"), typicalNonMergeStarts := ← decSet (← field j "tnms"),
           commonNonMergeStarts := ← decSet (← field j "cnms"),
           breakChars := ← decBreak (← field j "B") }

def jDecision (d : Decision) : Json := jPair jBool (jOpt jS) d

/-- a batch answer: one `{ok}`/`{err}` object per item -/
def batch {α β} (f : β → Json) (g : α → Res β) (xs : List α) : Json :=
  jObj [("ok", jList (fun x => answer f (g x)) xs)]

def handle (op : String) (args : Json) : Dec Json := do
  match op with
  | "line_words" =>
    let cc ← decCharClass (← field args "cls")
    let B ← decBreakOpt (← field args "B")
    let ls ← asList decOptStr (← field args "lines")
    return batch jWords (lineWordsD cc B) ls
  | "re_split" =>
    let cc ← decCharClass (← field args "cls")
    let ls ← asList decStr (← field args "lines")
    return batch jWords (fun l => (.ok (reSplitB cc l) : Res _)) ls
  | "page_lines_words" =>
    let cc ← decCharClass (← field args "cls")
    let B ← decBreakOpt (← field args "B")
    let ls ← asList decOptStr (← field args "lines")
    return answer (jList jWords) (pageLinesWordsD cc B ls)
  | "split_line_words" =>
    let ws ← asList decWords (← field args "words")
    return batch (fun (a, b, c) => Json.arr #[jWords a, jWords b, jWords c]) splitLineWords ws
  | "remove_wbc" =>
    let B ← decBreakOpt (← field args "B")
    let ps ← asList (asPair decStr decStr) (← field args "pairs")
    return batch jS (fun (e, s) => removeWordBreakCharsD B e s) ps
  | "remove_hyphen" =>
    let ws ← decWords (← field args "words")
    return batch jS removeHyphen ws
  | "determine" =>
    let cc ← decCharClass (← field args "cls")
    let B ← decBreakOpt (← field args "B")
    let det ← asOpt decDetector (← field args "det")
    let ps ← asList (asPair decWords decWords) (← field args "pairs")
    return batch jDecision (fun (p, c) => determineD cc det B p c) ps
  | _ => .error s!"unknown op {op}"

end Pagexml.Drv.C17
