import PagexmlModel.Drv.Util
import PagexmlModel.Model.C11
import PagexmlModel.Model.C11Grammar
open Lean

namespace Pagexml.Drv.C11
open Pagexml.C11

/-- class bits sent by the harness for every distinct character: 1 = `\w`, 2 = `isspace()` -/
def decTable (j : Json) : Dec (List (Nat × Nat)) :=
  match j with
  | .obj kvs => kvs.toList.mapM (fun (kv : String × Json) => do
      match kv.1.toNat? with
      | some cp => return (cp, ← asNat kv.2)
      | none => .error s!"cc key is not a code point: {kv.1}")
  | _ => .error "cc is not an object"

def mkCC (tbl : List (Nat × Nat)) : CharClass :=
  { isWord := fun c => ((tbl.lookup c.toNat).getD 0) % 2 == 1,
    isSpace := fun c => ((tbl.lookup c.toNat).getD 0) / 2 % 2 == 1 }

/-- every character of every string the model classifies must be in the table: never default -/
def covered (tbl : List (Nat × Nat)) (ss : List (List Char)) : Dec Unit :=
  match (ss.flatten.find? (fun c => (tbl.lookup c.toNat).isNone)) with
  | some c => .error s!"no class bits for U+{c.toNat}"
  | none => .ok ()

def chars (j : Json) : Dec (List Char) := String.toList <$> asStr j

def jChars (cs : List Char) : Json := jStr (String.ofList cs)

def jVal : Val → Json
  | .str s => jChars s
  | .int i => jInt i

def decVal (j : Json) : Dec Val :=
  match j with
  | .str s => .ok (.str s.toList)
  | .num _ => Val.int <$> asInt j
  | _ => .error s!"not a value: {j}"

def jDict (d : Dict) : Json := jList (jPair jChars jVal) d

def jEntry (e : Entry) : Json := jObj [("tag_name", jChars e.name), ("attrs", jDict e.attrs)]

def decEntry (j : Json) : Dec Entry := do
  let n ← chars (← field j "tag_name")
  let a ← asList (asPair chars decVal) (← field j "attrs")
  return { name := n, attrs := a }

def jMetadata (types : List (List Char)) (m : Metadata) : Json :=
  jObj [("custom_attributes", jList jEntry m.customAttributes),
        ("reading_order", jOpt jDict m.readingOrder),
        ("structure", jOpt jDict m.structureEl),
        ("type", jOpt jVal m.typeVal),
        ("text_style", jOpt (jList jDict) m.textStyle),
        ("custom_tags", jOpt (jList jDict) m.customTags),
        ("types", jList jChars (typesAfter types (some m)))]

def jRow (r : TagRow) : Json :=
  jObj [("type", jVal r.typeVal), ("value", jChars r.value), ("region_id", jStr r.regionId),
        ("line_id", jStr r.lineId), ("offset", jInt r.offset), ("length", jInt r.length)]

def decLine (j : Json) : Dec LineIn := do
  let id ← strF j "id"
  let text ← asOpt chars (← field j "text")
  let custom ← asOpt chars (← field j "custom")
  return { id := id, text := text, custom := custom }

def decRegion (j : Json) : Dec RegionIn := do
  let id ← strF j "id"
  let ls ← asList decLine (← field j "lines")
  return { id := id, lines := ls }

def decLAttr (j : Json) : Dec LAttr := do
  return { pre := ← chars (← field j "pre"), key := ← chars (← field j "key"),
           postKey := ← chars (← field j "postKey"), preVal := ← chars (← field j "preVal"),
           value := ← chars (← field j "value"), postVal := ← chars (← field j "postVal") }

def decLTag (j : Json) : Dec LTag := do
  return { sep := ← chars (← field j "sep"), name := ← chars (← field j "name"),
           attrs := ← asList decLAttr (← field j "attrs"), trailing := ← boolF j "trailing",
           close := ← chars (← field j "close") }

def handle (op : String) (args : Json) : Dec Json := do
  match op with
  | "custom_parse" =>
    let tbl ← decTable (← field args "cc")
    let s ← chars (← field args "s")
    covered tbl [s]
    return answer (jList jEntry) (parseCustomAttributes (mkCC tbl) s)
  | "custom_make" =>
    let es ← asList decEntry (← field args "entries")
    return answer jChars (Except.ok (makeCustomString es) : Res (List Char))
  | "custom_metadata" =>
    let tbl ← decTable (← field args "cc")
    let s ← chars (← field args "s")
    let tags ← asList chars (← field args "custom_tags")
    let types ← asList chars (← field args "base_types")
    covered tbl [s]
    return answer (jMetadata types) (parseCustomMetadata (mkCC tbl) s tags)
  | "custom_tags_doc" =>
    let tbl ← decTable (← field args "cc")
    let tags ← asList chars (← field args "custom_tags")
    let regions ← asList decRegion (← field args "regions")
    covered tbl (regions.flatMap (fun r => r.lines.filterMap (fun l => l.custom)))
    return answer (jList jRow) (getCustomTags (mkCC tbl) tags regions)
  | "custom_render" =>
    let ts ← asList decLTag (← field args "laid")
    let tail ← chars (← field args "tail")
    return answer jChars (Except.ok (renderLaid ts tail) : Res (List Char))
  | "slice" =>
    let t ← chars (← field args "text")
    let a ← intF args "a"
    let b ← intF args "b"
    return answer jChars (Except.ok (pySlice t a b) : Res (List Char))
  | _ => .error s!"unknown op {op}"

end Pagexml.Drv.C11
