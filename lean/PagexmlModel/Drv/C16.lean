import PagexmlModel.Drv.Util
import PagexmlModel.Drv.C17
import PagexmlModel.Model.C16
open Lean

namespace Pagexml.Drv.C16
open Pagexml.C17 Pagexml.C16 Pagexml.Drv.C17

def decLine (j : Json) : Dec Line := do
  return { id := ← decStr (← field j "id"),
           parent := ← asOpt decStr ((j.getObjVal? "parent").toOption.getD Json.null),
           text := ← asOpt decStr ((j.getObjVal? "text").toOption.getD Json.null) }

def jRange (r : Range) : Json :=
  jObj [("start", jNat r.start), ("end", jNat r.stop), ("line_id", jS r.lineId), ("parent_id", jOpt jS r.parentId)]

/-- the detector's decisions passed as data: rows `[prev_words, curr_words, do_merge, merge_word]`;
    a pair that is not in the table is a `KeyError` (shows up as a disagreement) -/
def decDecisions (j : Json) : Dec Decide := do
  let rows ← asList asArr j
  let mut tab : List ((List Str × List Str) × Decision) := []
  for r in rows do
    match r with
    | [p, c, d, w] => tab := ((← decWords p, ← decWords c), (← asBool d, ← asOpt decStr w)) :: tab
    | _ => throw "decision row is not a 4-tuple"
  let t := tab
  return fun p c => match t.lookup (p, c) with
    | some d => .ok d
    | none => .error .KeyError

def errOfName (s : String) : Err :=
  match s with
  | "IndexError" => .IndexError | "QhullError" => .QhullError | "TypeError" => .TypeError
  | "ValueError" => .ValueError | "KeyError" => .KeyError | "AttributeError" => .AttributeError
  | _ => .OutOfFuel

def handle (op : String) (args : Json) : Dec Json := do
  match op with
  | "make_text" =>
    let cc ← decCharClass (← field args "cls")
    -- "B": null = make_text_region_text was called without word_break_chars: the regenerated default
    let B0 := makeTextBreak (← decBreakOpt (← field args "B"))
    let lines ← asList decLine (← field args "lines")
    let mode ← strF args "mode"
    let (B, decide) ← (match mode with
      | "decisions" => do
        let d ← decDecisions (← field args "decisions")
        pure (B0, d)
      | "model" => do
        let det ← asOpt decDetector (← field args "det")
        let B : BreakSet := match det with
          | some D => D.breakChars
          | none => B0
        pure (B, (determine cc det B0 : Decide))
      | _ => throw s!"unknown mode {mode}")
    return answer (fun (t, rs) => jObj [("text", jOpt jS t), ("ranges", jList jRange rs)])
      (makeText cc B decide lines)
  | "make_line_text" =>
    let B ← decBreakOpt (← field args "B")
    let rows ← asList asArr (← field args "rows")
    let rs ← rows.mapM (fun r => match r with
      | [t, d, e, m] => do
        let t ← decStr t; let d ← asBool d; let e ← decStr e; let m ← asOpt decStr m
        pure (answer jS (makeLineTextD B t d e m))
      | _ => throw "make_line_text row is not a 4-tuple")
    return jObj [("ok", Json.arr rs.toArray)]
  | "merge_lines" =>
    let cc ← decCharClass (← field args "cls")
    -- null = merge_lines was called without the argument: the regenerated default
    let remove ← asOpt asBool (← field args "remove")
    let wb ← asOpt decStr (← field args "wb")
    let texts ← asList decOptStr (← field args "texts")
    let hullJ ← field args "hull"
    let hull : List Json → Res Json := fun _ =>
      match hullJ.getObjVal? "ok" with
      | .ok v => .ok v
      | .error _ => .error (errOfName ((hullJ.getObjValAs? String "err").toOption.getD ""))
    return answer (fun (c, t) => jObj [("coords", c), ("text", jS t)])
      (mergeLinesD hull cc remove wb (texts.map (fun t => (Json.null, t))))
  | "line_ends_with_word_break" =>
    let cc ← decCharClass (← field args "cls")
    let wf ← asOpt (fun j => do
      let f ← decCounter (← field j "freq")
      let t ← natF j "total"
      pure ({ freq := f, total := t } : WordFreq)) (← field args "wf")
    let rows ← asList asArr (← field args "rows")
    let rs ← rows.mapM (fun r => match r with
      | [c, hasNext, n] => do
        let c ← decOptStr c
        let hn ← asBool hasNext
        let n ← decOptStr n
        pure (answer jBool (lineEndsWithWordBreak cc c (if hn then some n else none) wf))
      | _ => throw "row is not a triple")
    return jObj [("ok", Json.arr rs.toArray)]
  | _ => .error s!"unknown op {op}"

end Pagexml.Drv.C16
