import PagexmlModel.Drv.Util
import PagexmlModel.Model.C15
open Lean

namespace Pagexml.Drv.C15
open Pagexml.C15

def decPt (j : Json) : Dec Pt := asPair asInt asInt j

def decBox (j : Json) : Dec Box := do
  match ← asList asInt j with
  | [l, t, r, b] => return { left := l, top := t, right := r, bottom := b }
  | _ => .error s!"not a box: {j}"

def decBaseline (j : Json) : Dec Baseline := do
  match ← asList decPt j with
  | p :: ps => return { p0 := p, ps := ps }
  | [] => .error "empty baseline object (cannot be constructed in Python)"

def decLine (j : Json) : Dec Line := do
  let id ← natF j "id"
  let box ← decBox (← field j "box")
  let bl ← match fieldOpt j "bl" with
    | none => pure none
    | some b => some <$> decBaseline b
  let t ← boolF j "text"
  return { id := id, box := box, bl := bl, hasText := t }

def decReg (j : Json) : Dec Reg := do
  return { id := ← natF j "id", box := ← decBox (← field j "box") }

partial def decRegion (j : Json) : Dec Region := do
  let id ← natF j "id"
  let box ← decBox (← field j "box")
  let kids ← (← asArr (← field j "kids")).mapM decRegion
  let lines ← asList decLine (← field j "lines")
  return .mk id box kids lines

def decDir (j : Json) : Dec Dir := do
  match ← asStr j with
  | "ltr" => return .ltr
  | "rtl" => return .rtl
  | _ => return .other

/-- a `Res Bool` as a JSON value: true / false / "<ExceptionClass>" -/
def jResBool : Res Bool → Json
  | .ok b => jBool b
  | .error e => jStr e.name

def ids (ls : List Line) : Json := jList (fun l => jNat l.id) ls

def matrix {α} (f : α → α → Json) (xs : List α) : Json :=
  jList (fun a => jList (fun b => f a b) xs) xs

def handle (op : String) (args : Json) : Dec Json := do
  match op with
  | "baseline_below" =>
    let b1 ← asList decPt (← field args "b1")
    let b2 ← asList decPt (← field args "b2")
    return answer jBool (baselineIsBelow b1 b2)
  | "line_rel" =>
    let ls ← asList decLine (← field args "lines")
    return jObj [("ok", jObj [
      ("below", matrix (fun a b => jResBool (isBelow a b)) ls),
      ("next_to", matrix (fun a b => jResBool (isNextTo a b)) ls),
      ("lt", matrix (fun a b => jResBool (lineLt a b)) ls),
      ("h_overlap", matrix (fun a b => jInt (hOverlap a b)) ls),
      ("v_overlap", matrix (fun a b => jInt (vOverlap a b)) ls)])]
  | "group_lines" =>
    let ls ← asList decLine (← field args "lines")
    return answer (jList ids) (horizontalGroupLines ls)
  | "reading_direction" =>
    let ls ← asList decLine (← field args "lines")
    let dir ← decDir (← field args "dir")
    return answer ids (sortLinesInReadingDirection dir ls)
  | "sort_lines" =>
    let ls ← asList decLine (← field args "lines")
    return answer ids (isortByM lineLt [] ls)
  | "region_rel" =>
    let rs ← asList decReg (← field args "regions")
    return jObj [("ok", jObj [("lt", matrix (fun a b => jBool (regionLt a b)) rs)])]
  | "sort_regions" =>
    let rs ← asList decReg (← field args "regions")
    return jObj [("ok", jList (fun r => jNat r.id) (isortBy regionLt rs))]
  | "regions_ro" =>
    let doc ← decRegion (← field args "doc")
    return jObj [("ok", jList (fun r => jNat r.id) (leaves doc))]
  | "column_order" =>
    let doc ← decRegion (← field args "doc")
    let dir ← decDir (← field args "dir")
    return answer ids (columnReadingOrder dir doc)
  | "row_order" =>
    let doc ← decRegion (← field args "doc")
    let dir ← decDir (← field args "dir")
    return answer ids (rowReadingOrder dir doc)
  | "reading_order" =>
    let doc ← decRegion (← field args "doc")
    let dir ← decDir (← field args "dir")
    let row ← asBool (← field args "row")
    return answer ids (sortLinesInReadingOrder row dir doc)
  | _ => .error s!"unknown op {op}"

end Pagexml.Drv.C15
