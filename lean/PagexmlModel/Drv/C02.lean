import PagexmlModel.Drv.Util
import PagexmlModel.Model.C02
import PagexmlModel.Model.C02Hist
open Lean

namespace Pagexml.Drv.C02
open Pagexml.C02

def decMVal (j : Json) : Dec MVal :=
  match j with
  | .null => .ok .none
  | _ =>
    match fieldOpt j "s", fieldOpt j "o" with
    | some s, _ => MVal.str <$> asStr s
    | _, some o => MVal.other <$> asStr o
    | _, _ => .error s!"not a metadata value: {j}"

def jMVal : MVal → Json
  | .none => Json.null
  | .str s => jObj [("s", jStr s)]
  | .other s => jObj [("o", jStr s)]

def decArgs (j : Json) : Dec Args := do
  let id ← match fieldOpt j "id" with
    | some v => decMVal v
    | none => pure MVal.none
  let md ← match fieldOpt j "md" with
    | some v => asList (asPair asStr decMVal) v
    | none => pure []
  let dtype ← match fieldOpt j "dtype" with
    | some v => asList asStr v
    | none => pure []
  let coords ← match fieldOpt j "coords" with
    | some v => some <$> asNat v
    | none => pure none
  let text ← match fieldOpt j "text" with
    | some v => some <$> asStr v
    | none => pure none
  return { id := id, md := md, dtype := dtype, coords := coords, text := text }

def natsF (j : Json) (k : String) : Dec (List Nat) :=
  match fieldOpt j k with
  | some v => asList asNat v
  | none => pure []

def argsF (j : Json) : Dec Args :=
  match fieldOpt j "a" with
  | some v => decArgs v
  | none => pure {}

def decOp (j : Json) : Dec Op := do
  let op ← strF j "op"
  match op with
  | "mkWord" => return .mkWord (← argsF j)
  | "mkLine" => return .mkLine (← argsF j) (← natsF j "words")
  | "mkRegion" => return .mkRegion false (← argsF j) (← natsF j "lines") (← natsF j "regions") (← natsF j "tables")
  | "mkColumn" => return .mkRegion true (← argsF j) (← natsF j "lines") (← natsF j "regions") (← natsF j "tables")
  | "mkPage" => return .mkPage (← argsF j) (← natsF j "lines") (← natsF j "regions") (← natsF j "tables")
                  (← natsF j "columns") (← natsF j "extra")
  | "mkScan" => return .mkScan (← argsF j) (← natsF j "lines") (← natsF j "regions") (← natsF j "tables")
                  (← natsF j "columns") (← natsF j "pages")
  | "mkCell" => return .mkCell (← argsF j) (← natsF j "lines")
  | "mkRow" => return .mkRow (← argsF j) (← natsF j "cells")
  | "mkTable" => return .mkTable (← argsF j) (← natsF j "rows")
  | "addChild" =>
    let ex ← match fieldOpt j "as_extra" with
      | some v => asBool v
      | none => pure false
    return .addChild (← natF j "p") (← natF j "c") ex
  | "setParent" => return .setParent (← natF j "c") (← natF j "p")
  | "setAsParent" => return .setAsParent (← natF j "p") (← natsF j "cs")
  | "attachLines" => return .attachLines (← natF j "p") (← natsF j "cs")
  | "attachRegions" => return .attachRegions (← natF j "p") (← natsF j "cs")
  | "attachRows" => return .attachRows (← natF j "p") (← natsF j "cs")
  | "setParentage" => return .setParentage (← natF j "p")
  | "addType" => return .addType (← natF j "n") (← asList asStr (← field j "ts"))
  | "removeType" => return .removeType (← natF j "n") (← asList asStr (← field j "ts"))
  | "hasType" => return .hasType (← natF j "n") (← strF j "t")
  | "types" => return .types (← natF j "n")
  | "setFilename" => return .setFilename (← natF j "n") (← strF j "v")
  | _ => .error s!"unknown C02 operation {op}"

def jCls : Cls → Json
  | .word => jStr "word" | .line => jStr "line" | .region => jStr "region" | .column => jStr "column"
  | .page => jStr "page" | .scan => jStr "scan" | .cell => jStr "cell" | .row => jStr "row"
  | .table => jStr "table"

def jType : PyType → Json
  | .str s => jStr s
  | .list l => jList jStr l

def jNode (nd : Node) : Json :=
  jObj [("cls", jCls nd.cls), ("id", jMVal nd.id), ("type", jType nd.type), ("main_type", jStr nd.mainType),
        ("md", jList (jPair jStr jMVal) nd.md), ("parent", jOpt jNat nd.parent),
        ("text", jOpt jStr nd.text), ("has_coords", jBool nd.coords.isSome), ("area_cached", jBool nd.area.isSome),
        ("pages", jList jNat nd.pages), ("columns", jList jNat nd.columns), ("extra", jList jNat nd.extra),
        ("regions", jList jNat nd.regions), ("tables", jList jNat nd.tables), ("rows", jList jNat nd.rows),
        ("cells", jList jNat nd.cells), ("lines", jList jNat nd.lines), ("words", jList jNat nd.words)]

def jStore (σ : Store) : Json := jList jNode σ.nodes

def jOut : Out → Json
  | .unit => jObj [("unit", Json.null)]
  | .node n => jObj [("node", jNat n)]
  | .raised e => jObj [("raised", jStr e.name)]
  | .bool b => jObj [("bool", jBool b)]
  | .strs l => jObj [("strs", jList jStr l)]

/-- run a history; after every operation: its output and the dump of the whole store.
    An `.error` ends the history (`{"err": …}` is the last entry). -/
def runDump (σ : Store) : List Op → List Json → List Json × Store
  | [], acc => (acc.reverse, σ)
  | op :: ops, acc =>
    match step σ op with
    | .ok (σ', o) => runDump σ' ops (jObj [("out", jOut o), ("pre", jBool (Pre σ op)), ("store", jStore σ')] :: acc)
    | .error e => ((jObj [("err", jStr e.name)] :: acc).reverse, σ)

def decCls (s : String) : Dec Cls :=
  match s with
  | "word" => .ok .word | "line" => .ok .line | "region" => .ok .region | "column" => .ok .column
  | "page" => .ok .page | "scan" => .ok .scan | "cell" => .ok .cell | "row" => .ok .row | "table" => .ok .table
  | c => .error s!"unknown class {c}"

def boolF (j : Json) (k : String) : Dec Bool :=
  match fieldOpt j k with
  | some v => asBool v
  | none => pure false

def strsF (j : Json) (k : String) : Dec (List String) :=
  match fieldOpt j k with
  | some v => asList asStr v
  | none => pure []

/-- {"kind": …, "extra": bool, "a": args, "kids": [tree…]} -/
partial def decJTree (j : Json) : Dec JTree := do
  let kids ← match fieldOpt j "kids" with
    | some v => asList decJTree v
    | none => pure []
  return .node (← decCls (← strF j "kind")) (← boolF j "extra") (← argsF j) kids

/-- {"a": args, "add_type": [tag?], "lines_first": bool, "lines": [tree…], "regions": [region…]} -/
partial def decPRegion (j : Json) : Dec PRegion := do
  let lines ← match fieldOpt j "lines" with
    | some v => asList decJTree v
    | none => pure []
  let regions ← match fieldOpt j "regions" with
    | some v => asList decPRegion v
    | none => pure []
  return .mk (← argsF j) (← strsF j "add_type") (← boolF j "lines_first") lines regions

def decPTable (j : Json) : Dec PTable := do
  let rows ← match fieldOpt j "rows" with
    | some v => asList decJTree v
    | none => pure []
  return { a := ← argsF j, addT := ← strsF j "add_type", rows := rows }

def decPScan (j : Json) : Dec PScan := do
  let regions ← match fieldOpt j "regions" with
    | some v => asList decPRegion v
    | none => pure []
  let tables ← match fieldOpt j "tables" with
    | some v => asList decPTable v
    | none => pure []
  return { a := ← argsF j, regions := regions, tables := tables, file := ← strF j "file" }

def handle (op : String) (args : Json) : Dec Json := do
  match op with
  | "history" =>
    let ops ← asList decOp (← field args "ops")
    return jObj [("ok", Json.arr (runDump Store.empty ops []).1.toArray)]
  | "final" =>
    -- only the last store (long histories: parse / JSON rebuild)
    let ops ← asList decOp (← field args "ops")
    match run Store.empty ops, runPre Store.empty ops with
    | .ok σ, pre => return jObj [("ok", jStore σ), ("pre", jBool pre)]
    | .error e, _ => return jObj [("err", jStr e.name)]
  | "tree" =>
    -- the history DEFINED IN THE MODEL (Model/C02Hist.lean) for a document tree, run after `ops`:
    -- mode "parse" (PScan.hist), "json" (JTree.hist true), "bottom" (JTree.hist false)
    let ops ← asList decOp (← field args "ops")
    match run Store.empty ops with
    | .error e => return jObj [("err", jStr e.name)]
    | .ok σ₀ =>
      let mode ← strF args "mode"
      let (hist, root, valid) ← match mode with
        | "parse" => do
          let s ← decPScan (← field args "tree")
          pure ((s.hist σ₀.size).1, (s.hist σ₀.size).2, s.valid)
        | "json" => do
          let t ← decJTree (← field args "tree")
          pure ((t.hist true σ₀.size).1, (t.hist true σ₀.size).2, t.valid)
        | _ => do
          let t ← decJTree (← field args "tree")
          pure ((t.hist false σ₀.size).1, (t.hist false σ₀.size).2, t.valid)
      match run σ₀ hist, runPre σ₀ hist with
      | .ok σ, pre => return jObj [("ok", jStore σ), ("pre", jBool (pre && runPre Store.empty ops)),
                                   ("root", jNat root), ("valid", jBool valid), ("n_ops", jNat hist.length)]
      | .error e, _ => return jObj [("err", jStr e.name)]
  | _ => .error s!"unknown op {op}"

end Pagexml.Drv.C02
