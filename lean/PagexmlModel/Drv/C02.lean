import PagexmlModel.Drv.Util
import PagexmlModel.Model.C02
open Lean

namespace Pagexml.Drv.C02
open Pagexml.C02

def decMVal (j : Json) : Dec MVal :=
  match j with
  | .null => .ok .none
  | _ =>
    match fieldOpt j "s", fieldOpt j "o" with
    | some s, _ => MVal.str <$> asStr s
    | _, some o => MVal.other <$> asStr o
    | _, _ => .error s!"not a metadata value: {j}"

def jMVal : MVal → Json
  | .none => Json.null
  | .str s => jObj [("s", jStr s)]
  | .other s => jObj [("o", jStr s)]

def decArgs (j : Json) : Dec Args := do
  let id ← match fieldOpt j "id" with
    | some v => decMVal v
    | none => pure MVal.none
  let md ← match fieldOpt j "md" with
    | some v => asList (asPair asStr decMVal) v
    | none => pure []
  let dtype ← match fieldOpt j "dtype" with
    | some v => asList asStr v
    | none => pure []
  let coords ← match fieldOpt j "coords" with
    | some v => some <$> asNat v
    | none => pure none
  let text ← match fieldOpt j "text" with
    | some v => some <$> asStr v
    | none => pure none
  return { id := id, md := md, dtype := dtype, coords := coords, text := text }

def natsF (j : Json) (k : String) : Dec (List Nat) :=
  match fieldOpt j k with
  | some v => asList asNat v
  | none => pure []

def argsF (j : Json) : Dec Args :=
  match fieldOpt j "a" with
  | some v => decArgs v
  | none => pure {}

def decOp (j : Json) : Dec Op := do
  let op ← strF j "op"
  match op with
  | "mkWord" => return .mkWord (← argsF j)
  | "mkLine" => return .mkLine (← argsF j) (← natsF j "words")
  | "mkRegion" => return .mkRegion false (← argsF j) (← natsF j "lines") (← natsF j "regions") (← natsF j "tables")
  | "mkColumn" => return .mkRegion true (← argsF j) (← natsF j "lines") (← natsF j "regions") (← natsF j "tables")
  | "mkPage" => return .mkPage (← argsF j) (← natsF j "lines") (← natsF j "regions") (← natsF j "tables")
                  (← natsF j "columns") (← natsF j "extra")
  | "mkScan" => return .mkScan (← argsF j) (← natsF j "lines") (← natsF j "regions") (← natsF j "tables")
                  (← natsF j "columns") (← natsF j "pages")
  | "mkCell" => return .mkCell (← argsF j) (← natsF j "lines")
  | "mkRow" => return .mkRow (← argsF j) (← natsF j "cells")
  | "mkTable" => return .mkTable (← argsF j) (← natsF j "rows")
  | "addChild" =>
    let ex ← match fieldOpt j "as_extra" with
      | some v => asBool v
      | none => pure false
    return .addChild (← natF j "p") (← natF j "c") ex
  | "setParent" => return .setParent (← natF j "c") (← natF j "p")
  | "setAsParent" => return .setAsParent (← natF j "p") (← natsF j "cs")
  | "attachLines" => return .attachLines (← natF j "p") (← natsF j "cs")
  | "attachRegions" => return .attachRegions (← natF j "p") (← natsF j "cs")
  | "attachRows" => return .attachRows (← natF j "p") (← natsF j "cs")
  | "setParentage" => return .setParentage (← natF j "p")
  | "addType" => return .addType (← natF j "n") (← asList asStr (← field j "ts"))
  | "removeType" => return .removeType (← natF j "n") (← asList asStr (← field j "ts"))
  | "hasType" => return .hasType (← natF j "n") (← strF j "t")
  | "types" => return .types (← natF j "n")
  | "setFilename" => return .setFilename (← natF j "n") (← strF j "v")
  | _ => .error s!"unknown C02 operation {op}"

def jCls : Cls → Json
  | .word => jStr "word" | .line => jStr "line" | .region => jStr "region" | .column => jStr "column"
  | .page => jStr "page" | .scan => jStr "scan" | .cell => jStr "cell" | .row => jStr "row"
  | .table => jStr "table"

def jType : PyType → Json
  | .str s => jStr s
  | .list l => jList jStr l

def jNode (nd : Node) : Json :=
  jObj [("cls", jCls nd.cls), ("id", jMVal nd.id), ("type", jType nd.type), ("main_type", jStr nd.mainType),
        ("md", jList (jPair jStr jMVal) nd.md), ("parent", jOpt jNat nd.parent),
        ("text", jOpt jStr nd.text), ("has_coords", jBool nd.coords.isSome), ("area_cached", jBool nd.area.isSome),
        ("pages", jList jNat nd.pages), ("columns", jList jNat nd.columns), ("extra", jList jNat nd.extra),
        ("regions", jList jNat nd.regions), ("tables", jList jNat nd.tables), ("rows", jList jNat nd.rows),
        ("cells", jList jNat nd.cells), ("lines", jList jNat nd.lines), ("words", jList jNat nd.words)]

def jStore (σ : Store) : Json := jList jNode σ.nodes

def jOut : Out → Json
  | .unit => jObj [("unit", Json.null)]
  | .node n => jObj [("node", jNat n)]
  | .raised e => jObj [("raised", jStr e.name)]
  | .bool b => jObj [("bool", jBool b)]
  | .strs l => jObj [("strs", jList jStr l)]

/-- run a history; after every operation: its output and the dump of the whole store.
    An `.error` ends the history (`{"err": …}` is the last entry). -/
def runDump (σ : Store) : List Op → List Json → List Json × Store
  | [], acc => (acc.reverse, σ)
  | op :: ops, acc =>
    match step σ op with
    | .ok (σ', o) => runDump σ' ops (jObj [("out", jOut o), ("pre", jBool (Pre σ op)), ("store", jStore σ')] :: acc)
    | .error e => ((jObj [("err", jStr e.name)] :: acc).reverse, σ)

def handle (op : String) (args : Json) : Dec Json := do
  match op with
  | "history" =>
    let ops ← asList decOp (← field args "ops")
    return jObj [("ok", Json.arr (runDump Store.empty ops []).1.toArray)]
  | "final" =>
    -- only the last store (long histories: parse / JSON rebuild)
    let ops ← asList decOp (← field args "ops")
    match run Store.empty ops, runPre Store.empty ops with
    | .ok σ, pre => return jObj [("ok", jStore σ), ("pre", jBool pre)]
    | .error e, _ => return jObj [("err", jStr e.name)]
  | _ => .error s!"unknown op {op}"

end Pagexml.Drv.C02
