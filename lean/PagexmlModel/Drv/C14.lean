import PagexmlModel.Drv.Util
import PagexmlModel.Model.C14
open Lean

namespace Pagexml.Drv.C14
open Pagexml.C14

def decStr (j : Json) : Dec Str := (·.toList) <$> asStr j

def decBox (j : Json) : Dec Box := do
  match ← asList asInt j with
  | [x, y, w, h] => return ⟨x, y, w, h⟩
  | _ => .error s!"not a box: {j}"

def decLine (j : Json) : Dec Line := do
  let id ← decStr (← field j "id")
  let text ← asOpt decStr (← field j "text")
  let box ← asOpt decBox (← field j "box")
  return { id := id, text := text, box := box }

/-- regions nest; the decoder takes fuel (an undecodable request is an infrastructure error) -/
def decRegion : Nat → Json → Dec Region
  | 0, _ => .error "region nesting too deep for the decoder"
  | fuel + 1, j => do
    let id ← decStr (← field j "id")
    let box ← asOpt decBox (← field j "box")
    let lines ← asList decLine (← field j "lines")
    let subs ← asList (decRegion fuel) (← field j "subs")
    return .mk id box lines subs

def decDocs (args : Json) (k : String) : Dec (List Region) := do
  match fieldOpt args k with
  | none => return []
  | some j => asList (decRegion 64) j

def decHeaders (args : Json) : Dec (Option (List Str)) := do
  match fieldOpt args "headers" with
  | none => return none
  | some j => some <$> asList decStr j

def decFiles (args : Json) : Dec (List Str) := do
  match fieldOpt args "files" with
  | none => return []
  | some j => asList decStr j

def decSpace (args : Json) : Dec (Char → Bool) := do
  match fieldOpt args "ws" with
  | none => return fun _ => false
  | some j =>
    let ws ← asList asNat j
    return fun c => ws.contains c.toNat

def jS (s : Str) : Json := jStr (String.ofList s)
def jBox (b : Box) : Json := jList jInt [b.x, b.y, b.w, b.h]
def jRec (r : Rec) : Json := jList (fun (kv : Str × Option Str) => Json.arr #[jS kv.1, jOpt jS kv.2]) r
def jDRec (r : DRec) : Json := jList (fun (kv : Str × Str) => Json.arr #[jS kv.1, jS kv.2]) r

def jRLine (l : RLine) : Json :=
  jObj [("id", jS l.id), ("text", jS l.text), ("box", jOpt (fun c => jBox (boxOfCoords c)) l.coords)]
def jRRegion (r : RRegion) : Json :=
  jObj [("id", jS r.id), ("box", jOpt jBox r.box), ("lines", jList jRLine r.lines)]
def jRDoc (d : RDoc) : Json :=
  jObj [("id", jS d.id), ("box", jOpt (fun c => jBox (boxOfCoords c)) d.coords),
        ("regions", jList jRRegion d.regions),
        ("num_lines", jNat d.numLines), ("num_words", jNat d.numWords)]

def handle (op : String) (args : Json) : Dec Json := do
  match op with
  | "records" =>
    let docs ← decDocs args "docs"
    let outer ← boolF args "outer"
    let bbox ← boolF args "bbox"
    return jObj [("ok", jObj [
      ("recs", jList jRec (docs.flatMap (records outer bbox))),
      ("stats", jList (fun (d : Region) => jList jNat [d.numLines, d.numWords]) docs)])]
  | "write" =>
    let docs ← decDocs args "docs"
    let outer ← boolF args "outer"
    let bbox ← boolF args "bbox"
    let hs ← decHeaders args
    return answer jS (makeLineFormatFile hs outer bbox docs)
  | "read" =>
    let files ← decFiles args
    let hasHeaders ← boolF args "has_headers"
    let hs ← decHeaders args
    let outer ← boolF args "outer"
    let bbox ← boolF args "bbox"
    let fileDocs ← decDocs args "file_docs"
    let memDocs ← decDocs args "mem_docs"
    let sp ← decSpace args
    let recs := readerIter sp files hasHeaders hs outer bbox fileDocs memDocs
    match fieldOpt args "groupby" with
    | none => return answer (jList jRec) (collect recs)
    | some g =>
      let g ← decStr g
      return answer (jList (jList jRec)) (groupRecs g recs)
  | "rebuild" =>
    let files ← decFiles args
    let hasHeaders ← boolF args "has_headers"
    let hs ← decHeaders args
    let bbox ← boolF args "bbox"
    let sp ← decSpace args
    return answer (jList jRDoc) (rebuildDocs sp files hasHeaders hs bbox)
  | "box" =>
    let s ← decStr (← field args "s")
    return answer (fun (c : Pagexml.C03.Coords) =>
      jObj [("box", jBox (boxOfCoords c)), ("bbox", jS (bboxString (boxOfCoords c))),
            ("points", jList (jPair jInt jInt) c.points)]) (transformBox s)
  | "legacy_write" =>
    let docs ← decDocs args "docs"
    return jObj [("ok", jS (legacyWrite docs))]
  | "legacy_read" =>
    let files ← decFiles args
    let hs ← decHeaders args
    let hasHeader ← boolF args "has_header"
    let sp ← decSpace args
    return answer (jList jRec) (legacyRead sp files hs hasHeader)
  | _ => .error s!"unknown op {op}"

end Pagexml.Drv.C14
