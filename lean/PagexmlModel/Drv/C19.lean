import PagexmlModel.Drv.Util
import PagexmlModel.Model.C19
import Std.Data.HashMap
open Lean

namespace Pagexml.Drv.C19
open Pagexml.C19
open Pagexml.C03 (Pt)

/-- the IEEE-double instance of the `mulDivTrunc` parameter: the operations Python performs
    in `int((int_x - p1[0]) * ((p1[1] - p2[1]) / (p2[0] - p1[0])))` on C doubles.
    Runtime `Float` lives in the driver only; no theorem mentions it (DESIGN §3.4). -/
def mdtFloat (k a b : Int) : Int :=
  (Float.ofInt k * (Float.ofInt a / Float.ofInt b)).toInt64.toInt

/-- the `mulDivTrunc` parameter as OBSERVED on the real code: rows `[k, a, b, r]` recorded from the real
    `interpolate_points` while the case ran (`r = y_left - y` of the sample at `x = x_left + k` on a segment
    with `a = y_left - y_right`, `b = x_right - x_left`).  C19 constrains an interpolated y only to lie between
    the neighbouring points' y values — it names no rounding rule — and every theorem holds for every `mdt`
    (C19_shift, …) or for every `mdt` with `MulDivTruncLaws` (C19_interp_grid, C19_text_height); so the model is
    run with the implementation's own rounding (the harness checks the laws on every row), and everything
    computed FROM the interpolated points is still compared exactly.  A triple that was not observed falls
    back to the IEEE-double instance. -/
def mdtTable (tbl : Std.HashMap (Int × Int × Int) Int) (k a b : Int) : Int :=
  match tbl.get? (k, a, b) with
  | some r => r
  | none => mdtFloat k a b

def decMdt (args : Json) : Dec MulDivTrunc :=
  match fieldOpt args "mdt_table" with
  | none => return mdtFloat
  | some j => do
    let rows ← asList (asList asInt) j
    let mut tbl : Std.HashMap (Int × Int × Int) Int := {}
    for row in rows do
      match row with
      | [k, a, b, r] => tbl := tbl.insert (k, a, b) r
      | _ => throw s!"mdt_table row is not [k, a, b, r]: {row}"
    return mdtTable tbl

def decPt (j : Json) : Dec Pt := asPair asInt asInt j
def decPts (j : Json) : Dec (List Pt) := asList decPt j
def jPt (p : Pt) : Json := jPair jInt jInt p
def jPts (ps : List Pt) : Json := jList jPt ps
def jInts (l : List Int) : Json := jList jInt l
def jQ (q : Q) : Json := jPair jInt jInt q

def decLine (j : Json) : Dec Line := do
  let coords ← decPts (← field j "coords")
  let baseline ← asOpt decPts (← field j "baseline")
  let text ← asOpt (asPair asNat asNat) (← field j "text")
  return { coords := coords, baseline := baseline, text := text }

partial def decRegion (j : Json) : Dec Region := do
  let coords ← decPts (← field j "coords")
  let scanId ← asOpt asInt (← field j "scan_id")
  let colId ← asOpt asInt (← field j "column_id")
  let lines ← asList decLine (← field j "lines")
  let subs ← asList decRegion (← field j "subs")
  return Region.mk coords scanId colId lines subs

def decFlatRegion (j : Json) : Dec FlatRegion := do
  let coords ← decPts (← field j "coords")
  let lines ← asList decLine (← field j "lines")
  let sortedLines ← asList decLine (← field j "sorted_lines")
  return { coords := coords, lines := lines, sortedLines := sortedLines }

def decFlatColumn (j : Json) : Dec FlatColumn := do
  let coords ← decPts (← field j "coords")
  let regions ← asList decFlatRegion (← field j "regions")
  let sortedRegions ← asList decFlatRegion (← field j "sorted_regions")
  return { coords := coords, regions := regions, sortedRegions := sortedRegions }

def decDoc (j : Json) : Dec Doc := do
  let t ← strF j "type"
  match t with
  | "scan" =>
    return .scan (← decPts (← field j "coords")) (← asList decFlatRegion (← field j "regions"))
      (← asList decFlatRegion (← field j "sorted_regions"))
  | "page" =>
    return .page (← decPts (← field j "coords")) (← asList decFlatColumn (← field j "columns"))
      (← asList decFlatRegion (← field j "regions")) (← asList decFlatRegion (← field j "sorted_regions"))
  | "column" => return .column (← decFlatColumn j)
  | "region" => return .region (← decFlatRegion j)
  | "line" => return .line (← decLine j)
  | _ => .error s!"unknown doc type {t}"

def decAvgType (s : String) : AvgType :=
  if s = "macro" then .macro else if s = "micro" then .micro else .other

def decUnit (s : String) : WidthUnit :=
  if s = "char" then .char else if s = "pixel" then .pixel else .other

def jRange (r : WRange) : Json := jStr (String.ofList r.toStr)

def jHeightStats (h : HeightStats) : Json :=
  jObj [("max", jInt h.max), ("min", jInt h.min), ("mean", jInt h.mean), ("median", jInt h.median)]

def jEvent (e : Event) : Json := Json.arr #[jStr e.1, jStr e.2.1, jQ e.2.2]

def handle (op : String) (args : Json) : Dec Json := do
  let mdt ← decMdt args
  match op with
  | "mdt" =>
    let k ← intF args "k"
    let a ← intF args "a"
    let b ← intF args "b"
    return jObj [("ok", jInt (mdt k a b))]
  | "interp_points" =>
    let p1 ← decPt (← field args "p1")
    let p2 ← decPt (← field args "p2")
    let step ← intF args "step"
    return answer jPts (interpSeg mdt p1 p2 step)
  | "interp_baseline" =>
    let ps ← decPts (← field args "points")
    let step ← intF args "step"
    return answer jPts (interpBaseline mdt ps step)
  | "distances" =>
    let p1 ← decPts (← field args "p1")
    let p2 ← decPts (← field args "p2")
    let step ← intF args "step"
    return jObj [("ok", jObj [
      ("points", answer jInts (pointsDistances mdt p1 p2 step)),
      ("baseline", answer jInts (baselineDistances mdt p1 p2 step)),
      ("points_rev", answer jInts (pointsDistances mdt p2 p1 step)),
      ("baseline_rev", answer jInts (baselineDistances mdt p2 p1 step)),
      ("avg1", answer jInt (avgHeight p1)),
      ("avg2", answer jInt (avgHeight p2)),
      ("interp1", answer jPts (interpBaseline mdt p1 step)),
      ("interp2", answer jPts (interpBaseline mdt p2 step))])]
  | "line" =>
    let coords ← decPts (← field args "coords")
    let baseline ← decPts (← field args "baseline")
    let step ← intF args "step"
    return jObj [("ok", jObj [
      ("above_below", answer (jPair jPts jPts) (sortAboveBelow mdt coords baseline step)),
      ("heights", answer (jOpt jInts) (textHeights mdt coords baseline step)),
      ("height_stats", answer (jOpt jHeightStats) (do
          match ← textHeights mdt coords baseline step with
          | none => return none
          | some hs => return some (← heightStats hs)))])]
  | "height_stats" =>
    let hs ← asList asInt (← field args "hs")
    return answer jHeightStats (heightStats hs)
  | "line_distances" =>
    let lines ← asList decLine (← field args "lines")
    return answer (jList jInts) (lineDistances mdt lines)
  | "region" =>
    let r ← decRegion (← field args "region")
    let avgT ← strF args "avg_type"
    let u ← strF args "unit"
    return jObj [("ok", jObj [
      ("line_distances", answer (jList jInts) (regionLineDistances mdt r)),
      ("macro", answer jQ (avgLineDistance mdt r .macro)),
      ("micro", answer jQ (avgLineDistance mdt r .micro)),
      ("avg_other", answer jQ (avgLineDistance mdt r (decAvgType avgT))),
      ("char_width", answer jQ (avgCharWidth r)),
      ("line_width_char", answer jQ (avgLineWidth r .char)),
      ("line_width_pixel", answer jQ (avgLineWidth r .pixel)),
      ("line_width_other", answer jQ (avgLineWidth r (decUnit u))),
      ("num_inner", jNat (innerRegions r).length)])]
  | "region_pair" =>
    let r1 ← decRegion (← field args "r1")
    let r2 ← decRegion (← field args "r2")
    return jObj [("ok", jObj [
      ("distance", answer jQ (regionDistance mdt r1.coords r1.lines r2.coords r2.lines)),
      ("same_column", answer jBool (inSameColumn r1 r2))])]
  | "width" =>
    let ws ← asList asInt (← field args "ws")
    let bps ← asList asInt (← field args "bps")
    return jObj [("ok", jObj [
      ("categories", jList jRange (ws.map (fun w => categorise w bps))),
      ("ranges", jList jRange (ranges bps)),
      ("stats", jList (jPair jRange jNat) (widthStats ws bps))])]
  | "stats" =>
    let docs ← asList decDoc (← field args "docs")
    let srs ← asList decFlatRegion (← field args "sorted_top_regions")
    let sls ← asList decLine (← field args "sorted_top_lines")
    return answer (jList jEvent) (pagexmlStats mdt docs srs sls)
  | _ => .error s!"unknown op {op}"

end Pagexml.Drv.C19
