import PagexmlModel.Drv.Doc
open Lean

namespace Pagexml.Drv.C08

/-- C08 shares the document model (XML → xmltodict → parser) with the other two
    parsing properties; the operations live in `Drv/Doc.lean` -/
def handle (op : String) (args : Json) : Dec Json := Doc.handle op args

end Pagexml.Drv.C08
