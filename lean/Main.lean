/-
Line-protocol driver for the executable model (DESIGN §11.1).
in : {"p":"C10","op":"h_overlap","args":{…},"n":<seq>}
out: {"n":<seq>,"ok":<value>} | {"n":<seq>,"err":"<ExceptionClass>"} | {"n":<seq>,"bad":"<why>"}
-/
import PagexmlModel.Drv.All
open Lean Pagexml.Drv

def answerLine (line : String) : String :=
  match Json.parse line with
  | .error e => (jObj [("n", Json.null), ("bad", jStr s!"json: {e}")]).compress
  | .ok j =>
    let n := (j.getObjVal? "n").toOption.getD Json.null
    let r : Dec Json := do
      let p ← strF j "p"
      let op ← strF j "op"
      let args ← field j "args"
      dispatch p op args
    match r with
    | .ok (.obj kvs) => (Json.obj (kvs.insert "n" n)).compress
    | .ok other => (jObj [("n", n), ("bad", jStr s!"handler returned non-object {other}")]).compress
    | .error e => (jObj [("n", n), ("bad", jStr e)]).compress

partial def loop (hIn hOut : IO.FS.Stream) : IO Unit := do
  let line ← hIn.getLine
  if line.isEmpty then return ()
  let t := line.trimAscii.toString
  if !t.isEmpty then
    hOut.putStrLn (answerLine t)
  loop hIn hOut

def main : IO Unit := do
  let hIn ← IO.getStdin
  let hOut ← IO.getStdout
  loop hIn hOut
  hOut.flush
