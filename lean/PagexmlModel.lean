-- This module serves as the root of the `PagexmlModel` library.
-- Import modules here that should be built as part of the library.
import PagexmlModel.Basic
