"""ast-based translator (DESIGN §4.1): table-like fragments of /repo -> Generated/*.lean.

Nothing of the target code is imported; the working tree is parsed with `ast`.  Only the syntactic
shapes listed below are accepted.  Anything else raises `Unrecognised`, which the core reports as a
broken proof obligation (the theorems are then no longer tied to the code) — never a guess.

C12 (pagexml/helper/file_helper.py)
  ZIP_EXTENSIONS = {<str>, …}
  parse_archived_filename: `if <ext> in {<str>,…} and <base>.endswith(<str>): <ext> = <str> + <ext>`
      where `<base>, <ext> = os.path.splitext(…)` and the function returns `(…, …, <ext>)`
  get_archiver_mode: `_, _, <ext> = parse_archived_filename(<arg>)` followed by one
      `if <ext> in {…} | <ext> == <str>: return <str>, <str>  elif …  else: raise <Name>(…)`
  get_archive_functions: `if <arg> == <str>: open_func = <dotted>; read_func = <name>  elif … else: raise <Name>(…)`
      `return open_func, read_func`
C13 (pagexml/parser.py)
  parse_pagexml_file: first statement `if <data> is None:` or `if not <data>:` (the two are told apart)
  parse_pagexml_files / parse_pagexml_files_from_archive: one `for` whose body is one `try` with
      handlers `except <Cls> | (<Cls>, …) [as e]:` whose body is `continue` | `raise` | an if/elif/else
      chain over the guards `ignore_errors [is True]` and `<x>['archived_filename'].endswith(<str>) is False`,
      every arm being print-statements followed by exactly one `continue` or bare `raise`.
"""
from __future__ import annotations

import ast
import os
from typing import Any, Dict, List, Optional, Tuple

FILE_HELPER = 'pagexml/helper/file_helper.py'
PARSER = 'pagexml/parser.py'

#: exception classes the Lean model knows the place of in CPython's hierarchy (Model/C13.lean `parent`)
KNOWN_CLASSES = ['BaseException', 'Exception', 'ArithmeticError', 'ZeroDivisionError', 'AttributeError',
                 'LookupError', 'IndexError', 'KeyError', 'OSError', 'FileNotFoundError', 'IsADirectoryError',
                 'PermissionError', 'TypeError', 'ValueError', 'UnicodeError', 'UnicodeDecodeError', 'ExpatError',
                 'RuntimeError', 'RecursionError', 'MemoryError']
KNOWN_READERS = ['read_zip_handle', 'read_tar_handle', 'read_7z_handle']
KNOWN_OPENERS = ['zipfile.ZipFile', 'tarfile.open', 'py7zr.SevenZipFile']


class Unrecognised(Exception):
    """the source no longer has a shape the translator knows"""


def _repo() -> str:
    return os.environ.get('PAGEXML_REPO', '/repo')


_PARSED: Dict[Any, ast.Module] = {}


def _module(rel: str) -> ast.Module:
    path = os.path.join(_repo(), rel)
    st = os.stat(path)
    key = (path, st.st_mtime_ns, st.st_size)
    if key not in _PARSED:
        with open(path, encoding='utf-8') as fh:
            from harness.astnorm import normalise     # named constants / folded literals read as the literals they are
            _PARSED[key] = normalise(ast.parse(fh.read(), filename=path))
    return _PARSED[key]


def _fail(node: Optional[ast.AST], why: str):
    where = f' (line {node.lineno})' if node is not None and hasattr(node, 'lineno') else ''
    src = ''
    if node is not None:
        try:
            src = ' :: ' + ast.unparse(node)[:160]
        except Exception:  # noqa
            pass
    raise Unrecognised(why + where + src)


def _func(mod: ast.Module, name: str) -> ast.FunctionDef:
    hits = [n for n in mod.body if isinstance(n, ast.FunctionDef) and n.name == name]
    if len(hits) != 1:
        _fail(None, f'expected exactly one top-level def {name}, found {len(hits)}')
    return hits[0]


def _body(fn: ast.FunctionDef) -> List[ast.stmt]:
    """function body without the docstring"""
    b = list(fn.body)
    if b and isinstance(b[0], ast.Expr) and isinstance(b[0].value, ast.Constant) and isinstance(b[0].value.value, str):
        b = b[1:]
    return b


def _str(node: ast.AST) -> str:
    if isinstance(node, ast.Constant) and isinstance(node.value, str):
        return node.value
    _fail(node, 'expected a string literal')


def _str_set(node: ast.AST) -> List[str]:
    if isinstance(node, (ast.Set, ast.List, ast.Tuple)) and node.elts:
        vals = [_str(e) for e in node.elts]
        if len(set(vals)) != len(vals):
            _fail(node, 'duplicate element in a literal set')
        return sorted(vals)
    _fail(node, 'expected a non-empty literal set/list/tuple of strings')


def _name(node: ast.AST) -> str:
    if isinstance(node, ast.Name):
        return node.id
    _fail(node, 'expected a plain name')


def _dotted(node: ast.AST) -> str:
    if isinstance(node, ast.Name):
        return node.id
    if isinstance(node, ast.Attribute):
        return _dotted(node.value) + '.' + node.attr
    _fail(node, 'expected a dotted name')


def _if_chain(node: ast.If) -> Tuple[List[Tuple[ast.expr, List[ast.stmt]]], Optional[List[ast.stmt]]]:
    """flatten if/elif/…/else into ([(test, body)], else body or None)"""
    arms = []
    cur: Any = node
    while True:
        arms.append((cur.test, cur.body))
        if len(cur.orelse) == 1 and isinstance(cur.orelse[0], ast.If):
            cur = cur.orelse[0]
            continue
        return arms, (cur.orelse or None)


def _mode_table_form(mod: ast.Module, stmts: List[ast.stmt], ext_var: str):
    """`if <ext> not in TABLE: raise Cls(…)` ; `return TABLE[<ext>]` -> ([( [key], archiver, mode ), …], 'Cls'), or
    None if the two statements do not have that shape"""
    guard, ret = stmts
    if not (isinstance(guard, ast.If) and not guard.orelse and isinstance(guard.test, ast.Compare) and
            len(guard.test.ops) == 1 and isinstance(guard.test.ops[0], ast.NotIn) and
            isinstance(guard.test.left, ast.Name) and guard.test.left.id == ext_var and
            isinstance(guard.test.comparators[0], (ast.Name, ast.Dict))):
        return None
    if not (isinstance(ret, ast.Return) and isinstance(ret.value, ast.Subscript) and
            isinstance(ret.value.value, ast.Name) and
            isinstance(ret.value.slice, ast.Name) and ret.value.slice.id == ext_var):
        return None
    table = ret.value.value.id
    g = guard.test.comparators[0]
    if isinstance(g, ast.Name) and g.id != table:
        return None
    defs = [n for n in mod.body if isinstance(n, ast.Assign) and len(n.targets) == 1 and
            isinstance(n.targets[0], ast.Name) and n.targets[0].id == table]
    if len(defs) != 1 or not isinstance(defs[0].value, ast.Dict):
        _fail(guard, f'expected exactly one module-level dict literal {table}')
    # nothing else in the module may touch the table (rebind it, or mutate it through a method / subscript store)
    for n in ast.walk(mod):
        if isinstance(n, ast.Name) and n.id == table and isinstance(n.ctx, (ast.Store, ast.Del)) and n is not defs[0].targets[0]:
            _fail(n, f'{table} is rebound')
        if isinstance(n, ast.Attribute) and isinstance(n.value, ast.Name) and n.value.id == table:
            _fail(n, f'a method of {table} is used')
        if isinstance(n, ast.Subscript) and isinstance(n.value, ast.Name) and n.value.id == table and \
                isinstance(n.ctx, (ast.Store, ast.Del)):
            _fail(n, f'{table} is written to')
    d = defs[0].value
    if isinstance(g, ast.Dict) and ast.dump(g) != ast.dump(d):     # (the table's literal, after constant propagation)
        _fail(guard, f'the membership test is not on {table}')
    keys = [_str(k) for k in d.keys]
    if len(set(keys)) != len(keys):
        _fail(d, f'duplicate key in {table}')
    chain = []
    for k, v in zip(keys, d.values):
        if not (isinstance(v, ast.Tuple) and len(v.elts) == 2):
            _fail(v, 'expected `(<archiver>, <mode>)`')
        chain.append(([k], _str(v.elts[0]), _str(v.elts[1])))
    return chain, _raise_class(guard.body)


def _raise_class(stmts: List[ast.stmt]) -> str:
    """`raise Cls(...)` as the only statement -> 'Cls'"""
    if len(stmts) == 1 and isinstance(stmts[0], ast.Raise) and stmts[0].exc is not None and stmts[0].cause is None:
        e = stmts[0].exc
        if isinstance(e, ast.Call):
            e = e.func
        n = _name(e)
        if n not in KNOWN_CLASSES:
            _fail(stmts[0], f'exception class {n} is not one the model knows')
        return n
    _fail(stmts[0] if stmts else None, 'expected a single `raise Cls(...)`')


# ---------------------------------------------------------------------------------------
# Lean printing
# ---------------------------------------------------------------------------------------

def lean_str(s: str) -> str:
    out = []
    for ch in s:
        if ch == '"':
            out.append('\\"')
        elif ch == '\\':
            out.append('\\\\')
        elif 32 <= ord(ch) < 127:
            out.append(ch)
        else:
            _fail(None, f'non-printable or non-ASCII character {ch!r} in a table string')
    return '"' + ''.join(out) + '"'


def lean_list(items: List[str]) -> str:
    return '[' + ', '.join(items) + ']'


def lean_strs(items: List[str]) -> str:
    return lean_list([lean_str(s) for s in items])


# ---------------------------------------------------------------------------------------
# C12
# ---------------------------------------------------------------------------------------

def extract_c12() -> Dict[str, Any]:
    mod = _module(FILE_HELPER)
    # ZIP_EXTENSIONS -------------------------------------------------------------------
    assigns = [n for n in mod.body if isinstance(n, ast.Assign) and len(n.targets) == 1 and
               isinstance(n.targets[0], ast.Name) and n.targets[0].id == 'ZIP_EXTENSIONS']
    if len(assigns) != 1:
        _fail(None, f'expected exactly one module-level assignment to ZIP_EXTENSIONS, found {len(assigns)}')
    zip_exts = _str_set(assigns[0].value)
    for n in ast.walk(mod):   # the set must not be modified elsewhere
        if isinstance(n, (ast.AugAssign, ast.Delete)) and 'ZIP_EXTENSIONS' in ast.unparse(n):
            _fail(n, 'ZIP_EXTENSIONS is modified after its definition')
        if isinstance(n, ast.Call) and isinstance(n.func, ast.Attribute) and isinstance(n.func.value, ast.Name) \
                and n.func.value.id == 'ZIP_EXTENSIONS':
            _fail(n, 'method call on ZIP_EXTENSIONS')

    # parse_archived_filename: the double-extension rule --------------------------------------
    fn = _func(mod, 'parse_archived_filename')
    body = _body(fn)
    ret = body[-1]
    if not (isinstance(ret, ast.Return) and isinstance(ret.value, ast.Tuple) and len(ret.value.elts) == 3):
        _fail(ret, 'parse_archived_filename must end with `return dir, file, ext`')
    ext_var = _name(ret.value.elts[2])
    file_var = _name(ret.value.elts[1])
    # statements (top level) that assign the extension variable
    writers = [s for s in body if any(isinstance(t, ast.Name) and t.id == ext_var and isinstance(t.ctx, ast.Store)
                                      for t in ast.walk(s))]
    if len(writers) != 2:
        _fail(fn, f'expected two top-level statements writing {ext_var} (splitext and the double-extension rule), '
                  f'found {len(writers)}')
    sp, rule = writers
    if body.index(rule) != body.index(sp) + 1 or body.index(rule) != len(body) - 2:
        _fail(rule, 'the double-extension rule must directly follow splitext and directly precede the return')
    if not (isinstance(sp, ast.Assign) and len(sp.targets) == 1 and isinstance(sp.targets[0], ast.Tuple) and
            len(sp.targets[0].elts) == 2 and isinstance(sp.value, ast.Call) and
            _dotted(sp.value.func) == 'os.path.splitext' and len(sp.value.args) == 1 and not sp.value.keywords and
            _name(sp.value.args[0]) == file_var and _name(sp.targets[0].elts[1]) == ext_var):
        _fail(sp, f'expected `<base>, {ext_var} = os.path.splitext({file_var})`')
    base_var = _name(sp.targets[0].elts[0])
    if not (isinstance(rule, ast.If) and not rule.orelse and isinstance(rule.test, ast.BoolOp) and
            isinstance(rule.test.op, ast.And) and len(rule.test.values) == 2):
        _fail(rule, 'expected `if <ext> in {…} and <base>.endswith(<str>):` without else')
    t_in, t_ends = rule.test.values
    if not (isinstance(t_in, ast.Compare) and len(t_in.ops) == 1 and isinstance(t_in.ops[0], ast.In) and
            _name(t_in.left) == ext_var):
        _fail(t_in, f'expected `{ext_var} in {{…}}`')
    double_exts = _str_set(t_in.comparators[0])
    if not (isinstance(t_ends, ast.Call) and isinstance(t_ends.func, ast.Attribute) and t_ends.func.attr == 'endswith'
            and _name(t_ends.func.value) == base_var and len(t_ends.args) == 1 and not t_ends.keywords):
        _fail(t_ends, f'expected `{base_var}.endswith(<str>)`')
    double_base = _str(t_ends.args[0])
    if not (len(rule.body) == 1 and isinstance(rule.body[0], ast.Assign) and len(rule.body[0].targets) == 1 and
            _name(rule.body[0].targets[0]) == ext_var and isinstance(rule.body[0].value, ast.BinOp) and
            isinstance(rule.body[0].value.op, ast.Add) and _name(rule.body[0].value.right) == ext_var):
        _fail(rule.body[0], f'expected `{ext_var} = <str> + {ext_var}`')
    double_prefix = _str(rule.body[0].value.left)

    # get_archiver_mode -----------------------------------------------------------------
    fn = _func(mod, 'get_archiver_mode')
    body = _body(fn)
    if len(body) not in (2, 3) or len(fn.args.args) != 1:
        _fail(fn, 'get_archiver_mode: expected one parameter and two statements (parse_archived_filename; if-chain)')
    a0, chain = body[0], body[1]
    arg = fn.args.args[0].arg
    if not (isinstance(a0, ast.Assign) and len(a0.targets) == 1 and isinstance(a0.targets[0], ast.Tuple) and
            len(a0.targets[0].elts) == 3 and isinstance(a0.value, ast.Call) and
            _name(a0.value.func) == 'parse_archived_filename' and len(a0.value.args) == 1 and
            not a0.value.keywords and _name(a0.value.args[0]) == arg):
        _fail(a0, f'expected `_, _, <ext> = parse_archived_filename({arg})`')
    ext_var = _name(a0.targets[0].elts[2])
    table_form = _mode_table_form(mod, body[1:], ext_var) if len(body) == 3 else None
    if table_form is not None:
        # second known shape: `if <ext> not in TABLE: raise <Cls>(…)` / `return TABLE[<ext>]` with a module-level
        # dict literal TABLE = {<str>: (<str>, <str>), …} — the same function written as a lookup; one arm per key,
        # in the order of the literal (the keys of a dict literal are distinct, so arm order cannot matter)
        arms, orelse = [], None
        mode_chain_pre, mode_else_pre = table_form
    else:
        if len(body) != 2:
            _fail(fn, 'get_archiver_mode: expected two statements (parse_archived_filename; if-chain) or the '
                      'lookup-table form')
        mode_chain_pre = mode_else_pre = None
        if not isinstance(chain, ast.If):
            _fail(chain, 'expected an if/elif chain')
        arms, orelse = _if_chain(chain)
        if orelse is None:
            _fail(chain, 'the if/elif chain of get_archiver_mode has no else branch')
    mode_chain = []
    for test, b in arms:
        if not (isinstance(test, ast.Compare) and len(test.ops) == 1 and _name(test.left) == ext_var):
            _fail(test, f'expected `{ext_var} in {{…}}` or `{ext_var} == <str>`')
        if isinstance(test.ops[0], ast.In):
            exts = _str_set(test.comparators[0])
        elif isinstance(test.ops[0], ast.Eq):
            exts = [_str(test.comparators[0])]
        else:
            _fail(test, 'unsupported comparison')
        if not (len(b) == 1 and isinstance(b[0], ast.Return) and isinstance(b[0].value, ast.Tuple) and
                len(b[0].value.elts) == 2):
            _fail(b[0], 'expected `return <archiver>, <mode>`')
        mode_chain.append((exts, _str(b[0].value.elts[0]), _str(b[0].value.elts[1])))
    if mode_chain_pre is not None:
        mode_chain, mode_else = mode_chain_pre, mode_else_pre
    else:
        mode_else = _raise_class(orelse)

    # get_archive_functions ---------------------------------------------------------------
    fn = _func(mod, 'get_archive_functions')
    body = _body(fn)
    if len(body) != 2 or len(fn.args.args) != 1:
        _fail(fn, 'get_archive_functions: expected one parameter and two statements (if-chain; return)')
    chain, ret = body
    arg = fn.args.args[0].arg
    if not (isinstance(ret, ast.Return) and isinstance(ret.value, ast.Tuple) and
            [_name(e) for e in ret.value.elts] == ['open_func', 'read_func']):
        _fail(ret, 'expected `return open_func, read_func`')
    if not isinstance(chain, ast.If):
        _fail(chain, 'expected an if/elif chain')
    arms, orelse = _if_chain(chain)
    if orelse is None:
        _fail(chain, 'the if/elif chain of get_archive_functions has no else branch')
    fns = []
    for test, b in arms:
        if not (isinstance(test, ast.Compare) and len(test.ops) == 1 and isinstance(test.ops[0], ast.Eq) and
                _name(test.left) == arg):
            _fail(test, f'expected `{arg} == <str>`')
        archiver = _str(test.comparators[0])
        got = {}
        for s in b:
            if not (isinstance(s, ast.Assign) and len(s.targets) == 1 and
                    _name(s.targets[0]) in ('open_func', 'read_func') and _name(s.targets[0]) not in got):
                _fail(s, 'expected `open_func = <dotted name>` and `read_func = <name>` once each')
            got[_name(s.targets[0])] = _dotted(s.value)
        if set(got) != {'open_func', 'read_func'}:
            _fail(test, 'arm does not set both open_func and read_func')
        if got['open_func'] not in KNOWN_OPENERS:
            _fail(test, f'open function {got["open_func"]} is not one the model knows')
        if got['read_func'] not in KNOWN_READERS:
            _fail(test, f'reader {got["read_func"]} is not one the model knows')
        fns.append((archiver, got['open_func'], got['read_func']))
    fns_else = _raise_class(orelse)
    return {'zip_exts': zip_exts, 'double_exts': double_exts, 'double_base': double_base,
            'double_prefix': double_prefix, 'mode_chain': mode_chain, 'mode_else': mode_else,
            'fns': fns, 'fns_else': fns_else}


def gen_c12() -> str:
    t = extract_c12()
    L = ['/-',
         f'GENERATED by harness/translate.py from {FILE_HELPER} — do not edit.',
         'Rewritten on every run of the C12 / C13 checks; the property theorems are re-checked against it.',
         '-/',
         'namespace Pagexml.Generated.C12',
         '',
         '/-- `ZIP_EXTENSIONS` (a set literal; listed in sorted order) -/',
         f'def zipExtensions : List String := {lean_strs(t["zip_exts"])}',
         '',
         '/-- `parse_archived_filename`, after `base, ext = os.path.splitext(file)`:',
         '    `if ext in doubleExts and base.endswith(doubleBaseSuffix): ext = doublePrefix + ext` -/',
         f'def doubleExts : List String := {lean_strs(t["double_exts"])}',
         f'def doubleBaseSuffix : String := {lean_str(t["double_base"])}',
         f'def doublePrefix : String := {lean_str(t["double_prefix"])}',
         '',
         '/-- `get_archiver_mode`: the if/elif chain on the extension returned by `parse_archived_filename`,',
         '    in source order: (extensions tested, archiver, mode); falling through raises `archiverModeElse` -/',
         'def archiverModeChain : List (List String × String × String) := [']
    rows = [f'  ({lean_strs(e)}, {lean_str(a)}, {lean_str(m)})' for e, a, m in t['mode_chain']]
    L.append(',\n'.join(rows) + ']')
    L += [f'def archiverModeElse : String := {lean_str(t["mode_else"])}',
          '',
          '/-- `get_archive_functions`: the if/elif chain on the archiver, in source order:',
          '    (archiver, open function, reader); falling through raises `archiveFunctionsElse` -/',
          'def archiveFunctions : List (String × String × String) := [']
    rows = [f'  ({lean_str(a)}, {lean_str(o)}, {lean_str(r)})' for a, o, r in t['fns']]
    L.append(',\n'.join(rows) + ']')
    L += [f'def archiveFunctionsElse : String := {lean_str(t["fns_else"])}',
          '',
          'end Pagexml.Generated.C12', '']
    return '\n'.join(L)


# ---------------------------------------------------------------------------------------
# C13
# ---------------------------------------------------------------------------------------

def _class_names(node: Optional[ast.expr]) -> List[str]:
    if node is None:
        _fail(None, 'bare `except:` is not a shape the model knows')
    elts = node.elts if isinstance(node, ast.Tuple) else [node]
    out = []
    for e in elts:
        d = _dotted(e)
        if d == 'expat.ExpatError':
            d = 'ExpatError'
        elif '.' in d:
            _fail(e, f'exception class {d} is not one the model knows')
        if d not in KNOWN_CLASSES:
            _fail(e, f'exception class {d} is not one the model knows')
        out.append(d)
    if not out:
        _fail(node, 'empty exception tuple')
    return out


def _is_print(s: ast.stmt) -> bool:
    return isinstance(s, ast.Expr) and isinstance(s.value, ast.Call) and isinstance(s.value.func, ast.Name) \
        and s.value.func.id == 'print'


def _only_prints(stmts: List[ast.stmt]) -> bool:
    for s in stmts:
        if _is_print(s):
            continue
        if isinstance(s, ast.If) and _only_prints(s.body) and _only_prints(s.orelse):
            # e.g. `if silent_mode is False: print(...)`: the test must be side-effect free
            if all(isinstance(n, (ast.Name, ast.Constant, ast.Compare, ast.Is, ast.IsNot, ast.Eq, ast.NotEq, ast.Not,
                                  ast.UnaryOp, ast.Load)) for n in ast.walk(s.test)):
                continue
        return False
    return True


def _action(stmts: List[ast.stmt]) -> str:
    """print statements followed by exactly one `continue` or bare `raise`"""
    if not stmts:
        _fail(None, 'empty arm')
    last = stmts[-1]
    if not _only_prints(stmts[:-1]):
        _fail(stmts[0], 'an except arm may only print before it continues or re-raises')
    if isinstance(last, ast.Continue):
        return 'continue'
    if isinstance(last, ast.Raise) and last.exc is None and last.cause is None:
        return 'raise'
    _fail(last, 'an except arm must end with `continue` or a bare `raise`')


def _guard(test: ast.expr) -> Tuple[str, str]:
    # ignore_errors  |  ignore_errors is True
    if isinstance(test, ast.Name) and test.id == 'ignore_errors':
        return 'ignore-errors', ''
    if isinstance(test, ast.Compare) and len(test.ops) == 1 and isinstance(test.ops[0], ast.Is) and \
            isinstance(test.left, ast.Name) and test.left.id == 'ignore_errors' and \
            isinstance(test.comparators[0], ast.Constant) and test.comparators[0].value is True:
        return 'ignore-errors', ''
    # <x>['archived_filename'].endswith('<suffix>') is False
    if isinstance(test, ast.Compare) and len(test.ops) == 1 and isinstance(test.ops[0], ast.Is) and \
            isinstance(test.comparators[0], ast.Constant) and test.comparators[0].value is False:
        c = test.left
        if isinstance(c, ast.Call) and isinstance(c.func, ast.Attribute) and c.func.attr == 'endswith' and \
                len(c.args) == 1 and not c.keywords and isinstance(c.func.value, ast.Subscript) and \
                isinstance(c.func.value.value, ast.Name) and \
                isinstance(c.func.value.slice, ast.Constant) and c.func.value.slice.value == 'archived_filename':
            return 'name-lacks-suffix', _str(c.args[0])
    _fail(test, 'guard of an except arm is not `ignore_errors [is True]` nor '
                "`<info>['archived_filename'].endswith(<str>) is False`")


def _handler(h: ast.ExceptHandler) -> Tuple[List[str], List[Tuple[str, str, str]]]:
    classes = _class_names(h.type)
    body = h.body
    if len(body) == 1 and isinstance(body[0], ast.If):
        arms, orelse = _if_chain(body[0])
        rows = []
        for test, b in arms:
            g, a = _guard(test)
            rows.append((g, a, _action(b)))
        if orelse is None:
            _fail(body[0], 'the if-chain of an except clause has no else branch')
        rows.append(('else', '', _action(orelse)))
        return classes, rows
    return classes, [('else', '', _action(body))]


def _batch_clauses(mod: ast.Module, name: str, need_kw: Optional[str]) -> List[Tuple[List[str], List[Tuple[str, str, str]]]]:
    fn = _func(mod, name)
    params = [a.arg for a in fn.args.args]
    if 'ignore_errors' not in params:
        _fail(fn, f'{name} has no ignore_errors parameter')
    i = params.index('ignore_errors') - (len(params) - len(fn.args.defaults))
    if i < 0 or not (isinstance(fn.args.defaults[i], ast.Constant) and fn.args.defaults[i].value is False):
        _fail(fn, 'ignore_errors must default to False')
    body = _body(fn)
    if not (len(body) == 1 and isinstance(body[0], ast.For) and not body[0].orelse):
        _fail(fn, f'{name}: expected a single for loop')
    loop = body[0]
    if not (len(loop.body) == 1 and isinstance(loop.body[0], ast.Try)):
        _fail(loop, f'{name}: the loop body must be a single try statement')
    tr = loop.body[0]
    if tr.orelse or tr.finalbody:
        _fail(tr, 'try with else/finally is not a shape the model knows')
    calls = [n for s in tr.body for n in ast.walk(s) if isinstance(n, ast.Call) and isinstance(n.func, ast.Name)
             and n.func.id == 'parse_pagexml_file']
    yields = [n for s in tr.body for n in ast.walk(s) if isinstance(n, ast.Yield)]
    if len(calls) != 1 or len(yields) != 1:
        _fail(tr, 'the try body must call parse_pagexml_file once and yield once')
    if need_kw is not None and need_kw not in [k.arg for k in calls[0].keywords]:
        _fail(calls[0], f'parse_pagexml_file is not given {need_kw}=')
    for s in tr.body:   # nothing else in the try body may change control flow
        for n in ast.walk(s):
            if isinstance(n, (ast.Continue, ast.Break, ast.Return, ast.Raise, ast.Try, ast.For, ast.While)):
                _fail(n, 'unexpected control flow inside the try body')
    return [_handler(h) for h in tr.handlers]


def extract_c13() -> Dict[str, Any]:
    mod = _module(PARSER)
    fn = _func(mod, 'parse_pagexml_file')
    params = [a.arg for a in fn.args.args]
    if params[:2] != ['pagexml_file', 'pagexml_data']:
        _fail(fn, 'parse_pagexml_file(pagexml_file, pagexml_data, …) expected')
    d = fn.args.defaults[1 - (len(params) - len(fn.args.defaults))] if len(params) - len(fn.args.defaults) <= 1 else None
    if not (isinstance(d, ast.Constant) and d.value is None):
        _fail(fn, 'pagexml_data must default to None')
    body = _body(fn)
    first = body[0]
    if not (isinstance(first, ast.If) and not first.orelse and len(first.body) == 1 and
            isinstance(first.body[0], ast.Assign) and _name(first.body[0].targets[0]) == 'pagexml_data' and
            isinstance(first.body[0].value, ast.Call) and _name(first.body[0].value.func) == 'read_pagexml_file'):
        _fail(first, 'expected `if <pagexml_data absent>: pagexml_data = read_pagexml_file(…)` as first statement')
    t = first.test
    if isinstance(t, ast.Compare) and len(t.ops) == 1 and isinstance(t.ops[0], ast.Is) and \
            _name(t.left) == 'pagexml_data' and isinstance(t.comparators[0], ast.Constant) and \
            t.comparators[0].value is None:
        absent = 'is-none'
    elif isinstance(t, ast.UnaryOp) and isinstance(t.op, ast.Not) and _name(t.operand) == 'pagexml_data':
        absent = 'falsy'
    else:
        _fail(t, 'expected `pagexml_data is None` or `not pagexml_data`')
    # pagexml_data must not be reassigned before it is parsed
    second = body[1]
    if not (isinstance(second, ast.Assign) and isinstance(second.value, ast.Call) and
            _dotted(second.value.func) == 'xmltodict.parse' and len(second.value.args) == 1 and
            _name(second.value.args[0]) == 'pagexml_data'):
        _fail(second, 'expected `scan_json = xmltodict.parse(pagexml_data)` as second statement')
    return {'absent': absent,
            'files': _batch_clauses(mod, 'parse_pagexml_files', None),
            'archive': _batch_clauses(mod, 'parse_pagexml_files_from_archive', 'pagexml_data')}


def _lean_clauses(name: str, doc: str, clauses) -> List[str]:
    L = [f'/-- {doc} -/', f'def {name} : List (List String × List (String × String × String)) := [']
    rows = []
    for classes, arms in clauses:
        arm_s = ',\n     '.join(f'({lean_str(g)}, {lean_str(a)}, {lean_str(act)})' for g, a, act in arms)
        rows.append(f'  ({lean_strs(classes)},\n    [{arm_s}])')
    L.append(',\n'.join(rows) + ']')
    return L


def gen_c13() -> str:
    t = extract_c13()
    L = ['/-',
         f'GENERATED by harness/translate.py from {PARSER} — do not edit.',
         'Rewritten on every run of the C12 / C13 checks; the property theorems are re-checked against it.',
         '',
         'An except clause is (exception classes, arms); the arms are the if/elif/else chain of the clause body,',
         'each (guard, guard argument, action) with guard "ignore-errors" | "name-lacks-suffix" <suffix> | "else"',
         'and action "continue" | "raise".  Python semantics: the first clause naming a base class of the exception',
         'handles it; inside the clause the first arm whose guard holds decides.',
         '-/',
         'namespace Pagexml.Generated.C13',
         '',
         '/-- `parse_pagexml_file`: the test that decides whether the file is read from disk:',
         '    "is-none" for `pagexml_data is None`, "falsy" for `not pagexml_data` -/',
         f'def dataAbsentTest : String := {lean_str(t["absent"])}',
         '']
    L += _lean_clauses('filesExcept', 'the except clauses of `parse_pagexml_files`, in source order', t['files'])
    L.append('')
    L += _lean_clauses('archiveExcept', 'the except clauses of `parse_pagexml_files_from_archive`, in source order',
                       t['archive'])
    L += ['', 'end Pagexml.Generated.C13', '']
    return '\n'.join(L)


def generated_files() -> Dict[str, str]:
    return {'PagexmlModel/Generated/C12.lean': gen_c12(), 'PagexmlModel/Generated/C13.lean': gen_c13()}


if __name__ == '__main__':
    for k, v in generated_files().items():
        print('-- ' + k)
        print(v)
