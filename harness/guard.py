"""An outcome of the real code must always be JUDGED — never end a run as an infrastructure failure (exit 2).

core.run_check guards `impl` and `requests`; `oracle` and `compare` of a check run unguarded there.  When one of
them trips over a value of the real code that it did not expect (a sentinel default, None where a list was
promised, a changed shape), that is an outcome of the real code: `guarded` turns an exception of `oracle` into a
finding of its own class ("<pid>:outcome-not-judgeable", with the case as failing input) and an exception of
`compare` into a disagreement (a broken correspondence), so that the run ends with a VIOLATION line and a replay
instead of a traceback.  core.Infra (driver missing, timeouts …) is passed on unchanged.
"""
from __future__ import annotations

import functools
import traceback

from harness.core import Finding, Infra, short


def guarded(cls):
    oracle, compare = cls.oracle, cls.compare

    @functools.wraps(oracle)
    def safe_oracle(self, case, out):
        try:
            return oracle(self, case, out)
        except Infra:
            raise
        except Exception as e:  # noqa
            where = traceback.format_exc().strip().split('\n')[-3:]
            return [Finding(f'{self.pid}:outcome-not-judgeable',
                            f'the oracle could not judge what the real code returned ({type(e).__name__}: {e}; '
                            f'{" | ".join(w.strip() for w in where)}): output {short(out, 300)}', case, out)]

    @functools.wraps(compare)
    def safe_compare(self, case, impl_out, model_out):
        try:
            return compare(self, case, impl_out, model_out)
        except Infra:
            raise
        except Exception as e:  # noqa
            return (f'the outputs could not be compared ({type(e).__name__}: {e}): impl={short(impl_out, 300)} '
                    f'model={short(model_out, 300)}')

    cls.oracle, cls.compare = safe_oracle, safe_compare
    return cls
