#!/venv/bin/python
"""Replay a stored failing input against the real code only: re-runs the implementation
adapter and the property oracle of the check that wrote the file.

usage: /venv/bin/python /verif/harness/replay.py <replay.json>
exit 1 if the property statement still fails on that input, 0 otherwise."""
import importlib
import json
import os
import sys

sys.path.insert(0, os.path.dirname(os.path.dirname(os.path.abspath(__file__))))
from harness import core  # noqa: E402


def main() -> int:
    body = json.load(open(sys.argv[1]))
    pid = body['property']
    mod = importlib.import_module(body.get('module') or f'harness.props.{pid.lower()}')
    check = mod.CHECK
    if body['kind'] != 'failing-input':
        print(f'{pid}: {body["kind"]} — no failing input was found; broken obligations:')
        for b in body.get('broken', []):
            print(' -', b.get('what'), '::', str(b.get('detail'))[:1500])
        return 1
    c = body['case']
    case = core.Case(c['kind'], c['input'], c.get('tags', []))
    out = check.impl(case)
    fs = check.oracle(case, out)
    print('input :', core.short(case.to_json(), 2000))
    print('impl  :', core.short(out, 2000))
    for f in fs:
        print('FAILS :', f.key, '—', f.what)
    if not fs:
        print('the property statement holds on this input now')
    return 1 if fs else 0


if __name__ == '__main__':
    sys.exit(main())
