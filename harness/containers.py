"""Shared generators for C12 / C13: small PageXML documents, faulty variants, member trees and
REAL containers (zip, tar, tar.gz, tar.bz2, 7z, loose directory) written below a scratch directory.

A member tree is JSON:  {'t':'f','p':path,'d':hex} | {'t':'d','p':path} | {'t':'n','p':path,'k':kind,'m':[…]}
kinds: zip | tar | targz | tarbz2 | sevenz.
"""
from __future__ import annotations

import hashlib
import io
import os
import random
import shutil
import tarfile
import zipfile
from typing import Any, Dict, List, Optional, Tuple

ACCEPTED_EXTS = ['.zip', '.tar', '.tar.gz', '.tgz', '.tar.bz2', '.tbz2', '.7z']
KIND_OF_EXT = {'.zip': 'zip', '.tar': 'tar', '.tar.gz': 'targz', '.tgz': 'targz', '.tar.bz2': 'tarbz2',
               '.tbz2': 'tarbz2', '.7z': 'sevenz'}
EXTS_OF_KIND = {'zip': ['.zip'], 'tar': ['.tar'], 'targz': ['.tar.gz', '.tgz'], 'tarbz2': ['.tar.bz2', '.tbz2'],
                'sevenz': ['.7z']}
TARLIKE = ('tar', 'targz', 'tarbz2')

WORDS = ['héllo', 'wörld', 'Ærø', 'naïve', '日本語', 'テキスト', 'ab', 'x&y', 'a<b', 'q"r', "it's", 'ſ', 'Ω', '1º', 'de',
         'résumé', 'Straße', 'año', '—', 'fin']
DIRS = ['', 'a', 'a/b', 'pages', 'pages/deep/er', 'ünï', 'x y', 'a/b/c/d']


def doc_xml(spec: Dict[str, Any]) -> str:
    """a small valid PageXML document"""
    def esc(s):
        return s.replace('&', '&amp;').replace('<', '&lt;').replace('>', '&gt;').replace('"', '&quot;')
    lines = []
    for i, text in enumerate(spec['lines']):
        y = 10 + 40 * i
        lines.append(f'<TextLine id="l{i}"><Coords points="10,{y} 300,{y} 300,{y + 30} 10,{y + 30}"/>'
                     f'<Baseline points="10,{y + 25} 300,{y + 25}"/>'
                     f'<TextEquiv><Unicode>{esc(text)}</Unicode></TextEquiv></TextLine>')
    n = len(spec['lines'])
    region = (f'<TextRegion id="r0" custom="structure {{type:paragraph;}}"><Coords points="10,10 300,10 300,{40 * n + 10} '
              f'10,{40 * n + 10}"/>' + ''.join(lines) + '</TextRegion>') if n else ''
    return ('<?xml version="1.0" encoding="UTF-8"?>\n'
            '<PcGts xmlns="http://schema.primaresearch.org/PAGE/gts/pagecontent/2013-07-15">'
            f'<Metadata><Creator>{esc(spec.get("creator", "vérif"))}</Creator></Metadata>\n'
            f'<Page imageFilename="{esc(spec["id"])}.jpg" imageWidth="{spec["w"]}" imageHeight="{spec["h"]}">'
            + region + '</Page></PcGts>\n')


def rand_doc_spec(rng: random.Random, ident: str) -> Dict[str, Any]:
    n = rng.choice([0, 1, 1, 2, 3])
    return {'id': ident, 'w': rng.randint(1, 4000), 'h': rng.randint(1, 6000),
            'lines': [' '.join(rng.choice(WORDS) for _ in range(rng.randint(1, 4))) for _ in range(n)],
            'creator': rng.choice(WORDS)}


FAULT_KINDS = ['empty', 'notxml', 'trunc', 'notpage', 'nowidth', 'badpoints', 'badnum']


def faulty(kind: str, spec: Dict[str, Any]) -> str:
    """a member that is unreadable in the way `kind` names (the statement's list)"""
    spec = dict(spec)
    if not spec['lines']:
        spec['lines'] = ['ab']
    good = doc_xml(spec)
    if kind == 'empty':
        return ''
    if kind == 'notxml':
        return 'just sôme text, no markup'
    if kind == 'trunc':
        return good[:len(good) * 2 // 3]
    if kind == 'notpage':
        return '<?xml version="1.0" encoding="UTF-8"?><alto><Layout><Page ID="p"/></Layout></alto>'
    if kind == 'nowidth':
        return good.replace(f' imageWidth="{spec["w"]}"', '')
    if kind == 'badpoints':
        return good.replace('<Coords points="10,10 300,10', '<Coords points="10,1o 300,10', 1)
    if kind == 'badnum':
        return good.replace(f'imageWidth="{spec["w"]}"', 'imageWidth="12px"')
    raise ValueError(kind)


NONXML = [('txt', 'plain nötes\n'.encode('utf-8')), ('json', b'{"a": [1, 2]}'), ('jpg', b'\xff\xd8\xff\xe0\x00\x10JFIF\x00\x01'),
          ('dat', b''), ('txt', b''), ('csv', 'a;b\n1;2\n'.encode('utf-8')), ('bin', bytes(range(256))),
          ('md', b'# title & <not closed'), ('gz', b'\x1f\x8b\x08\x00junk'), ('bz2', b'BZh9junk')]


def hexs(b: bytes) -> str:
    return b.hex()


def sha(b: bytes) -> str:
    return hashlib.sha256(b).hexdigest()


# ---------------------------------------------------------------------------------------
# writing real containers
# ---------------------------------------------------------------------------------------

def _tar_bytes(kind: str, members: List[Dict[str, Any]], scratch: str) -> bytes:
    buf = io.BytesIO()
    mode = {'tar': 'w', 'targz': 'w:gz', 'tarbz2': 'w:bz2'}[kind]
    with tarfile.open(fileobj=buf, mode=mode, format=tarfile.PAX_FORMAT) as t:
        for m in members:
            if m['t'] == 'd':
                ti = tarfile.TarInfo(m['p'].rstrip('/'))
                ti.type = tarfile.DIRTYPE
                ti.mode = 0o755
                t.addfile(ti)
            else:
                data = member_bytes(m, scratch)
                ti = tarfile.TarInfo(m['p'])
                ti.size = len(data)
                t.addfile(ti, io.BytesIO(data))
    return buf.getvalue()


def _zip_bytes(members: List[Dict[str, Any]], scratch: str, compress: bool = True) -> bytes:
    buf = io.BytesIO()
    with zipfile.ZipFile(buf, 'w', zipfile.ZIP_DEFLATED if compress else zipfile.ZIP_STORED) as z:
        for m in members:
            if m['t'] == 'd':
                z.writestr(m['p'].rstrip('/') + '/', b'')
            else:
                z.writestr(m['p'], member_bytes(m, scratch))
    return buf.getvalue()


def _7z_bytes(members: List[Dict[str, Any]], scratch: str) -> bytes:
    """py7zr: members are written from files on disk (writestr of an empty member corrupts the next one)"""
    import py7zr
    src = os.path.join(scratch, f'src7z-{len(os.listdir(scratch))}')
    os.makedirs(src)
    out = os.path.join(src, 'out.7z')
    with py7zr.SevenZipFile(out, 'w') as z:
        for i, m in enumerate(members):
            p = os.path.join(src, f'm{i}')
            if m['t'] == 'd':
                os.makedirs(p)
                z.write(p, m['p'].rstrip('/'))
            else:
                with open(p, 'wb') as fh:
                    fh.write(member_bytes(m, scratch))
                z.write(p, m['p'])
    with open(out, 'rb') as fh:
        data = fh.read()
    shutil.rmtree(src)
    return data


def container_bytes(kind: str, members: List[Dict[str, Any]], scratch: str) -> bytes:
    if kind == 'zip':
        return _zip_bytes(members, scratch)
    if kind in TARLIKE:
        return _tar_bytes(kind, members, scratch)
    if kind == 'sevenz':
        return _7z_bytes(members, scratch)
    raise ValueError(kind)


def member_bytes(m: Dict[str, Any], scratch: str) -> bytes:
    """the bytes of a regular member; nested containers are built (and cached on the dict as '_raw')"""
    if m['t'] == 'f':
        return bytes.fromhex(m['d'])
    if m['t'] == 'n':
        if '_raw' not in m:
            m['_raw'] = container_bytes(m['k'], m['m'], scratch)
        return m['_raw']
    raise ValueError(m['t'])


def write_tree(root: str, members: List[Dict[str, Any]], scratch: str) -> None:
    """the members as a loose directory tree below `root`"""
    os.makedirs(root, exist_ok=True)
    for m in members:
        p = os.path.join(root, m['p'].rstrip('/'))
        if m['t'] == 'd':
            os.makedirs(p, exist_ok=True)
        else:
            os.makedirs(os.path.dirname(p), exist_ok=True)
            with open(p, 'wb') as fh:
                fh.write(member_bytes(m, scratch))


def strip_private(members: List[Dict[str, Any]]) -> List[Dict[str, Any]]:
    """member tree without the cached '_raw' bytes (for JSON)"""
    out = []
    for m in members:
        m2 = {k: v for k, v in m.items() if not k.startswith('_')}
        if m2['t'] == 'n':
            m2['m'] = strip_private(m2['m'])
        out.append(m2)
    return out


def model_members(members: List[Dict[str, Any]], scratch: str) -> List[Dict[str, Any]]:
    """member tree for the model driver: nested containers carry the SHA-256 of their bytes as `raw`
    (the model only ever passes content through)"""
    out = []
    for m in members:
        if m['t'] == 'n':
            out.append({'t': 'n', 'p': m['p'], 'k': m['k'], 'raw': sha(member_bytes(m, scratch)),
                        'm': model_members(m['m'], scratch)})
        elif m['t'] == 'f':
            out.append({'t': 'f', 'p': m['p'], 'd': m['d']})
        else:
            out.append({'t': 'd', 'p': m['p']})
    return out


# ---------------------------------------------------------------------------------------
# independent listing with the container libraries (the C12 oracle)
# ---------------------------------------------------------------------------------------

def _ext_kind(name: str) -> Optional[str]:
    base = name.replace('\\', '/').rsplit('/', 1)[-1]
    for ext in sorted(ACCEPTED_EXTS, key=len, reverse=True):
        if base.endswith(ext) and len(base) > len(ext):
            return KIND_OF_EXT[ext]
    return None


def lib_list(blob, kind: str, chain: List[str], expand: bool = True) -> List[Tuple[List[str], str, str, bytes]]:
    """(chain, base name, path, bytes) of every regular member, in the order the container library lists
    them; zip/tar members of zip/tar containers are opened in place (by extension)"""
    import py7zr
    out = []

    def visit(name: str, data: bytes):
        k = _ext_kind(name)
        if expand and kind != 'sevenz' and k is not None and k != 'sevenz':
            out.extend(lib_list(io.BytesIO(data), k, chain + [name]))
        else:
            out.append((chain, name.rsplit('/', 1)[-1], name, data))
    if kind == 'zip':
        with zipfile.ZipFile(blob) as z:
            for i in z.infolist():
                if not i.is_dir():
                    with z.open(i) as fh:
                        visit(i.filename, fh.read())
    elif kind in TARLIKE:
        with (tarfile.open(blob, mode='r:*') if isinstance(blob, str) else tarfile.open(fileobj=blob, mode='r:*')) as t:
            for i in t.getmembers():
                if i.isreg():
                    visit(i.name, t.extractfile(i).read())
    elif kind == 'sevenz':
        with py7zr.SevenZipFile(blob, 'r') as z:
            infos = [f for f in z.list() if not f.is_directory]
            data = z.readall()
            for f in infos:
                visit(f.filename, data[f.filename].read())
    else:
        raise ValueError(kind)
    return out


# ---------------------------------------------------------------------------------------
# random member trees
# ---------------------------------------------------------------------------------------

def rand_members(rng: random.Random, depth: int, allow_7z_inside: bool, n_max: int = 6,
                 in_kind: str = 'zip', counter: List[int] = None, n_min: int = 0) -> List[Dict[str, Any]]:
    """distinct paths; documents, non-XML members, empty members, directory entries, non-ASCII names and
    content; nested zip/tar containers while depth > 0"""
    counter = counter if counter is not None else [0]
    out: List[Dict[str, Any]] = []
    used = set()
    dirs_made = set()
    for _ in range(rng.randint(n_min, n_max)):
        counter[0] += 1
        d = rng.choice(DIRS)
        r = rng.random()
        if d and d not in dirs_made and rng.random() < 0.5:
            dirs_made.add(d)
            out.append({'t': 'd', 'p': d + '/'})
        pre = d + '/' if d else ''
        if r < 0.45:
            name = f'{pre}doc{counter[0]}.xml'
            body = doc_xml(rand_doc_spec(rng, f'scan{counter[0]}')).encode('utf-8')
            m = {'t': 'f', 'p': name, 'd': hexs(body)}
        elif r < 0.55:
            m = {'t': 'f', 'p': f'{pre}e{counter[0]}.xml', 'd': ''}
        elif r < 0.8 or depth <= 0:
            ext, body = rng.choice(NONXML)
            stem = rng.choice(['n', 'nöt', 'x.tar', 'a.b', '.hidden', 'zip', 'tar.gz', 'avatar', 'x.zip', 'x.tgz', 'tar'])
            name = rng.choice([f'{pre}{stem}{counter[0]}.{ext}', f'{pre}{counter[0]}{stem}.{ext}'])
            if _ext_kind(name) is not None:      # a plain file of the statement does not carry an archive extension
                name = f'{pre}{stem}{counter[0]}.{ext}.bak'
            m = {'t': 'f', 'p': name, 'd': hexs(body)}
        else:
            kinds = ['zip', 'tar', 'targz', 'tarbz2'] + (['sevenz'] if allow_7z_inside else [])
            k = rng.choice(kinds)
            ext = rng.choice(EXTS_OF_KIND[k])
            stem = rng.choice(['in', 'ïn', 'v1.2', 'x.tar', 'a b'])
            m = {'t': 'n', 'p': f'{pre}{stem}{counter[0]}{ext}', 'k': k,
                 'm': rand_members(rng, depth - 1, allow_7z_inside, 4, k, counter)}
        if m['p'] in used:
            continue
        used.add(m['p'])
        out.append(m)
    if in_kind in ('tar', 'targz', 'tarbz2') and out and rng.random() < 0.2:
        # member names as `tar -cf x.tar -C dir .` stores them ('./dir/file'), or with a doubled separator: the
        # full archived path of a member is the name stored in the archive, not a normalised form of it
        style = rng.choice(['dot', 'dot', 'dslash'])
        for m in out:
            if style == 'dot':
                m['p'] = './' + m['p']
            elif '/' in m['p'].rstrip('/'):
                head, _, tail = m['p'].partition('/')
                m['p'] = head + '//' + tail
    if in_kind == 'sevenz':
        # py7zr lists files only; keep directory entries but no two entries with the same archive name
        seen = set()
        out = [m for m in out if not (m['p'].rstrip('/') in seen or seen.add(m['p'].rstrip('/')))]
    return out
