"""Constant propagation and literal folding on a module's AST, applied before the translators read it.

The translators (harness/translate.py, translate_archives.py, props/c07_translate.py, props/c11.py …) recognise
SHAPES of the source: a literal default, a literal set in a membership test, a pattern string handed to `re.search`.
Everyday refactorings that keep the behaviour — a literal hoisted into a module-level named constant, a set written
as the union of two named sets, a string built with an f-string from named parts, a list default copied with
`list(CONST)`, a regular expression compiled once at module level — change those shapes although the function
computes what it computed.  `normalise(tree)` undoes exactly these, and nothing else, so that the translators see
the literal again:

  * a module-level name bound ONCE, at the top level of the module, to a literal expression, and bound nowhere else
    in the module in any way (no other assignment, augmented assignment, deletion, `global`, parameter, loop /
    comprehension / with / except target, import alias, def or class of that name), is a constant;
  * an IMMUTABLE constant (str, bytes, number, bool, None, a tuple of those, `frozenset(...)` of those) is replaced
    by its value wherever it is loaded;
  * a MUTABLE constant (list, set, dict of literals) is replaced only where the occurrence cannot alias or mutate it:
    right operand of `in` / `not in`, operand of a binary operator, argument of list / set / tuple / frozenset /
    sorted / len, receiver of `.copy()`, iterable of a for loop or comprehension — and only if the module never
    calls a mutating method on the name, never stores to a subscript of it and never augments it.  Everywhere else
    (e.g. `self.headers = CONST`, where a later `.extend` would change the constant itself) the name is LEFT AS IT
    IS, so a translator that expects a literal there still reports the shape as unknown;
  * `[x for x in it]` is read as `list(it)`;
  * literal expressions are folded: `{…} | {…}`, `[…] + […]`, `'a' + 'b'`, f-strings / `%` / `.format` of
    literals, `list(<literal>)`, `set(…)`, `tuple(…)`, `sorted(<literal of strings>)`, `<literal>.copy()`;
  * `T = helper(a, b)` where the module-level helper only builds a fresh value from literals under call-free tests
    of its parameters (`v = [...]; if p is True: v.extend([...]); return v`) is read as those statements with `v`
    renamed to T (a plain name or attribute chain) and the parameters to the arguments (plain names / attribute
    chains): nothing in such a body can raise or be observed half-way, so building the value in place is the same;
  * `NAME.search(x)` (match, fullmatch, findall, finditer, sub, subn, split) on a constant
    `NAME = re.compile(<string literal>)` without flags becomes `re.search(<string literal>, x)`.

Each rewrite preserves the meaning of the module under the stated conditions (which are checked on the AST, not
assumed); what is NOT checked is recorded in the trusted base: no other module rebinds or mutates the constant
through the module object, and no code reaches it through `globals()` / `setattr`.
"""
from __future__ import annotations

import ast
import copy
from typing import Dict, Optional, Set

MUTATORS = {'append', 'extend', 'insert', 'remove', 'pop', 'clear', 'sort', 'reverse', 'add', 'discard', 'update',
            'intersection_update', 'difference_update', 'symmetric_difference_update', 'setdefault', 'popitem',
            '__setitem__', '__delitem__', '__iadd__', '__ior__'}
SAFE_CALLS = {'list', 'set', 'tuple', 'frozenset', 'sorted', 'len'}
RE_METHODS = {'search', 'match', 'fullmatch', 'findall', 'finditer', 'sub', 'subn', 'split'}
_IMMUTABLE_SCALARS = (str, bytes, int, float, complex, bool, type(None))


def _is_immutable_literal(node: ast.AST) -> bool:
    if isinstance(node, ast.Constant):
        return isinstance(node.value, _IMMUTABLE_SCALARS)
    if isinstance(node, ast.UnaryOp) and isinstance(node.op, (ast.USub, ast.UAdd)):
        return _is_immutable_literal(node.operand)
    if isinstance(node, ast.Tuple):
        return all(_is_immutable_literal(e) for e in node.elts)
    if isinstance(node, ast.Call) and isinstance(node.func, ast.Name) and node.func.id == 'frozenset' \
            and len(node.args) == 1 and not node.keywords and _is_literal(node.args[0]):
        return True
    return False


def _is_literal(node: ast.AST) -> bool:
    if _is_immutable_literal(node):
        return True
    if isinstance(node, (ast.List, ast.Set, ast.Tuple)):
        return all(_is_literal(e) for e in node.elts)
    if isinstance(node, ast.Dict):
        return all(k is not None and _is_literal(k) for k in node.keys) and all(_is_literal(v) for v in node.values)
    return False


def _value_node(v, like: ast.AST) -> ast.AST:
    """an AST literal for the Python value v (str / number / list / tuple of such), located at `like`"""
    n = ast.parse(repr(v), mode='eval').body
    for x in ast.walk(n):
        ast.copy_location(x, like)
    return n


def _fold(node: ast.AST, builtins_ok: bool = True) -> ast.AST:
    """fold one node whose children are already folded; returns the node itself when no rule applies"""
    try:
        if isinstance(node, ast.BinOp):
            l, r = node.left, node.right
            if isinstance(node.op, ast.BitOr) and isinstance(l, ast.Set) and isinstance(r, ast.Set) \
                    and _is_literal(l) and _is_literal(r):
                seen, elts = set(), []
                for e in l.elts + r.elts:
                    k = ast.dump(e)
                    if k not in seen:
                        seen.add(k)
                        elts.append(e)
                return ast.copy_location(ast.Set(elts=elts), node)
            if isinstance(node.op, ast.Add) and isinstance(l, ast.List) and isinstance(r, ast.List):
                return ast.copy_location(ast.List(elts=l.elts + r.elts, ctx=ast.Load()), node)
            if isinstance(node.op, ast.Add) and isinstance(l, ast.Tuple) and isinstance(r, ast.Tuple):
                return ast.copy_location(ast.Tuple(elts=l.elts + r.elts, ctx=ast.Load()), node)
            if isinstance(node.op, ast.Add) and isinstance(l, ast.Constant) and isinstance(r, ast.Constant) \
                    and type(l.value) is type(r.value) and isinstance(l.value, (str, bytes)):
                return ast.copy_location(ast.Constant(value=l.value + r.value), node)
            if isinstance(node.op, ast.Mod) and isinstance(l, ast.Constant) and isinstance(l.value, str) \
                    and _is_immutable_literal(r):
                return ast.copy_location(ast.Constant(value=l.value % ast.literal_eval(r)), node)
        if builtins_ok and isinstance(node, ast.ListComp) and len(node.generators) == 1:
            g = node.generators[0]
            if not g.ifs and not g.is_async and isinstance(g.target, ast.Name) and isinstance(node.elt, ast.Name) \
                    and node.elt.id == g.target.id:
                # `[x for x in it]` is `list(it)`
                new = ast.Call(func=ast.Name(id='list', ctx=ast.Load()), args=[g.iter], keywords=[])
                ast.copy_location(new.func, node)
                return _fold(ast.copy_location(new, node))
        if isinstance(node, ast.JoinedStr):
            parts = []
            for v in node.values:
                if isinstance(v, ast.Constant) and isinstance(v.value, str):
                    parts.append(v.value)
                elif isinstance(v, ast.FormattedValue) and v.conversion == -1 and v.format_spec is None \
                        and isinstance(v.value, ast.Constant) and isinstance(v.value.value, (str, int)) \
                        and not isinstance(v.value.value, bool):
                    parts.append(format(v.value.value))
                else:
                    return node
            return ast.copy_location(ast.Constant(value=''.join(parts)), node)
        if isinstance(node, ast.Call) and not node.keywords:
            f = node.func
            if builtins_ok and isinstance(f, ast.Name) and f.id in ('list', 'set', 'tuple', 'sorted') and len(node.args) == 1 \
                    and isinstance(node.args[0], (ast.List, ast.Tuple, ast.Set)) and _is_literal(node.args[0]):
                a = node.args[0]
                if f.id == 'list' and not isinstance(a, ast.Set):
                    return ast.copy_location(ast.List(elts=list(a.elts), ctx=ast.Load()), node)
                if f.id == 'tuple' and not isinstance(a, ast.Set):
                    return ast.copy_location(ast.Tuple(elts=list(a.elts), ctx=ast.Load()), node)
                if f.id == 'set':
                    seen, elts = set(), []
                    for e in a.elts:
                        if ast.dump(e) not in seen:
                            seen.add(ast.dump(e))
                            elts.append(e)
                    return ast.copy_location(ast.Set(elts=elts), node) if elts else node
                if f.id == 'sorted':
                    vals = ast.literal_eval(a)
                    if all(isinstance(v, str) for v in vals):
                        return _value_node(sorted(vals), node)
            if isinstance(f, ast.Attribute) and f.attr == 'copy' and not node.args \
                    and isinstance(f.value, (ast.List, ast.Set, ast.Dict)) and _is_literal(f.value):
                return f.value
            if isinstance(f, ast.Attribute) and f.attr == 'format' and isinstance(f.value, ast.Constant) \
                    and isinstance(f.value.value, str) and all(_is_immutable_literal(a) for a in node.args):
                return ast.copy_location(
                    ast.Constant(value=f.value.value.format(*[ast.literal_eval(a) for a in node.args])), node)
    except Exception:       # anything unexpected: leave the node as it is (the translator then judges the shape)
        return node
    return node


class _Folder(ast.NodeTransformer):
    #: False when the module binds one of the builtin names the folding rules rely on (list, set, tuple, sorted, …)
    builtins_ok = True

    def generic_visit(self, node):
        node = super().generic_visit(node)
        return _fold(node, self.builtins_ok)


def _other_bindings(tree: ast.Module, top: Dict[str, ast.stmt]) -> Set[str]:
    """names of `top` that are bound anywhere else in the module in any way"""
    bad: Set[str] = set()
    defining_targets = {id(st.targets[0]) if isinstance(st, ast.Assign) else id(st.target) for st in top.values()}
    for n in ast.walk(tree):
        if isinstance(n, ast.Name) and isinstance(n.ctx, (ast.Store, ast.Del)) and id(n) not in defining_targets:
            bad.add(n.id)
        elif isinstance(n, (ast.FunctionDef, ast.AsyncFunctionDef, ast.ClassDef)):
            bad.add(n.name)
            if not isinstance(n, ast.ClassDef):
                a = n.args
                for p in a.posonlyargs + a.args + a.kwonlyargs + [x for x in (a.vararg, a.kwarg) if x]:
                    bad.add(p.arg)
        elif isinstance(n, ast.Lambda):
            a = n.args
            for p in a.posonlyargs + a.args + a.kwonlyargs + [x for x in (a.vararg, a.kwarg) if x]:
                bad.add(p.arg)
        elif isinstance(n, (ast.Global, ast.Nonlocal)):
            bad.update(n.names)
        elif isinstance(n, ast.alias):
            bad.add((n.asname or n.name).split('.')[0])
        elif isinstance(n, ast.ExceptHandler) and n.name:
            bad.add(n.name)
        elif isinstance(n, ast.MatchAs) and getattr(n, 'name', None):
            bad.add(n.name)
    return bad


def _mutated(tree: ast.Module) -> Set[str]:
    bad: Set[str] = set()
    for n in ast.walk(tree):
        if isinstance(n, ast.Attribute) and isinstance(n.value, ast.Name) and n.attr in MUTATORS:
            bad.add(n.value.id)
        elif isinstance(n, ast.Subscript) and isinstance(n.value, ast.Name) and isinstance(n.ctx, (ast.Store, ast.Del)):
            bad.add(n.value.id)
        elif isinstance(n, ast.AugAssign):
            t = n.target
            while isinstance(t, (ast.Subscript, ast.Attribute)):
                t = t.value
            if isinstance(t, ast.Name):
                bad.add(t.id)
    return bad


def _safe_occurrences(root: ast.AST, name: str) -> Set[int]:
    """ids of the Name-load nodes of `name` under `root` that stand where the object can be neither aliased nor
    mutated: argument of isinstance / len / list / set / tuple / frozenset / sorted, iterable of a for loop or
    comprehension, right operand of `in` / `not in`, operand of a binary operator"""
    ok: Set[int] = set()

    def mark(n):
        if isinstance(n, ast.Name) and n.id == name and isinstance(n.ctx, ast.Load):
            ok.add(id(n))
    for n in ast.walk(root):
        if isinstance(n, ast.Call) and isinstance(n.func, ast.Name) and n.func.id in SAFE_CALLS | {'isinstance'} \
                and not n.keywords:
            for a in n.args:
                mark(a)
        elif isinstance(n, (ast.For, ast.comprehension)):
            mark(n.iter)
        elif isinstance(n, ast.Compare):
            for op, c in zip(n.ops, n.comparators):
                if isinstance(op, (ast.In, ast.NotIn)):
                    mark(c)
        elif isinstance(n, ast.BinOp):
            mark(n.left)
            mark(n.right)
    return ok


def _builds_fresh_result_only(fn: ast.FunctionDef) -> bool:
    """the function cannot change or keep any object it is given: it calls nothing but isinstance and the safe
    constructors, stores to no attribute or subscript, augments nothing, declares no global, and every value it
    returns is built on the spot (comprehension, binary operation, constant, safe constructor call)"""
    for n in ast.walk(fn):
        if isinstance(n, ast.Call):
            if not (isinstance(n.func, ast.Name) and n.func.id in SAFE_CALLS | {'isinstance', 'str', 'int'}):
                return False
        elif isinstance(n, (ast.AugAssign, ast.Global, ast.Nonlocal, ast.Yield, ast.YieldFrom, ast.Lambda, ast.Delete)):
            return False
        elif isinstance(n, (ast.Attribute, ast.Subscript)) and isinstance(n.ctx, (ast.Store, ast.Del)):
            return False
        elif isinstance(n, (ast.FunctionDef, ast.ClassDef)) and n is not fn:
            return False
        elif isinstance(n, ast.Return):
            v = n.value
            if not (v is None or isinstance(v, (ast.ListComp, ast.SetComp, ast.DictComp, ast.BinOp, ast.Constant,
                                                 ast.Compare, ast.BoolOp))
                    or (isinstance(v, ast.Call) and isinstance(v.func, ast.Name) and v.func.id in SAFE_CALLS)):
                return False
    return True


def _readonly_params(tree: ast.Module) -> Dict[str, Set[int]]:
    """{module-level function name: positions of the positional parameters the function only READS} — every
    occurrence of the parameter in the body is a safe occurrence and the parameter is never rebound"""
    out: Dict[str, Set[int]] = {}
    defs: Dict[str, list] = {}
    for st in tree.body:
        if isinstance(st, ast.FunctionDef):
            defs.setdefault(st.name, []).append(st)
    for name, fns in defs.items():
        if len(fns) != 1:
            continue
        fn = fns[0]
        a = fn.args
        if a.vararg or a.kwarg or a.posonlyargs or fn.decorator_list:
            continue
        good: Set[int] = set()
        if _builds_fresh_result_only(fn):
            out[name] = set(range(len(a.args)))
            continue
        for i, p in enumerate(a.args):
            occ = [n for n in ast.walk(fn) if isinstance(n, ast.Name) and n.id == p.arg]
            # rebinding the parameter (`tags = [tags]`) does not touch the object passed in; `tags += …` and `del` do
            if any(isinstance(n, ast.AugAssign) and isinstance(n.target, ast.Name) and n.target.id == p.arg
                   for n in ast.walk(fn)) or any(isinstance(n.ctx, ast.Del) for n in occ):
                continue
            occ = [n for n in occ if isinstance(n.ctx, ast.Load)]
            safe = _safe_occurrences(fn, p.arg)
            if all(id(n) in safe for n in occ):
                good.add(i)
        out[name] = good
    return out


def _compiled_pattern(node: ast.AST) -> Optional[ast.Constant]:
    if isinstance(node, ast.Call) and isinstance(node.func, ast.Attribute) and node.func.attr == 'compile' \
            and isinstance(node.func.value, ast.Name) and node.func.value.id == 're' and len(node.args) == 1 \
            and not node.keywords and isinstance(node.args[0], ast.Constant) and isinstance(node.args[0].value, str):
        return node.args[0]
    return None


class _Propagate(ast.NodeTransformer):
    def __init__(self, immut: Dict[str, ast.AST], mut: Dict[str, ast.AST], pats: Dict[str, ast.Constant],
                 readonly: Optional[Dict[str, Set[int]]] = None):
        self.immut, self.mut, self.pats, self.readonly = immut, mut, pats, readonly or {}

    def _val(self, name: str, like: ast.AST, allow_mut: bool) -> Optional[ast.AST]:
        src = self.immut.get(name)
        if src is None and allow_mut:
            src = self.mut.get(name)
        if src is None:
            return None
        n = copy.deepcopy(src)
        for x in ast.walk(n):
            ast.copy_location(x, like)
        return n

    def _safe(self, node: ast.AST) -> ast.AST:
        """a position where a mutable constant may be replaced by a fresh literal"""
        if isinstance(node, ast.Name) and isinstance(node.ctx, ast.Load):
            v = self._val(node.id, node, True)
            return v if v is not None else node
        return self.visit(node)

    def visit_Name(self, node: ast.Name):
        if isinstance(node.ctx, ast.Load):
            v = self._val(node.id, node, False)
            if v is not None:
                return v
        return node

    def visit_Compare(self, node: ast.Compare):
        node.left = self.visit(node.left)
        node.comparators = [self._safe(c) if isinstance(op, (ast.In, ast.NotIn)) else self.visit(c)
                            for op, c in zip(node.ops, node.comparators)]
        return node

    def visit_BinOp(self, node: ast.BinOp):
        node.left = self._safe(node.left)
        node.right = self._safe(node.right)
        return node

    def visit_For(self, node: ast.For):
        node.iter = self._safe(node.iter)
        node.target = self.visit(node.target)
        node.body = [self.visit(s) for s in node.body]
        node.orelse = [self.visit(s) for s in node.orelse]
        return node

    def visit_comprehension(self, node: ast.comprehension):
        node.iter = self._safe(node.iter)
        node.target = self.visit(node.target)
        node.ifs = [self.visit(i) for i in node.ifs]
        return node

    def visit_Call(self, node: ast.Call):
        f = node.func
        if isinstance(f, ast.Name) and f.id in SAFE_CALLS and not node.keywords:
            node.args = [self._safe(a) for a in node.args]
            return node
        if isinstance(f, ast.Name) and f.id in self.readonly and not node.keywords \
                and not any(isinstance(a, ast.Starred) for a in node.args):
            # a module-level function that only reads that parameter (see _readonly_params)
            node.args = [self._safe(a) if i in self.readonly[f.id] else self.visit(a) for i, a in enumerate(node.args)]
            return node
        if isinstance(f, ast.Attribute) and isinstance(f.value, ast.Name) and isinstance(f.value.ctx, ast.Load):
            if f.attr == 'copy' and not node.args and not node.keywords and f.value.id in self.mut:
                return self._val(f.value.id, node, True)
            if f.attr in RE_METHODS and f.value.id in self.pats:
                pat = copy.deepcopy(self.pats[f.value.id])
                ast.copy_location(pat, node)
                new = ast.Call(func=ast.Attribute(value=ast.Name(id='re', ctx=ast.Load()), attr=f.attr, ctx=ast.Load()),
                               args=[pat] + [self.visit(a) for a in node.args],
                               keywords=[self.visit(k) for k in node.keywords])
                for x in ast.walk(new):
                    if not hasattr(x, 'lineno'):
                        ast.copy_location(x, node)
                return ast.copy_location(new, node)
        return self.generic_visit(node)


# ---------------------------------------------------------------------------------------------------------
# a value built by a tiny helper: `T = helper(a, b)` where the helper builds a fresh value from literals
# ---------------------------------------------------------------------------------------------------------

def _pure_read(node: ast.AST) -> bool:
    """a plain name or an attribute chain on a plain name, loaded"""
    while isinstance(node, ast.Attribute):
        node = node.value
    return isinstance(node, ast.Name)


def _call_free(node: ast.AST) -> bool:
    return not any(isinstance(n, (ast.Call, ast.Await, ast.Yield, ast.YieldFrom, ast.NamedExpr, ast.Lambda))
                   for n in ast.walk(node))


def _builder_body(fn: ast.FunctionDef):
    """(local name, statements without the final return) when the helper has the shape
         v = <literal display>;  [if <call-free test>:]  v.<method>(<literals>) …;  return v
       — it builds a fresh value from literals under tests of its parameters and cannot raise or be observed half-way;
       None otherwise"""
    a = fn.args
    if a.vararg or a.kwarg or a.kwonlyargs or a.posonlyargs or a.defaults or fn.decorator_list:
        return None
    body = [b for b in fn.body if not (isinstance(b, ast.Expr) and isinstance(b.value, ast.Constant))]
    if len(body) < 2 or not isinstance(body[-1], ast.Return) or not isinstance(body[-1].value, ast.Name):
        return None
    v = body[-1].value.id
    if v in {p.arg for p in a.args}:
        return None
    first = body[0]
    if not (isinstance(first, ast.Assign) and len(first.targets) == 1 and isinstance(first.targets[0], ast.Name)
            and first.targets[0].id == v and isinstance(first.value, (ast.List, ast.Set, ast.Dict)) and _is_literal(first.value)):
        return None

    def grow(st) -> bool:
        return (isinstance(st, ast.Expr) and isinstance(st.value, ast.Call) and isinstance(st.value.func, ast.Attribute)
                and isinstance(st.value.func.value, ast.Name) and st.value.func.value.id == v
                and st.value.func.attr in ('extend', 'append', 'add', 'update') and not st.value.keywords
                and all(_is_literal(x) for x in st.value.args))
    for st in body[1:-1]:
        if grow(st):
            continue
        if isinstance(st, ast.If) and not st.orelse and _call_free(st.test) and all(grow(x) for x in st.body) \
                and not any(isinstance(n, ast.Name) and n.id == v for n in ast.walk(st.test)):
            continue
        return None
    return v, body[:-1]


class _Subst(ast.NodeTransformer):
    def __init__(self, m: Dict[str, ast.AST]):
        self.m = m

    def visit_Name(self, node: ast.Name):
        if node.id in self.m:
            new = copy.deepcopy(self.m[node.id])
            if hasattr(new, 'ctx'):
                new.ctx = node.ctx.__class__()
            return ast.copy_location(new, node)
        return node


def _inline_builders(tree: ast.Module) -> None:
    """in place: `T = helper(x, y)` -> the helper's statements with its local renamed to T and its parameters to the
    arguments, for helpers of the `_builder_body` shape, T and the arguments being plain names / attribute chains"""
    helpers: Dict[str, list] = {}
    for st in tree.body:
        if isinstance(st, ast.FunctionDef):
            helpers.setdefault(st.name, []).append(st)
    shapes = {}
    for name, fns in helpers.items():
        if len(fns) == 1:
            b = _builder_body(fns[0])
            if b is not None:
                shapes[name] = (fns[0], b)
    if not shapes:
        return
    scaled = [False]

    def expand(stmts):
        out = []
        for st in stmts:
            for field in ('body', 'orelse', 'finalbody'):
                if isinstance(getattr(st, field, None), list) and not isinstance(st, (ast.FunctionDef, ast.ClassDef)):
                    setattr(st, field, expand(getattr(st, field)))
            if isinstance(st, ast.Try):
                for h in st.handlers:
                    h.body = expand(h.body)
            if (isinstance(st, ast.Assign) and len(st.targets) == 1 and _pure_read(st.targets[0])
                    and isinstance(st.value, ast.Call) and isinstance(st.value.func, ast.Name)
                    and st.value.func.id in shapes and not st.value.keywords
                    and all(_pure_read(x) for x in st.value.args)):
                fn, (v, body) = shapes[st.value.func.id]
                # the helper's name must mean the helper (bound once, as a def) and the arity must fit
                if len(st.value.args) == len(fn.args.args) and \
                        sum(1 for n in ast.walk(tree) if isinstance(n, ast.FunctionDef) and n.name == fn.name) == 1:
                    m = {p.arg: x for p, x in zip(fn.args.args, st.value.args)}
                    m[v] = st.targets[0]
                    new = [_Subst(m).visit(copy.deepcopy(b)) for b in body]
                    if not scaled[0]:
                        # line numbers keep the order of the statements (some extractors compare them): every line
                        # number of the module is multiplied by 1000, the statements put in place get L, L+1, …
                        for x in ast.walk(tree):
                            for attr in ('lineno', 'end_lineno'):
                                if isinstance(getattr(x, attr, None), int):
                                    setattr(x, attr, getattr(x, attr) * 1000)
                        scaled[0] = True
                    for i, b in enumerate(new):
                        for x in ast.walk(b):
                            ast.copy_location(x, st)
                            x.lineno = st.lineno + i
                            x.end_lineno = st.lineno + i
                    out.extend(new)
                    continue
            out.append(st)
        return out
    for n in ast.walk(tree):
        if isinstance(n, (ast.FunctionDef, ast.AsyncFunctionDef)) and n.name not in shapes:
            n.body = expand(n.body)


def normalise(tree: ast.Module, keep=()) -> ast.Module:
    """see the module docstring; returns a new tree, the argument is not modified.  `keep`: constant names a
    translator recognises BY NAME (e.g. `PAGE` in `tag.replace(PAGE, '')`): they are left in place."""
    tree = copy.deepcopy(tree)
    try:
        top: Dict[str, ast.stmt] = {}
        twice: Set[str] = set()
        for st in tree.body:
            name = None
            if isinstance(st, ast.Assign) and len(st.targets) == 1 and isinstance(st.targets[0], ast.Name):
                name = st.targets[0].id
            elif isinstance(st, ast.AnnAssign) and isinstance(st.target, ast.Name) and st.value is not None:
                name = st.target.id
            if name is not None:
                if name in top:
                    twice.add(name)
                top[name] = st
        for n in list(twice) + list(keep):
            top.pop(n, None)
        for n in _other_bindings(tree, top):
            top.pop(n, None)
        mutated = _mutated(tree)
        _Folder.builtins_ok = not (_other_bindings(tree, {}) & (SAFE_CALLS | {'isinstance', 'str', 'int', 'format'}))
        readonly = {k: v for k, v in _readonly_params(tree).items()
                    if k not in _other_bindings(tree, {}) - {k}}
        immut: Dict[str, ast.AST] = {}
        mut: Dict[str, ast.AST] = {}
        pats: Dict[str, ast.Constant] = {}
        # resolve in source order, a few rounds so that constants defined from earlier constants resolve too
        for _ in range(4):
            prop = _Propagate(immut, mut, pats, readonly)
            for name, st in top.items():
                if name in immut or name in mut or name in pats:
                    continue
                v = _Folder().visit(prop.visit(copy.deepcopy(st.value)))
                p = _compiled_pattern(v)
                if p is not None:
                    pats[name] = p
                elif _is_immutable_literal(v):
                    immut[name] = v
                elif _is_literal(v) and name not in mutated:
                    mut[name] = v
        # `re` must be the standard module for the compiled-pattern rewrite: imported plainly, never rebound
        re_plain = any(isinstance(n, ast.Import) and any(a.name == 're' and a.asname is None for a in n.names)
                       for n in tree.body)
        re_rebound = any(isinstance(n, ast.Name) and n.id == 're' and isinstance(n.ctx, (ast.Store, ast.Del))
                         for n in ast.walk(tree))
        if not re_plain or re_rebound:
            pats = {}
        new = _Propagate(immut, mut, pats, readonly).visit(tree)
        new = _Folder().visit(new)
        try:
            _inline_builders(new)
        except Exception:
            pass
        ast.fix_missing_locations(new)
        env = (immut, mut, pats, readonly)
        for x in ast.walk(new):         # so that a template can be read the way the node it is matched with was read
            x._astnorm_env = env
        return new
    except Exception:       # the normaliser must never be the reason a translator fails: fall back to the source as it is
        return tree


def norm_like(node, template: ast.AST) -> ast.AST:
    """the template expression read the way `node` (a node, or list of nodes, of a normalised tree) was read: the
    module's constants the template mentions BY NAME are replaced by their values in the template as well, so that
    `x + _SMALL` in a template still matches the source expression in which `_SMALL` has been propagated"""
    if isinstance(node, list):
        node = node[0] if node else None
    env = getattr(node, '_astnorm_env', None)
    if env is None:
        return template
    try:
        t = _Folder().visit(_Propagate(*env).visit(copy.deepcopy(template)))
        ast.fix_missing_locations(t)
        return t
    except Exception:
        return template
