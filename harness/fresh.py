"""Answers of the real code computed in a PRISTINE interpreter state (wave 4, histories).

The statements demand that an answer does not depend on what the process did before ("in any order and any number
of times"; module-level or default-argument state must not leak between calls).  Inside the harness process every
case runs after thousands of others, so "before" is not available there any more.  `FreshWorker` keeps a second
interpreter that has IMPORTED the library (from the same tree: PYTHONPATH is inherited) and never CALLED it; every
request is answered by a `fork` of that pristine process, which computes one answer and exits.  The answer of a
request therefore never depends on any other request — it is "the same call at the start of a process".

    worker = FreshWorker('harness.props.c16', 'fresh_answer', preload=['pagexml.helper.pagexml_helper'])
    worker.ask(payload) -> {'ok': <JSON value of fresh_answer(payload)>} | {'worker_err': '...'}

`worker_err` is an infrastructure remark (no baseline available), never a finding; exceptions of the real code are
to be caught by the function itself (core.call) and returned as values.
"""
from __future__ import annotations

import atexit
import json
import os
import select
import subprocess
import sys
from typing import Any, Dict, List

VERIF = os.path.dirname(os.path.dirname(os.path.abspath(__file__)))

_BOOT = r'''
import importlib, json, os, sys
sys.path.insert(0, sys.argv[1])
out = os.fdopen(os.dup(1), 'w', encoding='utf-8')
os.dup2(2, 1)                      # whatever the library prints goes to stderr, never into the protocol
for m in json.loads(sys.argv[4]):
    importlib.import_module(m)
f = getattr(importlib.import_module(sys.argv[2]), sys.argv[3])
out.write('ready\n'); out.flush()
for line in sys.stdin:
    pid = os.fork()
    if pid == 0:
        try:
            r = {'ok': f(json.loads(line))}
        except BaseException as e:      # noqa
            r = {'worker_err': f'{type(e).__name__}: {e}'}
        try:
            out.write(json.dumps(r) + '\n'); out.flush()
        finally:
            os._exit(0)
    _, status = os.waitpid(pid, 0)
    if status != 0:
        out.write(json.dumps({'worker_err': f'child exit status {status}'}) + '\n'); out.flush()
'''


class FreshWorker:
    def __init__(self, module: str, func: str, preload: List[str] = (), timeout: float = 120.0):
        self.module, self.func, self.preload, self.timeout = module, func, list(preload), timeout
        self.p = None
        self.asked = 0
        self.failed = 0

    def _start(self):
        self.p = subprocess.Popen([sys.executable, '-c', _BOOT, VERIF, self.module, self.func, json.dumps(self.preload)],
                                  stdin=subprocess.PIPE, stdout=subprocess.PIPE, stderr=subprocess.DEVNULL,
                                  cwd=VERIF, env=dict(os.environ))
        atexit.register(self.close)
        line = self._readline()
        if line.strip() != 'ready':
            self.close()
            raise RuntimeError(f'fresh worker did not start: {line[:200]!r}')

    def _readline(self) -> str:
        r, _, _ = select.select([self.p.stdout], [], [], self.timeout)
        if not r:
            raise RuntimeError('fresh worker timed out')
        return self.p.stdout.readline().decode('utf-8')

    def ask(self, payload: Any) -> Dict[str, Any]:
        self.asked += 1
        try:
            if self.p is None or self.p.poll() is not None:
                self._start()
            self.p.stdin.write((json.dumps(payload) + '\n').encode('utf-8'))
            self.p.stdin.flush()
            line = self._readline()
            if not line:
                raise RuntimeError('fresh worker closed its output')
            return json.loads(line)
        except Exception as e:  # noqa — no baseline for this request; the worker is restarted at the next one
            self.failed += 1
            self.close()
            return {'worker_err': f'{type(e).__name__}: {e}'}

    def close(self):
        p, self.p = self.p, None
        if p is not None:
            try:
                p.stdin.close()
            except Exception:  # noqa
                pass
            try:
                p.terminate()
                p.wait(timeout=5)
            except Exception:  # noqa
                pass
