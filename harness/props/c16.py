"""C16 — Running text keeps every character and maps it back to its line."""
from __future__ import annotations

import hashlib
import itertools
import random
import re
from typing import Any, Dict, Iterable, List, Optional
from unittest import mock

from harness.core import Case, Check, Finding, call, canon, short
from harness.guard import guarded
from harness.fresh import FreshWorker
from harness.props.c17 import (ALPHA, BREAK_SETS, DEFAULT_POOL, class_table, eff_B, enum_strings, export_detector,
                               gen_corpus, generated_c17, make_detector, rand_line, random_tables, wbc_kw)


def _real():
    import pagexml.model.physical_document_model as pdm
    from pagexml.helper import pagexml_helper, text_helper
    from pagexml.analysis import text_stats
    return pdm, pagexml_helper, text_helper, text_stats


# ---------------------------------------------------------------------------------------
# constants regenerated from the source (read with `ast` on every run, never imported)
# ---------------------------------------------------------------------------------------

PH = 'pagexml/helper/pagexml_helper.py'


def generated_c16() -> Dict[str, str]:
    """Generated/C16.lean: the „ literals of make_text_region_text, the blanks of make_line_text, the hyphen
    and the PMI threshold of line_ends_with_word_break, and the defaults of make_line_text,
    make_text_region_text and merge_lines"""
    from harness import translate as tr
    from fractions import Fraction
    E = tr.TranslateError
    fn = 'make_text_region_text'
    q_strip = tr.one_char(tr.literal_in_x(PH, fn, 'prev_line_text.startswith(_S0)', '_S0'), 'prefix that is stripped')
    q_test = tr.one_char(tr.literal_in_x(PH, fn, '_S0 in word_break_chars', '_S0'), 'prefix tested as break character')
    q_end = tr.one_char(tr.literal_in_x(PH, fn, 'end_word.endswith(_S0)', '_S0'), 'suffix of the end word')
    q_start = tr.one_char(tr.literal_in_x(PH, fn, 'curr_line.text.startswith(_S0)', '_S0'), 'prefix of the next line')
    # the break characters travel by name to the functions called per line pair
    for callee, pos, n in (('get_line_words', 1, 2), ('determine_word_break', 3, 1), ('make_line_text', 4, 1)):
        if tr.call_argument(PH, fn, callee, 'word_break_chars', pos, min_calls=n) != ('NAME', 'word_break_chars'):
            raise E(f'{fn} does not pass word_break_chars on to {callee}')
    # make_line_text
    detach_blank = tr.literal_in_x(PH, 'make_line_text', 'line_text[-2] != _S0', '_S0')
    pad_before, pad_after = tr.fstring_around(PH, 'make_line_text', 'line_text[-1]')[0]
    line_pad = tr.literal_in_x(PH, 'make_line_text', 'line_text + _S0', '_S0')
    # line_ends_with_word_break
    hyphen = tr.literal_in_x(PH, 'line_ends_with_word_break', 'curr_line.text[-1] == _S0', '_S0')
    pmi = tr.as_fraction(tr.literal_in_x(PH, 'line_ends_with_word_break', 'pmi > _N0', '_N0'))
    if pmi < 0:
        raise E(f'negative PMI threshold {pmi}')
    # defaults
    d_line = tr.char_collection_default(PH, 'make_line_text', 'word_break_chars')
    d_text = tr.char_collection_default(PH, fn, 'word_break_chars')
    d_wb = tr.str_default(PH, 'merge_lines', 'word_break_char')
    d_remove = tr.bool_default(PH, 'merge_lines', 'remove_word_break')
    cl, ch = tr.lean_char_list, tr.lean_char_lit
    body = tr.HEADER.format(
        src=f'{PH}: the „ literals of make_text_region_text, the blanks of make_line_text, the hyphen and the PMI '
            f'threshold of line_ends_with_word_break, the defaults of make_line_text, make_text_region_text, '
            f'merge_lines') + (
        'namespace Pagexml.Generated.C16\n\n'
        '/-- `S` of `prev_line_text.startswith(S)` in make_text_region_text (the prefix that is cut off) -/\n'
        f'def quoteStrip : Char := {ch(q_strip)}\n\n'
        '/-- `S` of `S in word_break_chars` in make_text_region_text -/\n'
        f'def quoteTested : Char := {ch(q_test)}\n\n'
        '/-- `S` of `end_word.endswith(S)` in make_text_region_text -/\n'
        f'def quoteEnd : Char := {ch(q_end)}\n\n'
        '/-- `S` of `curr_line.text.startswith(S)` in make_text_region_text -/\n'
        f'def quoteStart : Char := {ch(q_start)}\n\n'
        '/-- `S` of `line_text[-2] != S` in make_line_text -/\n'
        f'def detachBlank : List Char := {cl(detach_blank)}\n\n'
        "/-- the constant pieces of `f' {line_text[-1]} '` in make_line_text -/\n"
        f'def detachPadBefore : List Char := {cl(pad_before)}\n'
        f'def detachPadAfter : List Char := {cl(pad_after)}\n\n'
        '/-- `S` of `line_text + S` in make_line_text (what follows a line that is not merged) -/\n'
        f'def linePad : List Char := {cl(line_pad)}\n\n'
        '/-- `S` of `curr_line.text[-1] == S` in line_ends_with_word_break -/\n'
        f'def wordBreakHyphen : List Char := {cl(hyphen)}\n\n'
        '/-- `N` = p/q of `pmi > N` in line_ends_with_word_break -/\n'
        f'def pmiThreshold : Nat × Nat := ({pmi.numerator}, {pmi.denominator})\n\n'
        '/-- default `word_break_chars` of make_line_text -/\n'
        f'def defaultBreakMakeLineText : List Char := {cl(d_line)}\n\n'
        '/-- default `word_break_chars` of make_text_region_text -/\n'
        f'def defaultBreakMakeText : List Char := {cl(d_text)}\n\n'
        '/-- default `word_break_char` of merge_lines -/\n'
        f'def defaultMergeWordBreak : List Char := {cl(d_wb)}\n\n'
        '/-- default `remove_word_break` of merge_lines -/\n'
        f'def defaultMergeRemove : Bool := {tr.lean_bool(d_remove)}\n\n'
        'end Pagexml.Generated.C16\n')
    return {'PagexmlModel/Generated/C16.lean': body}


def mk_lines(specs: List[Dict[str, Any]]):
    """JSON line specs -> real PageXMLTextLine objects (parent via a real text region when named)"""
    pdm = _real()[0]
    lines = []
    by_parent: Dict[str, list] = {}
    for s in specs:
        box = s.get('box')
        coords = None
        if box:
            x, y, w, h = box
            coords = pdm.Coords([(x, y), (x + w, y), (x + w, y + h), (x, y + h)])
        l = pdm.PageXMLTextLine(doc_id=s['id'], text=s.get('text'), coords=coords)
        lines.append(l)
        if s.get('parent') is not None:
            by_parent.setdefault(s['parent'], []).append(l)
    regions = [pdm.PageXMLTextRegion(doc_id=p, lines=ls) for p, ls in by_parent.items()]
    return lines, regions


def specs_of(texts: List[Optional[str]], parent: Optional[str] = 'tr') -> List[Dict[str, Any]]:
    return [{'id': f'l{i}', 'parent': parent, 'text': t} for i, t in enumerate(texts)]


def eff_break(B: Optional[str], det_spec) -> Optional[str]:
    """the break characters in effect in make_text_region_text: the detector's own, else the ones passed, else
    (B is None: called without word_break_chars) the default the function declares (read with inspect, for
    the oracle only — the model gets null and uses the regenerated default); None when the signature declares
    no character collection (see c17.eff_B): the oracle then judges what does not depend on them"""
    wbd = make_detector(det_spec)
    if wbd is not None:
        return ''.join(sorted(wbd.word_break_chars))
    return eff_B(_real()[1].make_text_region_text, B)


def snap_lines(lines) -> List[Dict[str, Any]]:
    """deep snapshot of what the statements observe of a line: id, text, metadata (parent labels), parent, points"""
    import copy
    return [{'id': l.id, 'text': l.text, 'metadata': canon(copy.deepcopy(l.metadata)),
             'parent': l.parent.id if l.parent is not None else None,
             'points': canon(l.coords.points) if l.coords is not None else None} for l in lines]


def snap_diff(before, after) -> List[str]:
    out = []
    if len(before) != len(after):
        return [f'{len(before)} lines became {len(after)}']
    for a, b in zip(before, after):
        for k in a:
            if a[k] != b[k]:
                out.append(f'line {a["id"]!r}: {k} {short(a[k], 120)} -> {short(b[k], 120)}')
    return out


def _freeze(v):
    return sorted(v) if isinstance(v, (set, frozenset)) else (list(v) if isinstance(v, (list, tuple)) else v)


def run_para(specs, B, wbd, form='str', lines=None) -> Dict[str, Any]:
    """one call of make_text_region_text on real lines (built from the specs unless USED line objects are handed
    in).  Every input is snapshot before and after the call — the lines, the break characters (when a set / list
    was handed over) and the detector's break characters: a call must not change what it was given."""
    pdm, ph, th, ts = _real()
    if lines is None:
        lines, _regions = mk_lines(specs)
    kw = wbc_kw(B, form)
    arg = kw.get('word_break_chars')
    before = (snap_lines(lines), _freeze(arg), _freeze(wbd.word_break_chars) if wbd is not None else None)

    def f():
        text, ranges = ph.make_text_region_text(lines, wbd=wbd, **kw)
        return {'text': text, 'ranges': canon(ranges)}
    r = call(f)
    after = (snap_lines(lines), _freeze(arg), _freeze(wbd.word_break_chars) if wbd is not None else None)
    if before != after:
        r['inputs_changed'] = snap_diff(before[0], after[0]) + \
            ([f'break characters {before[1]} -> {after[1]}'] if before[1] != after[1] else []) + \
            ([f'detector break characters {before[2]} -> {after[2]}'] if before[2] != after[2] else [])
    return r


def run_seq(specs, steps) -> List[Dict[str, Any]]:
    """a history: the calls `steps` one after the other on the SAME line objects (and, per detector spec, the same
    detector object)"""
    lines, _regions = mk_lines(specs)
    outs = []
    for st in steps:
        outs.append(run_para(specs, st['B'], make_detector(st.get('det')), st.get('form', 'str'), lines=lines))
    return outs


def fresh_answer(payload: Dict[str, Any]) -> Any:
    """run in a fork of a pristine interpreter (harness/fresh.py): one paragraph call at the start of a process,
    or (payload has 'steps') a whole sequence of calls at the start of a process"""
    if 'steps' in payload:
        return run_seq(payload['specs'], payload['steps'])
    return run_para(payload['specs'], payload['B'], make_detector(payload.get('det')), payload.get('form', 'str'))


FRESH = FreshWorker('harness.props.c16', 'fresh_answer',
                    preload=['pagexml.helper.pagexml_helper', 'pagexml.helper.text_helper',
                             'pagexml.analysis.text_stats', 'pagexml.model.physical_document_model'])


def merge_defaults():
    """(remove_word_break, word_break_char) defaults of merge_lines, for the oracle (public interface)"""
    import inspect
    ps = inspect.signature(_real()[1].merge_lines).parameters
    return ps['remove_word_break'].default, ps['word_break_char'].default


def merge_kw(inp: Dict[str, Any]) -> Dict[str, Any]:
    kw = {}
    if inp['remove'] is not None:
        kw['remove_word_break'] = inp['remove']
    if inp['wb'] is not None:
        kw['word_break_char'] = inp['wb']
    return kw


def fake_decision(seed: int, B: str, prev_words: List[str], curr_words: List[str]):
    """an arbitrary detector: a deterministic function of the two word lists"""
    if not prev_words or not curr_words:
        return [False, None]
    e, s = prev_words[-1], curr_words[0]
    h = hashlib.sha256(repr((seed, prev_words, curr_words)).encode()).digest()[0] % 16
    i = 2 if len(e) >= 2 and e[-1] in B and e[-2] in B else (1 if e[-1:] and e[-1] in B else 0)
    reduced = e[:len(e) - i] + (s[1:] if s[:1] and s[0] in B else s)
    if h < 5:
        return [False, None]
    if h < 8:
        return [True, e + s]
    if h < 12:
        return [True, reduced]
    if h < 13:
        return [True, e]                      # starts with the end word
    if h < 14:
        return [True, 'zz' + s]               # unrelated word
    if h < 15:
        return [True, '']
    return [True, None] if seed % 7 == 0 else [False, None]     # ill-formed answer (None.startswith)


def keep(s: str, B: str) -> str:
    return ''.join(ch for ch in s if not ch.isspace() and ch not in B)


# ---------------------------------------------------------------------------------------
# WAVE 5: the separator after a line that ENDS IN WHITE SPACE
# ---------------------------------------------------------------------------------------
# C16 fixes white space in two places only: "a line ending in a LETTER is followed by exactly one space" and "a line
# ending in a letter plus one word-break character is joined …" — both rules are conditioned on what the line ends in,
# and the conservation clause exempts white space ("every character of the lines other than whitespace and
# word-break characters").  For a line that itself ends in a white-space character the statement therefore says
# nothing about whether the builder puts one more blank between it and the next line.  The model mirrors the code
# (which appends one); the correspondence compares such a line's contribution UP TO THAT ONE OPTIONAL BLANK:
#   the two contributions are equal, or one is the other plus one trailing ' ' and the shorter one still ends in white
#   space.
# Everything the statement does fix stays exact: one range per non-empty line, in order, its labels, contiguity from 0
# to len(text) (checked on the implementation's ranges), the contribution of every line that does NOT end in white
# space, the last line (verbatim, never padded).

def _opt_blank_same(a: str, b: str) -> bool:
    """equal up to one optional trailing blank after white space"""
    if a == b:
        return True
    if len(a) > len(b):
        a, b = b, a
    return b == a + ' ' and a[-1:].isspace()


def _pieces(o: Dict[str, Any]):
    """(text, ranges) -> [(line_id, parent_id, contribution)], or None when the ranges are not a contiguous cover
    of the text from 0 (then nothing is canonicalised: the raw values are compared)"""
    try:
        text, ranges = o['ok']['text'], o['ok']['ranges']
        if not isinstance(text, str) or not ranges:
            return None
        pos, out = 0, []
        for r in ranges:
            if set(r) != {'start', 'end', 'line_id', 'parent_id'} or r['start'] != pos or \
                    type(r['end']) is not int or r['end'] < pos:
                return None
            out.append((r['line_id'], r['parent_id'], text[pos:r['end']]))
            pos = r['end']
        return out if pos == len(text) else None
    except Exception:  # noqa
        return None


def para_same(texts: List[Optional[str]], a: Dict[str, Any], b: Dict[str, Any]) -> bool:
    """one answer of make_text_region_text (implementation `a`, model `b`) on lines with the texts `texts`:
    identical, or identical up to the optional blank after lines that end in white space"""
    if a == b:
        return True
    if not (isinstance(a, dict) and isinstance(b, dict) and 'ok' in a and 'ok' in b) or \
            {k: v for k, v in a.items() if k != 'ok'} != {k: v for k, v in b.items() if k != 'ok'}:
        return False
    pa, pb = _pieces(a), _pieces(b)
    ne = [t for t in texts if t]
    if pa is None or pb is None or len(pa) != len(pb) or len(pa) != len(ne):
        return False
    for n, (t, x, y) in enumerate(zip(ne, pa, pb)):
        if x[:2] != y[:2]:
            return False
        if x[2] != y[2]:
            # the freedom exists only AFTER a line (never after the last one) that ends in white space
            if n == len(ne) - 1 or not t[-1].isspace() or not _opt_blank_same(x[2], y[2]):
                return False
    return True


def line_text_same(row, a: Dict[str, Any], b: Dict[str, Any]) -> bool:
    """make_line_text(line, do_merge, …) called directly: the same freedom, for a line that is NOT merged with
    the next one and ends in white space"""
    if a == b:
        return True
    t, do_merge = row[0], row[1]
    return (not do_merge and bool(t) and t[-1].isspace() and isinstance(a, dict) and isinstance(b, dict)
            and isinstance(a.get('ok'), str) and isinstance(b.get('ok'), str) and set(a) == set(b) == {'ok'}
            and _opt_blank_same(a['ok'], b['ok']))


@guarded
class C16(Check):
    pid = 'C16'
    props_module = 'PagexmlModel.Props.C16'
    anchors = {
        'pagexml/helper/pagexml_helper.py': ['make_line_text', 'make_line_range', 'make_text_region_text',
                                             'merge_lines', 'line_ends_with_word_break'],
        'pagexml/helper/text_helper.py': ['get_line_words', 'remove_word_break_chars'],
        'pagexml/analysis/text_stats.py': ['determine_word_break'],
    }
    level_note = ('proved for every line sequence (text missing / empty / any string, no bound on number or length), '
                  'every break set, every CharClass in which U+0020 is whitespace and every detector abstracted as an '
                  'arbitrary decision function meeting the interface contract DecideOK (total on the words of any two '
                  'lines; a merge carries a word) — C16_detector_ok proves the contract for determine_word_break with '
                  'no detector and with every detector record: totality, ranges (one per non-empty line, in order, '
                  'labelled, contiguous from 0 to the text length), each range slice = its line\'s contribution and '
                  'keeps the line\'s non-whitespace non-break characters, conservation overall, last line verbatim, '
                  'the two no-detector rules (lawful CharClass; exact up to the „-prefix rule, which is stated), '
                  'merge_lines text as a fold with the guarded hyphen drop, line_ends_with_word_break total. '
                  'The hull of merge_lines is a parameter (C09). horizontally_merge_lines and merge_textregions '
                  '(geometry grouping + \' \'.join / sort by baseline) are not modelled. The „ literals, the blanks of '
                  'make_line_text, the hyphen / PMI threshold of line_ends_with_word_break and all defaults are '
                  'regenerated from the source on every run (Generated/C16.lean, and Generated/C17.lean for the word '
                  'model); the theorems hold for every value of them given the three relations C16_consts_*. '
                  'Histories (wave 4): the model is a pure function, so its answer to a call is its answer to that call '
                  'after any history; the check runs sequences of paragraph calls (with / without detector, default / '
                  'explicit break characters as str, set, list) on the same line and detector objects in this process '
                  'AND in a fork of a pristine interpreter (harness/fresh.py) and demands that every answer equals the '
                  'answer of the same call made first in a fresh process, that equal calls give equal answers, and that '
                  'no call changes its inputs (lines, break-character container, detector); merge_lines is followed by '
                  'USING the merged line (attached to another region by add_child / constructor / set_parent, edited): '
                  'the original lines and the paragraph built from them must not change. '
                  'Correspondence level (wave 5): text and ranges of make_text_region_text / make_line_text are compared '
                  'exactly, up to ONE optional blank after a (non-last, for make_line_text: non-merged) line that itself '
                  'ends in a white-space character — the statement conditions both spacing rules on a line ending in a '
                  'letter (+ break character) and exempts white space from conservation; the ranges are then compared as '
                  'per-line contributions (labels, order and contiguity from 0 to the text length stay exact; the model '
                  'keeps the code\'s choice of appending the blank)')
    assumptions = [
        'the class bits sent with every request (CPython) obey the three CharClass laws (checked per character)',
        'the hull of merge_lines is whatever parse_derived_coords returns (C09); here only "the same call on the '
        'same lines" is compared',
        'determine_word_break is read through its (do_merge, merge_word) answer only (C17 proves that answer is '
        'well formed for every detector record)',
    ]
    nontrivial_rule = ('distinct inputs; non-trivial = at least two non-empty lines, or a line list with a missing / '
                       'empty text among non-empty ones')

    # ---------------------------------------------------------------- constants regenerated from the source
    def translate(self):
        """Generated/C16.lean, and Generated/C17.lean as well: the C16 model is built on the C17 model (word
        splitting, word-break decision), so a run of C16 has to see the C17 constants of the tree it runs on"""
        out = dict(generated_c17())
        out.update(generated_c16())
        return out

    # ---------------------------------------------------------------- generation
    def cases(self, rng: random.Random, tier: str) -> Iterable[Case]:
        out: List[Case] = []
        quick = tier == 'quick'
        corpus = [['ab  ', 'cd'], ['   ', 'cd'], ['ab-', ''], ['ab-', None, 'cd'], ['ab-', 'cd'], ['ab-', 'Cd'],
                  ['ab--', 'cd'], ['ab -', 'cd'], ['ab', 'cd'], ['ab.', 'cd'], ['ab„', '„cd', '„ef'], ['ab„', '„cd„', '„ef', 'x'],
                  ['-', 'a'], ['a', '-'], ['a-', '-a'], ['a-', '--a'], ['1c-', 'b'], [' ', ' '], ['a'], [None], [], ['', None],
                  ['a-', ' b'], ['a- ', 'b'], ['a -', 'b'], ['a\t-', 'b'], ['a -', 'b'], ['a=', 'b'], ['a-=', 'b'],
                  ['x', 'ab-', 'cd', 'ef-', 'Gh', 'ij.'], ['„-', '„a', '\t'], ['x„-', '„a', 'b'], ['x„', '„', '„a'], ['a-', 'b-', 'c-', 'd'], ['--', '--'], ['a--', '-b']]
        for B in BREAK_SETS + ['-=:„']:
            for texts in corpus:
                out.append(Case('para', {'B': B, 'det': None, 'lines': specs_of(texts)}, ['corpus', 'no-detector']))
        # exhaustive pairs and triples over the adversarial alphabet
        n1, n2 = (2, 2) if quick else (3, 2)
        for B in BREAK_SETS:
            for first in enum_strings(ALPHA, '', n1 if quick else 2):
                out.append(Case('para_enum', {'B': B, 'alpha': ALPHA, 'first': [first], 'n': n2},
                                ['enum', 'pairs', 'no-detector']))
            if not quick:
                for first in itertools.product(ALPHA, repeat=3):
                    out.append(Case('para_enum', {'B': B, 'alpha': ALPHA, 'first': [''.join(first)], 'n': 1},
                                    ['enum', 'pairs', 'no-detector']))
            for a in enum_strings(ALPHA, '', 1):
                for b in enum_strings(ALPHA, '', 1 if quick else 2):
                    out.append(Case('para_enum', {'B': B, 'alpha': ALPHA, 'first': [a, b], 'n': 1},
                                    ['enum', 'triples', 'no-detector']))
        # random paragraphs without a detector
        n_rand = 150 if quick else 3000
        for _ in range(n_rand):
            B = rng.choice(BREAK_SETS * 3 + ['-=:„', ' -', 'a-'])
            out.append(Case('para', {'B': B, 'det': None, 'lines': self._rand_specs(rng, B)},
                            ['random', 'no-detector']))
        # detectors trained on generated corpora (decisions passed to the model as data)
        n_det = 5 if quick else 40
        for _ in range(n_det):
            B = rng.choice(BREAK_SETS)
            g = {'seed': rng.randrange(10 ** 6), 'n': rng.choice([400, 1500, 4000]), 'B': B,
                 'p_break': rng.choice([0.2, 0.5, 0.8]), 'min_bigram': rng.choice([1, 5])}
            texts = [l['text'] for l in gen_corpus(g)]
            for _ in range(25):
                j = rng.randrange(len(texts) - 8)
                ls = texts[j:j + rng.randint(2, 8)]
                if rng.random() < 0.3:
                    ls[rng.randrange(len(ls))] = rand_line(rng, B, 10)
                out.append(Case('para', {'B': rng.choice(BREAK_SETS), 'det': {'gen': g}, 'lines': specs_of(ls)},
                                ['random', 'trained-detector']))
        # arbitrary detector tables (the model runs its own determine on them)
        n_tab = 40 if quick else 500
        frag_e = ['ver-', 'Ver-', 'ver', 'Amster-', 'en', '-', '.', 'a=', 'ge--', 'x„', '12-', 'DE-']
        frag_s = ['dam', 'Dam', 'DAM', 'gadering', '12', '-', '.', '-dam', 'en', '„dam', 'A', 'é']
        for _ in range(n_tab):
            B = rng.choice(BREAK_SETS)
            es, ss = rng.sample(frag_e, 5), rng.sample(frag_s, 5)
            vocab = es + ss + [e[:-1] for e in es if e] + [e + s for e in es for s in ss if rng.random() < 0.5] + \
                    [e.rstrip(B) + s.lstrip(B) for e in es for s in ss if rng.random() < 0.5]
            tables = random_tables(rng, B, sorted(set(v for v in vocab if v)))
            for _ in range(5):
                texts = []
                for _ in range(rng.randint(2, 6)):
                    texts.append(rng.choice(ss + ['x']) + ' y ' + rng.choice(es + ['z']))
                out.append(Case('para', {'B': rng.choice(BREAK_SETS), 'det': {'tables': tables},
                                         'lines': specs_of(texts)}, ['random', 'table-detector']))
        # an arbitrary decision function patched in for determine_word_break
        for _ in range(n_rand):
            B = rng.choice(BREAK_SETS + ['-=:„'])
            out.append(Case('para_fake', {'B': B, 'seed': rng.randrange(10 ** 6), 'lines': self._rand_specs(rng, B)},
                            ['random', 'fake-detector']))
        # make_line_text directly
        for B in BREAK_SETS:
            rows = []
            for t in enum_strings('a- „=', '', 3)[1:]:
                for d, e, m in [(False, '', None), (True, 'a-', 'ab'), (True, 'a-', 'a-b'), (True, '', ''),
                                (True, 'a', None)]:
                    rows.append([t, d, e, m])
            out.append(Case('line_text', {'B': B, 'rows': rows}, ['enum']))
        # merge_lines
        mcorpus = [['ab-', ''], ['ab-', None], ['ab-', 'cd'], ['ab-', 'Cd'], ['ab', 'cd'], [None, 'ab-', '', 'cd'],
                   ['-', 'a'], ['a-', '-', 'b'], ['', ''], [None], [], ['a'], ['ab=', 'cd'], ['-', '-', 'a']]
        for texts in mcorpus:
            for remove in (False, True):
                for wb in ('-', '=', '-=', ''):
                    out.append(Case('merge', {'remove': remove, 'wb': wb, 'lines': self._boxed(rng, texts)},
                                    ['corpus']))
        for _ in range(n_rand):
            k = rng.randint(0, 5)
            wb = rng.choice(['-', '-', '=', '„', '--', '', 'a'])
            texts = [rng.choice([None, '', rand_line(rng, wb or '-', 6), rand_line(rng, wb or '-', 6) + wb,
                                 rng.choice('abBé1-. ') + rand_line(rng, wb or '-', 4)]) for _ in range(k)]
            out.append(Case('merge', {'remove': rng.random() < 0.7, 'wb': wb, 'lines': self._boxed(rng, texts)},
                            ['random']))
        # line_ends_with_word_break (correspondence only: the statement does not speak about it)
        ends = ['ab-', 'ab.', 'ab', 'ab_', 'ab-_', 'ab -', 'ab\n-', '-', '.', 'a.b;', 'é=', 'ab„', 'ab--', '', None,
                'ab:', 'ver-', 'Amster=', 'x y.', '1,']
        nexts = ['cd', ' cd', '-cd', '', None, 'Cd e', '1', '_x', 'é', 'dam', 'gadering x']
        vocab = ['ab', 'cd', 'abcd', 'ver', 'gadering', 'vergadering', 'Amster', 'dam', 'Amsterdam', 'y', 'Cd', 'yCd',
                 'é', 'éé', 'b', 'bcd', '1', '11']
        for i in range(6 if quick else 60):
            if i == 0:
                wf = None
            elif i == 1:
                wf = []
            else:
                wf = sorted([w, rng.choice([0, 1, 1, 2, 3, 5, 10, 50])] for w in vocab if rng.random() < 0.7)
            rows = [[e, True, n] for e in ends for n in nexts] + [[e, False, None] for e in ends]
            for _ in range(40):
                rows.append([rand_line(rng, '-', 8), True, rand_line(rng, '-', 8)])
            out.append(Case('wordbreak', {'wf': wf, 'rows': rows}, ['enum', 'random']))
        # the real functions called WITHOUT word_break_chars / remove_word_break / word_break_char (None): their
        # defaults apply; the model is sent null and uses the defaults regenerated from the source
        P = DEFAULT_POOL
        for texts in corpus:
            out.append(Case('para', {'B': None, 'det': None, 'lines': specs_of(texts)},
                            ['corpus', 'no-detector', 'default-break']))
        for first in enum_strings('aB-=: ', '', 2):
            out.append(Case('para_enum', {'B': None, 'alpha': 'aB-=: ', 'first': [first], 'n': 2},
                            ['enum', 'pairs', 'no-detector', 'default-break']))
        for _ in range(15 if quick else 150):
            out.append(Case('para', {'B': None, 'det': None, 'lines': self._rand_specs(rng, P)},
                            ['random', 'no-detector', 'default-break']))
        for _ in range(3 if quick else 20):
            B = rng.choice(BREAK_SETS)
            es, ss = rng.sample(frag_e, 5), rng.sample(frag_s, 5)
            vocab = es + ss + [e[:-1] for e in es if e] + [e + s for e in es for s in ss if rng.random() < 0.5]
            tables = random_tables(rng, B, sorted(set(v for v in vocab if v)))
            texts = [rng.choice(ss + ['x']) + ' y ' + rng.choice(es + ['z']) for _ in range(rng.randint(2, 6))]
            out.append(Case('para', {'B': None, 'det': {'tables': tables}, 'lines': specs_of(texts)},
                            ['random', 'table-detector', 'default-break']))
        rows = []
        for t in enum_strings('a- „=:', '', 3)[1:]:
            for d, e, m in [(False, '', None), (True, 'a-', 'ab'), (True, 'a-', 'a-b'), (True, '', ''), (True, 'a', None)]:
                rows.append([t, d, e, m])
        out.append(Case('line_text', {'B': None, 'rows': rows}, ['enum', 'default-break']))
        for texts in mcorpus:
            for remove, wb in ((None, None), (True, None), (None, '='), (None, '-')):
                out.append(Case('merge', {'remove': remove, 'wb': wb, 'lines': self._boxed(rng, texts)},
                                ['corpus', 'default-break']))
        for _ in range(10 if quick else 100):
            k = rng.randint(0, 5)
            texts = [rng.choice([None, '', rand_line(rng, P, 6), rand_line(rng, P, 6) + rng.choice(P),
                                 rng.choice('abBé1-. ') + rand_line(rng, P, 4)]) for _ in range(k)]
            out.append(Case('merge', {'remove': rng.choice([None, True, True]), 'wb': None,
                                      'lines': self._boxed(rng, texts)}, ['random', 'default-break']))
        out += self._wave4_cases(rng, quick, corpus, mcorpus, frag_e, frag_s)
        return out

    # wave 4: histories (everything below draws from rng AFTER the streams above, which are unchanged) ---------
    SEQ_POOL = '-=:„¬+'      # break-like characters the lines of the sequence cases end in

    def _seq_lines(self, rng: random.Random) -> List[Dict[str, Any]]:
        """lines whose ends exercise every break-like character of the pool: letter + character before a lower-case
        continuation (joined iff the character is a break character of THAT call), doubled and detached ones"""
        words = ['de', 'prys', 'is', '5', 'gulden', 'en', 'reke', 'ning', 'volgt', 'x', 'Raad', 'ver', 'gadering']
        texts = []
        for _ in range(rng.randint(2, 6)):
            t = ' '.join(rng.choice(words) for _ in range(rng.randint(1, 4)))
            r = rng.random()
            c = rng.choice(self.SEQ_POOL)
            if r < 0.55:
                t += c
            elif r < 0.65:
                t += c + c
            elif r < 0.75:
                t += ' ' + c
            elif r < 0.8:
                t = None if rng.random() < 0.5 else ''
            texts.append(t)
        specs = specs_of(texts, None)
        for s_ in specs:
            s_['parent'] = rng.choice([None, 'tr1', 'tr1', 'tr2'])
        return specs

    def _wave4_cases(self, rng, quick, corpus, mcorpus, frag_e, frag_s) -> List[Case]:
        out: List[Case] = []
        P = self.SEQ_POOL
        # (A) sequences of paragraph calls on the same lines: with / without detector, explicit / default break
        # characters, handed over as str / set / list, the first call repeated at the end
        def tables(B):
            es, ss = rng.sample(frag_e, 4), rng.sample(frag_s, 4)
            vocab = es + ss + ['reke', 'ning', 'rekening', 'ver', 'gadering', 'vergadering', 'prys', 'gulden']
            return {'tables': random_tables(rng, B, sorted(set(vocab)))}
        det_sets = ['-', '-=', '-=:', '„-', '=', '-¬', '+-=', ':']
        for i in range(24 if quick else 200):
            specs = self._seq_lines(rng)
            dets = [tables(rng.choice(det_sets)) for _ in range(2)]
            if i % 6 == 0:
                dets[0] = {'gen': {'seed': rng.randrange(10 ** 6), 'n': 300, 'B': rng.choice(det_sets[1:4]),
                                   'p_break': 0.5, 'min_bigram': 1}}
            steps = []
            for _ in range(rng.randint(2, 5)):
                r = rng.random()
                if r < 0.3:
                    st = {'B': None, 'det': None}
                elif r < 0.5:
                    st = {'B': rng.choice(['-', '-=', '=:', '-=:„', '¬']), 'det': None,
                          'form': rng.choice(['str', 'set', 'list'])}
                elif r < 0.8:
                    st = {'B': rng.choice([None, '-', '-=:']), 'det': rng.choice(dets)}
                else:
                    st = {'B': rng.choice(['-', '=+']), 'det': rng.choice(dets), 'form': rng.choice(['set', 'list'])}
                steps.append(st)
            if i % 2 == 0:       # the shape "plain call, something else, the same plain call again"
                steps = [{'B': None, 'det': None}] + steps + [{'B': None, 'det': None}]
            else:
                steps.append(dict(steps[0]))
            out.append(Case('para_seq', {'lines': specs, 'steps': steps}, ['history', 'sequence']))
        # the corpus lines through a fixed history
        hist = [{'B': None, 'det': None}, {'B': '-=:', 'det': None, 'form': 'set'},
                {'B': None, 'det': tables('-=')}, {'B': None, 'det': None}]
        for texts in corpus[::3 if quick else 1]:
            out.append(Case('para_seq', {'lines': specs_of(texts), 'steps': hist}, ['history', 'sequence', 'corpus']))
        # (A) merge_lines on USED lines that have a parent; the merged line is then attached to another region
        # (add_child / constructor / set_parent / not at all) and edited
        k = 0
        for texts in mcorpus + [['de heer heeft de reke-', 'ning betaald en', '', 'is vertrokken']]:
            for attach in ('add_child', 'ctor', 'set_parent', None):
                k += 1
                lines = self._boxed(rng, texts)
                for j, l in enumerate(lines):
                    l['parent'] = [None, 'tr1', 'tr1', 'tr2'][(k + (j > 1)) % 4] if k % 3 else 'tr1'
                out.append(Case('merge', {'remove': k % 2 == 0, 'wb': '-', 'lines': lines, 'attach': attach},
                                ['corpus', 'history', 'attach:' + str(attach)]))
        for _ in range(40 if quick else 400):
            n = rng.randint(1, 5)
            wb = rng.choice(['-', '-', '=', '„'])
            texts = [rng.choice([None, '', rand_line(rng, wb, 6), rand_line(rng, wb, 6) + wb,
                                 rng.choice('abBé1-. ') + rand_line(rng, wb, 4)]) for _ in range(n)]
            lines = self._boxed(rng, texts)
            par = rng.choice([None, 'tr1', 'tr1'])
            for l in lines:
                l['parent'] = par if rng.random() < 0.8 else rng.choice([None, 'tr2'])
            out.append(Case('merge', {'remove': rng.random() < 0.7, 'wb': wb, 'lines': lines,
                                      'attach': rng.choice(['add_child', 'ctor', 'set_parent', None])},
                            ['random', 'history']))
        return out

    @staticmethod
    def _boxed(rng: random.Random, texts):
        out = []
        for i, t in enumerate(texts):
            out.append({'id': f'l{i}', 'parent': None, 'text': t,
                        'box': [rng.randint(0, 50) + 100 * i, rng.randint(0, 40), rng.randint(1, 90),
                                rng.randint(1, 30)]})
        return out

    @staticmethod
    def _rand_specs(rng: random.Random, B: str) -> List[Dict[str, Any]]:
        k = rng.choice([0, 1, 2, 2, 3, 3, 4, 5, 8])
        texts: List[Optional[str]] = []
        for _ in range(k):
            r = rng.random()
            if r < 0.07:
                texts.append(None)
            elif r < 0.14:
                texts.append('')
            elif r < 0.2:
                texts.append(rng.choice([' ', '  ', '\t', B[0], B[0] * 2, ' ' + B[0], '„', '„„']))
            else:
                t = rand_line(rng, B, 10)
                if rng.random() < 0.25 and '„' in B:
                    t = '„' + t
                if rng.random() < 0.35:
                    t = t.rstrip() + rng.choice(['a', 'é', 'B']) + rng.choice(B)
                texts.append(t)
        specs = specs_of(texts, None)
        for s in specs:
            s['parent'] = rng.choice([None, 'tr1', 'tr1', 'tr2'])
        return specs

    # ---------------------------------------------------------------- implementation
    @staticmethod
    def _paras(case: Case) -> List[List[Dict[str, Any]]]:
        """the line lists a case stands for"""
        if case.kind == 'para_enum':
            i = case.input
            return [specs_of(i['first'] + [t]) for t in enum_strings(i['alpha'], '', i['n'])]
        return [case.input['lines']]

    @staticmethod
    def _run_para(specs, B, wbd):
        return run_para(specs, B, wbd)

    def impl(self, case: Case) -> Any:
        pdm, ph, th, ts = _real()
        k = case.kind
        if k in ('para', 'para_enum'):
            wbd = make_detector(case.input.get('det'))
            B = case.input['B']
            return [self._run_para(specs, B, wbd) for specs in self._paras(case)]
        if k == 'para_seq':
            specs, steps = case.input['lines'], case.input['steps']
            used = run_seq(specs, steps)                                   # in this (much used) process
            seq = FRESH.ask({'specs': specs, 'steps': steps})              # the same history at the start of a process
            outs = []
            for n, st in enumerate(steps):
                single = FRESH.ask({'specs': specs, 'B': st['B'], 'form': st.get('form', 'str'), 'det': st.get('det')})
                outs.append({'out': used[n], 'seq': seq['ok'][n] if 'ok' in seq else {'worker_err': seq.get('worker_err')},
                             'fresh': single})
            return outs
        if k == 'para_fake':
            B, seed = case.input['B'], case.input['seed']

            def fake(curr_words, prev_words, wbd=None, word_break_chars=None, debug=False):
                d = fake_decision(seed, B, prev_words, curr_words)
                return d[0], d[1]
            with mock.patch.object(ts, 'determine_word_break', fake):
                return [self._run_para(case.input['lines'], B, None)]
        if k == 'line_text':
            B = case.input['B']
            outs = []
            for t, d, e, m in case.input['rows']:
                line = pdm.PageXMLTextLine(doc_id='l', text=t)
                outs.append(call(ph.make_line_text, line, d, e, m, **wbc_kw(B)))
            return outs
        if k == 'wordbreak':
            from collections import Counter
            wf = case.input['wf']
            counter = None if wf is None else Counter({w: n for w, n in wf})
            outs = []
            for c, has_next, n in case.input['rows']:
                cur = pdm.PageXMLTextLine(doc_id='c', text=c)
                nxt = pdm.PageXMLTextLine(doc_id='n', text=n) if has_next else None
                outs.append(call(ph.line_ends_with_word_break, cur, nxt, counter))
            return outs
        if k == 'merge':
            lines, _ = mk_lines(case.input['lines'])
            from pagexml.model.coords import parse_derived_coords
            # (A) the lines are USED objects: a paragraph is built from them before the merge and again after the
            # merged line has been put to use (attached to another region, edited); the lines and the paragraph
            # must be the same — an output must never alias an input
            specs = case.input['lines']
            para_before = run_para(specs, '-', None, lines=lines)
            snap0 = snap_lines(lines)
            merged = []

            def f():
                m = ph.merge_lines(lines, **merge_kw(case.input))
                merged.append(m)
                return {'text': m.text, 'coords': canon(m.coords.points)}
            r = call(f)
            r['hull'] = call(lambda: canon(parse_derived_coords(lines).points))
            changed = snap_diff(snap0, snap_lines(lines))
            if changed:
                r['inputs_changed'] = changed
            if merged:
                r['use'] = call(lambda: self._use_merged(pdm, merged[0], case.input.get('attach')))
                aliased = snap_diff(snap0, snap_lines(lines))
                if aliased != changed:
                    r['inputs_aliased'] = aliased
                para_after = run_para(specs, '-', None, lines=lines)
                if para_after != para_before:
                    r['para'] = {'before': para_before, 'after': para_after}
            return r
        raise ValueError(k)

    @staticmethod
    def _use_merged(pdm, m, attach):
        """what a caller does with a merged line: give it an id and a home of its own, edit it"""
        m.id = 'merged-line'
        if attach == 'add_child':
            pdm.PageXMLTextRegion(doc_id='other-region').add_child(m)
        elif attach == 'ctor':
            pdm.PageXMLTextRegion(doc_id='other-region', lines=[m])
        elif attach == 'set_parent':
            m.set_parent(pdm.PageXMLTextRegion(doc_id='other-region'))
        m.metadata['custom'] = 'edited'
        for key in list(m.metadata):
            if isinstance(m.metadata[key], (list, dict)):
                m.metadata[key] = type(m.metadata[key])()
        m.text = (m.text or '') + '!'
        if m.coords is not None and m.coords.points:
            m.coords.points[0] = (-1, -1)
        return attach

    # ---------------------------------------------------------------- model
    def requests(self, case: Case):
        pdm, ph, th, ts = _real()
        k = case.kind
        if k == 'para_seq':
            # the model is a pure function: the answer to step n is the model's answer to that call alone
            reqs = []
            for st in case.input['steps']:
                reqs += self.requests(Case('para', {'B': st['B'], 'det': st.get('det'), 'lines': case.input['lines']}))
            return reqs
        if k in ('para', 'para_enum', 'para_fake'):
            B = case.input['B']
            det = case.input.get('det')
            reqs = []
            for specs in self._paras(case):
                texts = [s.get('text') for s in specs]
                args = {'B': B, 'lines': specs}
                strings = list(texts)
                if k == 'para_fake' or (det is not None and 'gen' in det):
                    # the detector's decision per line pair, as data
                    wbd = make_detector(det) if k != 'para_fake' else None
                    Bw = eff_break(B, det) if k != 'para_fake' else B
                    ne = [t for t in texts if t]
                    rows = []
                    for a, b in zip(ne, ne[1:]):
                        pw = th.get_line_words(a, word_break_chars=Bw)
                        cw = th.get_line_words(b, word_break_chars=Bw)
                        if k == 'para_fake':
                            d = fake_decision(case.input['seed'], B, pw, cw)
                        else:
                            d = list(ts.determine_word_break(cw, pw, wbd=wbd, word_break_chars=B))
                        rows.append([pw, cw, d[0], d[1]])
                    args.update({'mode': 'decisions', 'decisions': rows, 'B': Bw})
                else:
                    wbd = make_detector(det)
                    args.update({'mode': 'model', 'det': export_detector(wbd)})
                    if wbd is not None:
                        strings += [w for w, _ in args['det']['all']]
                args['cls'] = class_table(strings + [' ', '„'])
                reqs.append({'p': 'C16', 'op': 'make_text', 'args': args})
            return reqs
        if k == 'line_text':
            return [{'p': 'C16', 'op': 'make_line_text', 'args': {'B': case.input['B'], 'rows': case.input['rows']}}]
        if k == 'wordbreak':
            wf = case.input['wf']
            strings = [x for r in case.input['rows'] for x in (r[0], r[2])]
            return [{'p': 'C16', 'op': 'line_ends_with_word_break', 'args': {
                'cls': class_table(strings), 'rows': case.input['rows'],
                'wf': None if not wf else {'freq': wf, 'total': sum(n for _, n in wf)}}}]
        if k == 'merge':
            o = self.impl(case)
            texts = [s.get('text') for s in case.input['lines']]
            return [{'p': 'C16', 'op': 'merge_lines', 'args': {
                'cls': class_table(texts), 'remove': case.input['remove'], 'wb': case.input['wb'], 'texts': texts,
                'hull': o['hull']}}]
        return []

    def compare(self, case, impl_out, model_out):
        k = case.kind
        if k == 'para_seq':
            for n, (st, o, b) in enumerate(zip(case.input['steps'], impl_out, model_out)):
                texts = [s_.get('text') for s_ in case.input['lines']]
                for which in ('out', 'seq'):
                    a = o[which]
                    if 'worker_err' not in a and not para_same(texts, a, b):
                        return (f'make_text_region_text, call {n + 1} of a sequence ({which}), B={st["B"]!r} '
                                f'({st.get("form", "str")}): impl={a} model={b}')
            return None
        if k in ('para', 'para_enum', 'para_fake'):
            for specs, a, b in zip(self._paras(case), impl_out, model_out):
                if not para_same([s_.get('text') for s_ in specs], a, b):
                    return (f'make_text_region_text texts={[s.get("text") for s in specs]} B={case.input["B"]!r} '
                            f'impl={a} model={b}')
            return None
        if k == 'line_text':
            m = model_out[0].get('ok')
            for row, a, b in zip(case.input['rows'], impl_out, m or []):
                if not line_text_same(row, a, b):
                    return f'make_line_text{row} B={case.input["B"]!r} impl={a} model={b}'
            return None if m is not None and len(m) == len(impl_out) else f'model answered {model_out[0]}'
        if k == 'wordbreak':
            m = model_out[0].get('ok')
            for row, a, b in zip(case.input['rows'], impl_out, m or []):
                if a != b:
                    return f'line_ends_with_word_break{row} wf={case.input["wf"]} impl={a} model={b}'
            return None if m is not None and len(m) == len(impl_out) else f'model answered {model_out[0]}'
        if k == 'merge':
            m = model_out[0]
            a = {x: impl_out[x] for x in ('ok', 'err') if x in impl_out}
            if 'ok' in a:
                a = {'ok': {'coords': a['ok']['coords'], 'text': a['ok']['text']}}
            return None if a == m else f'merge_lines impl={a} model={m}'
        return None

    # ---------------------------------------------------------------- oracle
    def oracle(self, case: Case, out: Any) -> List[Finding]:
        fs: List[Finding] = []
        k = case.kind

        def bad(key, what, small, o):
            fs.append(Finding(f'C16:{key}', what, small, o))

        if k in ('para', 'para_enum', 'para_fake'):
            B = case.input['B']
            det = case.input.get('det')
            Bw = eff_break(B, det) if k != 'para_fake' else B
            for specs, o in zip(self._paras(case), out):
                if k == 'para_enum':
                    one = Case('para', {'B': B, 'det': None, 'lines': specs}, case.tags)
                else:
                    one = case
                self._judge_para(k, B, Bw, det, specs, o, one, [o], bad)
        elif k == 'para_seq':
            # (A) a HISTORY of calls on the same line objects (and the same detector objects): every answer is judged
            # as if it were the only call, must equal the answer of the same call at the start of a process, and no
            # call may change what it was given
            specs = case.input['lines']
            steps = case.input['steps']

            def plain(r):
                return {x: v for x, v in r.items() if x != 'inputs_changed'}
            for n, (step, o) in enumerate(zip(steps, out)):
                B, det, form = step['B'], step.get('det'), step.get('form', 'str')
                Bw = eff_break(B, det)
                self._judge_para('para', B, Bw, det, specs, o['out'], case, out, bad)
                if 'ok' in o['seq'] or 'err' in o['seq']:
                    self._judge_para('para', B, Bw, det, specs, o['seq'], case, out, bad)
                fr = o.get('fresh') or {}
                if 'ok' in fr and 'worker_err' not in o['seq'] and plain(o['seq']) != plain(fr['ok']):
                    prev = [{'B': s_['B'], 'form': s_.get('form', 'str'),
                             'detector': None if s_.get('det') is None else eff_break(s_['B'], s_['det'])}
                            for s_ in steps[:n]]
                    bad('state-leak', f'the lines {[s_.get("text") for s_ in specs]} with break characters {B!r} '
                                      f'({form}), detector {"yes" if det else "no"}, give {short(plain(fr["ok"]), 300)} '
                                      f'as the first call of a process and {short(plain(o["seq"]), 300)} as call {n + 1} '
                                      f'after the calls {prev}', case, out)
            for which in ('out', 'seq'):
                same = {}
                for n, (step, o) in enumerate(zip(steps, out)):
                    if 'worker_err' in o[which]:
                        continue
                    key = repr((step['B'], step.get('form', 'str'), step.get('det')))
                    a = plain(o[which])
                    if key in same and same[key][1] != a:
                        bad('repeat-differs', f'calls {same[key][0] + 1} and {n + 1} of the sequence are the same call on '
                                              f'the same lines and give {short(same[key][1], 300)} and {short(a, 300)}',
                            case, out)
                    same.setdefault(key, (n, a))
        elif k == 'merge':
            specs = case.input['lines']
            texts = [s.get('text') for s in specs]
            if not specs:
                return fs
            if 'inputs_changed' in out:
                bad('merge-changes-input', f'merge_lines changed the lines it was given: {out["inputs_changed"][:4]}',
                    case, out)
            if 'inputs_aliased' in out:
                bad('merge-aliases-input', f'after merge_lines the merged line was put to use ({case.input.get("attach")}, '
                                           f'edited): the ORIGINAL lines changed: {out["inputs_aliased"][:4]}', case, out)
            if 'para' in out:
                bad('paragraph-after-merge', f'make_text_region_text on the same lines gives '
                                             f'{short(out["para"]["before"], 300)} before merge_lines and '
                                             f'{short(out["para"]["after"], 300)} after the merged line was put to use',
                    case, out)
            if 'ok' not in out:
                if 'ok' in out['hull']:
                    bad('merge-raises', f'merge_lines raised {out["err"]} on texts {texts}', case, out)
                return fs
            exp = ''
            d_remove, d_wb = merge_defaults()
            wb = case.input['wb'] if case.input['wb'] is not None else d_wb
            remove = case.input['remove'] if case.input['remove'] is not None else d_remove
            for t in texts:
                if not t:
                    continue
                if remove and exp and exp.endswith(wb) and t[0].islower():
                    exp = exp[:-1]
                exp += t
            if out['ok']['text'] != exp:
                bad('merge-text', f'merge_lines({texts}, remove={remove}, {wb!r}).text = '
                                  f'{out["ok"]["text"]!r}, expected {exp!r}', case, out)
            if 'ok' in out['hull'] and out['ok']['coords'] != out['hull']['ok']:
                bad('merge-coords', 'merge_lines coords are not the hull of the lines\' coordinates', case, out)
        return fs

    def _judge_para(self, k, B, Bw, det, specs, o, one, shown, bad):
        """the statement on ONE answer of make_text_region_text (`o`) for the lines `specs`; `Bw` = the break
        characters in effect (None: not declared by the interface — only what does not depend on them is judged)"""
        texts = [s.get('text') for s in specs]
        if 'inputs_changed' in o:
            bad('input-changed', f'make_text_region_text changed its inputs: {o["inputs_changed"][:4]}', one, shown)
        if 'ok' not in o:
            if k == 'para_fake' and o.get('err') == 'AttributeError':
                return      # the patched detector answered (True, None): not a detector answer
            bad('builder-raises', f'make_text_region_text raised {o["err"]} on texts {texts} (B={B!r})', one, shown)
            return
        text, ranges = o['ok']['text'], o['ok']['ranges']
        ne = [s for s in specs if s.get('text')]
        if len(ranges) != len(ne):
            bad('range-count', f'{len(ranges)} ranges for {len(ne)} non-empty lines: texts {texts}', one, shown)
            return
        if not ne:
            if text:
                bad('text-from-nothing', f'text {text!r} from lines without text', one, shown)
            return
        if text is None:
            bad('no-text', f'no text for non-empty lines {texts}', one, shown)
            return
        okr = ranges[0]['start'] == 0 and ranges[-1]['end'] == len(text) and \
            all(a['end'] == b['start'] for a, b in zip(ranges, ranges[1:])) and \
            all(r['start'] <= r['end'] for r in ranges)
        if not okr:
            bad('range-contiguity', f'ranges {[(r["start"], r["end"]) for r in ranges]} are not contiguous '
                                    f'from 0 to {len(text)}: texts {texts}', one, shown)
            return
        for s, r in zip(ne, ranges):
            if r['line_id'] != s['id'] or r['parent_id'] != s.get('parent'):
                bad('range-label', f'range labelled {r["line_id"]}/{r["parent_id"]}, line is '
                                   f'{s["id"]}/{s.get("parent")}', one, shown)
            piece = text[r['start']:r['end']]
            if Bw is not None and keep(piece, Bw) != keep(s['text'], Bw):
                bad('conservation', f'line {s["text"]!r} became {piece!r} (B={Bw!r}): characters other than '
                                    f'whitespace and break characters differ; texts {texts}', one, shown)
        if Bw is not None and keep(text, Bw) != keep(''.join(s['text'] for s in ne), Bw):
            bad('conservation', f'paragraph {text!r} from {texts} (B={Bw!r})', one, shown)
        lr = ranges[-1]
        if text[lr['start']:lr['end']] != ne[-1]['text']:
            bad('last-line', f'last line {ne[-1]["text"]!r} appears as {text[lr["start"]:lr["end"]]!r}', one, shown)
        if k in ('para', 'para_enum') and det is None and Bw is not None:
            self._no_detector_rules(ne, ranges, text, Bw, bad, one, shown)

    @staticmethod
    def _no_detector_rules(ne, ranges, text, B, bad, one, shown):
        for i in range(len(ne) - 1):
            t, nxt = ne[i]['text'], ne[i + 1]['text']
            piece = text[ranges[i]['start']:ranges[i]['end']]
            # a leading „ may have been removed when „ is a break character (the builder does that after a line
            # whose last word ends with „; exactly when is the model's business, not the statement's)
            variants = [t]
            if '„' in B and t.startswith('„') and i > 0:
                variants.append(t[1:])
            c = t[-1]
            if c.isalpha() and c not in B:
                if piece not in [v + ' ' for v in variants]:
                    bad('letter-then-space', f'line {t!r} (ends in a letter) contributes {piece!r}, expected the '
                                             f'line plus exactly one blank', one, shown)
            elif len(t) >= 2 and c in B and not c.isspace() and t[-2].isalpha() and t[-2] not in B and \
                    nxt[0].islower() and nxt[0].isalpha() and nxt[0] not in B:
                if piece not in [v[:-1] for v in variants]:
                    bad('hyphen-join', f'line {t!r} before {nxt!r} contributes {piece!r}, expected the line '
                                       f'without its break character and without a blank', one, shown)

    def nontrivial(self, case: Case) -> bool:
        if case.kind in ('para', 'para_fake', 'para_seq'):
            ts_ = [s.get('text') for s in case.input['lines']]
            return sum(1 for t in ts_ if t) >= 2 or (any(t for t in ts_) and any(not t for t in ts_))
        return True

    def shrink_candidates(self, case: Case):
        k = case.kind
        if k == 'para_seq':
            st = case.input['steps']
            for i in range(len(st)):
                if len(st) > 1:
                    yield Case(k, dict(case.input, steps=st[:i] + st[i + 1:]), case.tags)
        if k in ('para', 'para_fake', 'merge', 'para_seq'):
            ls = case.input['lines']
            for i in range(len(ls)):
                yield Case(k, dict(case.input, lines=ls[:i] + ls[i + 1:]), case.tags)
            for i, s in enumerate(ls):
                t = s.get('text')
                if t:
                    for j in range(len(t)):
                        s2 = dict(s, text=t[:j] + t[j + 1:])
                        yield Case(k, dict(case.input, lines=ls[:i] + [s2] + ls[i + 1:]), case.tags)


CHECK = C16()
