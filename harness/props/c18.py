"""C18 — Column splitting terminates, keeps every line once, separates on real gaps."""
from __future__ import annotations

import itertools
import random
import re
import sys
from typing import Any, Dict, Iterable, List, Optional

from harness.core import OUTSIDE, Case, Check, Finding, call, canon, short

RECURSION_LIMIT = 400      # runaway recursion becomes an outcome (RecursionError), not a hang


def _real():
    import pagexml.column_parser as cp
    import pagexml.model.physical_document_model as pdm
    return cp, pdm


# ----------------------------------------------------------------------------------------
# input <-> real objects
# ----------------------------------------------------------------------------------------
# region JSON: {'lines': [{'id': str, 'box': [l, t, r, b], 'bl': bool}], 'subs': [region, …]}
# case input : {'thr': int|None, 'mcw': int|None, 'rid': str|None, 'parent': None|{'id': str|None},
#               'region': region, 'dx': int, 'dy': int}
# thr / mcw None: the argument is NOT passed to the real function (its default applies); the model then uses the
# default regenerated from the source (Generated/C18.lean), the harness never copies it.

def _all_lines(region: Dict[str, Any]) -> List[Dict[str, Any]]:
    """the lines in get_lines() order: sub-regions first, then own lines"""
    out = []
    for s in region.get('subs', []):
        out.extend(_all_lines(s))
    out.extend(region['lines'])
    return out


def _move_region(region: Dict[str, Any], dx: int, dy: int) -> Dict[str, Any]:
    return {'lines': [dict(l, box=[l['box'][0] + dx, l['box'][1] + dy, l['box'][2] + dx, l['box'][3] + dy])
                      for l in region['lines']],
            'subs': [_move_region(s, dx, dy) for s in region.get('subs', [])]}


def _strip_region(region: Dict[str, Any]) -> Dict[str, Any]:
    """what the model needs: ids and boxes"""
    return {'lines': [{'id': l['id'], 'box': l['box']} for l in region['lines']],
            'subs': [_strip_region(s) for s in region.get('subs', [])]}


def _build(pdm, region: Dict[str, Any], rid, counter: List[int]):
    lines = []
    for l in region['lines']:
        x1, y1, x2, y2 = l['box']
        baseline = None
        if l.get('bl') and x2 - x1 > 4:
            # a baseline narrower than the box: must not be used against columns (they have none)
            baseline = pdm.Baseline([(x1 + 2, y2), (x2 - 2, y2)])
        lines.append(pdm.PageXMLTextLine(l['id'], coords=pdm.Coords([(x1, y1), (x2, y1), (x2, y2), (x1, y2)]),
                                         baseline=baseline, text='x'))
    subs = []
    for s in region.get('subs', []):
        counter[0] += 1
        subs.append(_build(pdm, s, f'sub{counter[0]}', counter))
    return pdm.PageXMLTextRegion(rid, lines=lines, text_regions=subs)


def _run_real(inp: Dict[str, Any], region: Dict[str, Any], again: bool = False) -> Dict[str, Any]:
    cp, pdm = _real()

    def f():
        reg = _build(pdm, region, inp.get('rid'), [0])
        if inp.get('parent') is not None:
            parent = pdm.PageXMLPage(inp['parent'].get('id'))
            reg.set_parent(parent)
        kw = {}
        if inp.get('thr') is not None:
            kw['gap_threshold'] = inp['thr']
        if inp.get('mcw') is not None:
            kw['min_column_width'] = inp['mcw']
        def split():
            old = sys.getrecursionlimit()
            sys.setrecursionlimit(RECURSION_LIMIT)
            try:
                cols = cp.split_lines_on_column_gaps(reg, **kw)
            finally:
                sys.setrecursionlimit(old)
            out = []
            for c in cols:
                b = c.coords.box
                out.append({'lines': sorted(l.id for l in c.lines),
                            'line_boxes': sorted([l.id, l.coords.left, l.coords.top, l.coords.right, l.coords.bottom]
                                                 for l in c.lines),
                            'box': [b['x'], b['y'], b['w'], b['h']], 'id': c.id})
            out.sort(key=lambda c: (c['box'], c['lines'], str(c['id'])))
            return out

        def snap():
            return [reg.id, [[l.id, l.coords.left, l.coords.top, l.coords.right, l.coords.bottom] for l in reg.get_lines()]]
        before = snap()
        first = split()
        if not again:
            return {'cols': first}
        # history: the SAME region object split a second time (the model is pure: same answer), and the region's
        # lines (ids, boxes, get_lines() order) looked at before and after
        return {'cols': first, 'again': call(split), 'unchanged': before == snap()}
    res = canon(call(f))
    if 'ok' not in res:
        return res
    out = {'ok': res['ok']['cols']}
    if again:
        out['again'], out['unchanged'] = res['ok']['again'], res['ok']['unchanged']
    return out


def _model_req(inp: Dict[str, Any], region: Dict[str, Any]) -> Dict[str, Any]:
    return {'p': 'C18', 'op': 'split',
            'args': {'thr': inp.get('thr'), 'mcw': inp.get('mcw'),     # null = the source's default (Generated.C18)
                     'rid': inp.get('rid'), 'parent': inp.get('parent'), 'region': _strip_region(region)}}


def _canon_model(ans: Dict[str, Any]) -> Dict[str, Any]:
    if 'ok' not in ans:
        return ans
    cols = [{'lines': sorted(c['lines']), 'box': c['box'], 'id': c['id']} for c in ans['ok']]
    cols.sort(key=lambda c: (c['box'], c['lines'], str(c['id'])))
    return {'ok': cols}


def _strip_impl(out: Dict[str, Any]) -> Dict[str, Any]:
    if 'ok' not in out:
        return out
    return {'ok': [{'lines': c['lines'], 'box': c['box'], 'id': c['id']} for c in out['ok']]}


def _components(lines: List[Dict[str, Any]], thr: int) -> List[List[str]]:
    """the groups of the statement, computed from the geometry alone: sweep over the lines by
    left edge; a new group starts where the next line begins at least `thr` right of everything
    seen so far (no line bridges that gap)"""
    groups: List[List[str]] = []
    hi = None
    gap = max(thr, 2)       # a real gap has at least one uncovered pixel: distance >= 2
    for l in sorted(lines, key=lambda x: (x['box'][0], x['box'][2])):
        if hi is None or l['box'][0] - hi >= gap:
            groups.append([])
            hi = l['box'][2]
        groups[-1].append(l['id'])
        hi = max(hi, l['box'][2])
    return [sorted(g) for g in groups]


def _effective_thr(inp: Dict[str, Any]) -> int:
    """the gap threshold in effect: the one passed, else the default the real function declares (its public
    interface, read with inspect — not from the model)"""
    if inp.get('thr') is not None:
        return inp['thr']
    import inspect
    cp, _ = _real()
    return inspect.signature(cp.split_lines_on_column_gaps).parameters['gap_threshold'].default


ID_TAIL = re.compile(r'^((?:-text_region-\d+-\d+-\d+-\d+)*)-column-(\d+)-(\d+)-(\d+)-(\d+)$')


# WAVE 5 — the id of a returned column.  C18 says of it only that it "is derived from the region or its parent": which
# of the two the code takes, whether a left-over column's id passes through the id of the intermediate text region, and
# which box numbers the suffix carries (the box at the time the id was made, or the final one) are not fixed by the
# statement (the oracle reads it the same way: a base + ID_TAIL, any numbers).  The correspondence therefore compares
# the ids of model and implementation at that level:
#   * an id that reads as derived (the region's id or the parent's id followed by ID_TAIL) matches any id that reads as
#     derived; an id that does not read as derived is compared verbatim;
#   * within one result the derivation has to be consistent wherever the model's is: if all the model's column ids
#     can be read as derived from ONE of the two bases, so must the implementation's (from either one);
#   * everything else — which lines are in which column, every box, the number of columns — stays exact.

def _id_bases(cid: Any, inp: Dict[str, Any]):
    """the bases ('region', 'parent') the id can be read as derived from; None if from neither"""
    if not isinstance(cid, str):
        return None
    cands = [('region', str(inp.get('rid')))]
    if inp.get('parent') is not None:
        cands.append(('parent', str(inp['parent'].get('id'))))
    out = {name for name, bs in cands if cid.startswith(bs) and ID_TAIL.match(cid[len(bs):])}
    return out or None


def _id_level(res: Dict[str, Any], inp: Dict[str, Any]):
    """(result with every derived id replaced by the token 'derived', whether one base explains all derived ids)"""
    if 'ok' not in res:
        return res, True
    common = {'region', 'parent'}
    cols = []
    for c in res['ok']:
        b = _id_bases(c['id'], inp)
        if b is None:
            cols.append(dict(c, id={'as-is': c['id']}))
        else:
            common &= b
            cols.append(dict(c, id='derived'))
    cols.sort(key=lambda c: (c['box'], c['lines'], str(c['id'])))
    return {'ok': cols}, bool(common)


def _cols_differ(inp: Dict[str, Any], impl_res: Dict[str, Any], model_res: Dict[str, Any]) -> Optional[str]:
    i, i_one = _id_level(impl_res, inp)
    m, m_one = _id_level(model_res, inp)
    if i != m:
        return f'impl={short(impl_res)} model={short(model_res)}'
    if m_one and not i_one:
        return (f'the column ids of one result are derived partly from the region and partly from its parent '
                f'(the model\'s are not): impl={short(impl_res)} model={short(model_res)}')
    return None


class C18(Check):
    pid = 'C18'
    props_module = 'PagexmlModel.Props.C18'
    anchors = {'pagexml/column_parser.py': ['within_column', 'find_overlapping_columns', 'compute_pixel_dist',
                                            'determine_freq_gap_interval', 'find_column_gaps', 'make_derived_column',
                                            'merge_columns', 'sort_lines_in_column_ranges',
                                            'merge_overlapping_columns', 'make_column_range_columns',
                                            'handle_extra_lines', 'split_lines_on_column_gaps'],
               'pagexml/model/basic_document_model.py': ['PhysicalStructureDoc.set_derived_id'],
               'pagexml/model/pagexml_document_model.py': ['get_horizontal_overlap', 'is_horizontally_overlapping',
                                                           'PageXMLTextRegion.__lt__', 'PageXMLTextRegion.get_lines'],
               'pagexml/model/coords.py': ['parse_derived_coords']}
    level_note = ('proved for every list of lines (unbounded number and coordinates, zero-width lines included): the '
                  'pixel list is the covered-pixel set; the gap intervals are disjoint, sorted and at least '
                  'max(thr,2) apart; a line span lies in exactly one interval; fuel 2 suffices and more fuel changes '
                  'nothing (termination); conservation (permutation, enclosing hull box, derived id shape); '
                  'translation equivariance. For lines of positive width and every threshold / minimum width: no '
                  'exception, no two lines across a clean gap of max(thr,2) share a column, every gap-connected '
                  'group shares one column. Not proved: that the box numbers inside a column id are those of the '
                  'final box (they are not when a zero-width line is appended to a column of a parentless region). '
                  'Defaults and literals of the source (gap_threshold / overlap_threshold / min_column_width defaults, '
                  'the 2 of max(gap_threshold, 2), min_column_width=0 of the recursive call and the 0 of its guard, the '
                  'threshold reaching is_horizontally_overlapping) are REGENERATED on every run (translate() -> '
                  'Generated/C18.lean); proofs use only the named relations C18_consts_* about them; cases tagged '
                  'default-thr / mcw None call the real function without the argument and the model follows the source. '
                  'Inputs outside the quantifier (zero-size boxes, thresholds outside 1..200, explicit minimum widths) '
                  'are mirrored as an observation only (tagged outside-quantifier: differences recorded, not judged). '
                  'Histories (wave 4): every region OBJECT is split twice (second answer judged and compared with the first '
                  'and with the pure model; ids / boxes / get_lines() order of the region snapshotted before and after), '
                  'the translated region is split in between and the original input once more afterwards; '
                  'find_column_gaps is asked again after a call with another threshold on the same lines. '
                  'Correspondence level (wave 5): lines per column, boxes and the number of columns are compared exactly; a '
                  'column id is compared as "derived from the region or its parent" (the statement\'s words: either base, '
                  'any suffix of the shape -text_region-…-column-x-y-w-h; consistently within a result where the model is), '
                  'an id of any other shape verbatim.')
    assumptions = ['parse_derived_coords: the bounding box of the hull is the union of the input boxes (C09), no '
                   'QhullError since fc690f6 (sampled by the correspondence, also on zero-size boxes)',
                   'float comparison overlap/width > t agrees with overlap*q > p*width (t = p/q the decimal literal of the '
                   'source) for pixel sizes < 2^26',
                   'list.sort with PageXMLTextRegion.__lt__ = insertion sort with the same comparator; only reached '
                   'with horizontally disjoint columns, on which the comparator is a strict total order',
                   'get_lines of a region without reading order and without tables: sub-region lines first, then own']
    nontrivial_rule = 'distinct inputs with at least two lines (single-line and empty regions counted as trivial)'

    # ---------------------------------------------------------------- constants regenerated from the source
    def translate(self):
        """defaults and literals of column_parser.py that the model depends on, read with `ast` on every run"""
        from harness import translate as tr
        cp = 'pagexml/column_parser.py'
        dm = 'pagexml/model/pagexml_document_model.py'
        E = tr.TranslateError
        d = tr.func_defaults(cp, 'split_lines_on_column_gaps')
        for k in ('gap_threshold', 'overlap_threshold', 'min_column_width'):
            if k not in d:
                raise E(f'split_lines_on_column_gaps has no default for {k}')
        gap, mcw = tr.as_int(d['gap_threshold']), tr.as_int(d['min_column_width'])
        ovl = d['overlap_threshold']
        # the parameters travel by name: split -> find_column_gaps -> determine_freq_gap_interval,
        # split -> sort_lines_in_column_ranges -> within_column, split -> handle_extra_lines -> split
        def named(fn, callee, param, pos, var):
            a = tr.call_argument(cp, fn, callee, param, pos)
            if a != ('NAME', var):
                raise E(f'{fn}: {callee}(... {param}) is {a!r}, expected the variable {var}')
        named('split_lines_on_column_gaps', 'find_column_gaps', 'gap_threshold', 1, 'gap_threshold')
        named('find_column_gaps', 'determine_freq_gap_interval', 'gap_threshold', 1, 'gap_threshold')
        named('split_lines_on_column_gaps', 'sort_lines_in_column_ranges', 'overlap_threshold', 2, 'overlap_threshold')
        named('sort_lines_in_column_ranges', 'within_column', 'overlap_threshold', 2, 'overlap_threshold')
        named('split_lines_on_column_gaps', 'handle_extra_lines', 'gap_threshold', 3, 'gap_threshold')
        named('split_lines_on_column_gaps', 'handle_extra_lines', 'min_column_width', 4, 'min_column_width')
        named('handle_extra_lines', 'split_lines_on_column_gaps', 'gap_threshold', 1, 'gap_threshold')
        tr.literals_in(cp, 'within_column', 'overlap / line.coords.width > overlap_threshold')
        tr.literals_in(cp, 'split_lines_on_column_gaps', 'col_range["end"] - col_range["start"] >= min_column_width')
        # the recursive call: min_column_width literal, overlap_threshold left to its default
        rec_mcw = tr.call_argument(cp, 'handle_extra_lines', 'split_lines_on_column_gaps', 'min_column_width', 3)
        if rec_mcw == 'DEFAULT' or isinstance(rec_mcw, tuple):
            raise E(f'handle_extra_lines: the recursive call passes min_column_width={rec_mcw!r}, expected a literal')
        rec_mcw = tr.as_int(rec_mcw)
        if tr.call_argument(cp, 'handle_extra_lines', 'split_lines_on_column_gaps', 'overlap_threshold', 2) != 'DEFAULT':
            raise E('handle_extra_lines: the recursive call passes an overlap_threshold (the model uses the default)')
        rec_guard = tr.as_int(tr.literal_in(cp, 'handle_extra_lines', 'min_column_width > _N0'))
        min_gap = tr.as_int(tr.literal_in(cp, 'determine_freq_gap_interval',
                                          'next_pixel - curr_pixel < max(gap_threshold, _N0)'))
        # is_horizontally_overlapping as reached from find_overlapping_columns, handle_extra_lines and (columns.sort())
        # PageXMLTextRegion.__lt__: one threshold in the model, so the three call sites have to agree
        thrs = {tr.effective_argument(cp, 'find_overlapping_columns', 'is_horizontally_overlapping', 'threshold', 2, dm),
                tr.effective_argument(cp, 'handle_extra_lines', 'is_horizontally_overlapping', 'threshold', 2, dm),
                tr.effective_argument(dm, 'PageXMLTextRegion.__lt__', 'is_horizontally_overlapping', 'threshold', 2, dm)}
        if len(thrs) != 1:
            raise E(f'is_horizontally_overlapping is reached with different thresholds: {sorted(thrs)}')
        body = tr.HEADER.format(
            src=f'{cp}: defaults of split_lines_on_column_gaps, max(gap_threshold, N) in determine_freq_gap_interval, '
                f'the recursive call and its guard in handle_extra_lines; {dm}: threshold of '
                f'is_horizontally_overlapping as called from column_parser / PageXMLTextRegion.__lt__') + (
            'namespace Pagexml.Generated.C18\n\n'
            '/-- default `gap_threshold` of split_lines_on_column_gaps -/\n'
            f'def defaultGapThreshold : Int := {tr.lean_int(gap)}\n\n'
            '/-- default `min_column_width` of split_lines_on_column_gaps -/\n'
            f'def defaultMinColumnWidth : Int := {tr.lean_int(mcw)}\n\n'
            '/-- default `overlap_threshold` (p, q) of split_lines_on_column_gaps, handed down to within_column -/\n'
            f'def withinThr : Int × Int := {tr.lean_ratio(ovl)}\n\n'
            '/-- `N` of `next_pixel - curr_pixel < max(gap_threshold, N)` in determine_freq_gap_interval -/\n'
            f'def minGapPixels : Int := {tr.lean_int(min_gap)}\n\n'
            '/-- `min_column_width` passed by the recursive call in handle_extra_lines -/\n'
            f'def recMinColumnWidth : Int := {tr.lean_int(rec_mcw)}\n\n'
            '/-- `N` of the guard `if min_column_width > N:` around the recursive call -/\n'
            f'def recGuard : Int := {tr.lean_int(rec_guard)}\n\n'
            '/-- threshold (p, q) with which column_parser and `__lt__` reach is_horizontally_overlapping -/\n'
            f'def colHOverlapThr : Int × Int := {tr.lean_ratio(thrs.pop())}\n\n'
            'end Pagexml.Generated.C18\n')
        return {'PagexmlModel/Generated/C18.lean': body}

    # ---------------------------------------------------------------- generation
    def cases(self, rng: random.Random, tier: str) -> Iterable[Case]:
        out: List[Case] = []
        quick = tier == 'quick'

        def mk(lines_or_region, thr=50, mcw=None, rid='r1', parent=None, dx=0, dy=0, tags=(), kind='split'):
            region = lines_or_region if isinstance(lines_or_region, dict) else \
                {'lines': lines_or_region, 'subs': []}
            inp = {'thr': thr, 'mcw': mcw, 'rid': rid, 'parent': parent, 'region': region, 'dx': dx, 'dy': dy}
            tags = list(tags)
            # WAVE 3: the quantifier is "all sets of lines with POSITIVE-SIZE boxes ... gap thresholds 1..200" with the
            # default minimum column width; zero-size boxes, other thresholds / widths and repeated ids are outside it
            # (`in_quantifier`, which already keeps the oracle away from them): the model still mirrors the code
            # there, a difference is recorded in the evidence instead of breaking the correspondence
            if kind == 'split' and not self.in_quantifier(inp):
                tags.append(OUTSIDE)
            out.append(Case(kind, inp, tags))

        def ln(i, l, t, r, b, bl=False):
            return {'id': f'l{i}', 'box': [l, t, r, b], 'bl': bl}

        # -- corpus: the inputs of the three repaired defects and other regressions
        grid42 = [ln(rw * 2 + c, 10 + c * 500, 100 + rw * 50, 10 + c * 500 + 300, 130 + rw * 50)
                  for rw in range(4) for c in range(2)]
        mk(grid42, dx=200, dy=0, tags=['corpus', 'x0-interval'])
        mk([ln(0, 100, 10, 110, 40)], tags=['corpus', 'narrow-line'])
        mk([ln(0, 100, 10, 110, 40)], parent={'id': 'p1'}, dx=7, dy=3, tags=['corpus', 'narrow-line'])
        mk([ln(0, 100, 0, 300, 30), ln(1, 100, 40, 300, 70), ln(2, 330, 0, 340, 30), ln(3, 360, 0, 372, 30)],
           thr=10, tags=['corpus', 'extra-lines-gap'])
        mk([ln(0, 100, 0, 110, 10), ln(1, 300, 0, 310, 10), ln(2, 500, 0, 700, 10)], tags=['corpus', 'narrow-groups'])
        mk([ln(0, 0, 0, 100, 10), ln(1, 0, 20, 100, 30), ln(2, 300, 0, 400, 10)], thr=1, tags=['corpus', 'thr1'])
        mk([ln(0, 0, 0, 100, 10), ln(1, 0, 20, 100, 30), ln(2, 300, 0, 400, 10)], thr=2, tags=['corpus'])
        mk([], tags=['corpus', 'empty'])
        mk([ln(0, 100, 0, 300, 10), ln(1, 150, 20, 150, 40)], tags=['corpus', 'degenerate'])
        mk([ln(0, 100, 0, 300, 10), ln(1, 150, 20, 150, 40)], parent={'id': 'p1'}, tags=['corpus', 'degenerate'])
        mk([ln(0, 100, 0, 300, 10), ln(1, 150, 20, 150, 40), ln(2, 500, 0, 510, 10)], parent={'id': None},
           tags=['corpus', 'degenerate'])
        mk([ln(0, 150, 20, 150, 40), ln(1, 150, 50, 150, 60)], tags=['corpus', 'degenerate'])
        mk([ln(0, 150, 20, 150, 40), ln(1, 160, 50, 160, 60)], tags=['corpus', 'degenerate'])
        mk([ln(0, 100, 20, 150, 20), ln(1, 120, 20, 180, 20)], tags=['corpus', 'degenerate'])
        mk([ln(0, 100, 20, 100, 20)], tags=['corpus', 'degenerate'])

        # -- exhaustive: all multisets of <= k lines over a small lattice of x-intervals
        xs = [0, 1, 2, 4, 7, 30, 60]
        spans = [(a, b) for a in xs for b in xs if a < b]
        k = 2 if quick else 3
        thrs = [1, 2, 3, 25] if quick else [1, 2, 3, 4, 23, 25, 31]
        for n in range(1, k + 1):
            for combo in itertools.combinations_with_replacement(spans, n):
                for thr in thrs:
                    if not quick and n == 3 and thr not in (2, 3, 25):
                        continue
                    lines = [ln(i, a, 10 * i, b, 10 * i + 8) for i, (a, b) in enumerate(combo)]
                    mk(lines, thr=thr, tags=['lattice'])
        for combo in itertools.combinations_with_replacement(spans, 2):
            lines = [ln(i, a, 10 * i, b, 10 * i + 8) for i, (a, b) in enumerate(combo)]
            mk(lines, thr=3, mcw=0, tags=['lattice', 'mcw'])
            mk(lines, thr=3, mcw=5, tags=['lattice', 'mcw'])

        # -- clean grids: r <= 8 rows, c <= 4 columns, gaps at or above the threshold
        n_grid = 600 if quick else 12000
        for _ in range(n_grid):
            self._grid(rng, mk, ln)
        # -- many groups (up to 8), narrow and wide mixed, 1..3 lines each
        n_multi = 600 if quick else 12000
        for _ in range(n_multi):
            self._multi(rng, mk, ln)
        # -- random line sets
        n_rand = 1200 if quick else 24000
        for _ in range(n_rand):
            self._random(rng, mk, ln)
        # -- malformed / outside the quantifier: zero-size boxes, thresholds <= 0 or > 200, other min widths
        n_mal = 300 if quick else 5000
        for _ in range(n_mal):
            self._malformed(rng, mk, ln)
        # -- find_column_gaps alone
        n_gaps = 200 if quick else 3000
        for _ in range(n_gaps):
            n = rng.randint(0, 8)
            lines = [self._rand_line(rng, ln, i, 700) for i in range(n)]
            mk(lines, thr=rng.choice([1, 2, 5, 20, 50, 100, 200, rng.randint(1, 200)]), tags=['gaps'], kind='gaps')
        return out

    @staticmethod
    def _thr(rng):
        return rng.choice([1, 2, 3, 5, 10, 19, 20, 21, 49, 50, 51, 100, 199, 200]) if rng.random() < 0.6 \
            else rng.randint(1, 200)

    @staticmethod
    def _ctx(rng):
        rid = rng.choice(['r1', 'region-7', 'r1', None])
        parent = rng.choice([None, None, {'id': 'page-1'}, {'id': 'p'}, {'id': None}, {'id': ''}])
        return rid, parent

    def _nest(self, rng, lines):
        """distribute the lines over a nested region tree (depth <= 3)"""
        if rng.random() < 0.6 or len(lines) < 2:
            return {'lines': lines, 'subs': []}
        lines = list(lines)
        rng.shuffle(lines)

        def build(ls, depth):
            if depth >= 3 or len(ls) < 2 or rng.random() < 0.4:
                return {'lines': ls, 'subs': []}
            cut = sorted(rng.sample(range(len(ls) + 1), 2))
            own = ls[:cut[0]]
            rest = [ls[cut[0]:cut[1]], ls[cut[1]:]]
            return {'lines': own, 'subs': [build(r, depth + 1) for r in rest if r or rng.random() < 0.3]}
        return build(lines, 0)

    def _grid(self, rng, mk, ln):
        thr = self._thr(rng)
        # every fifth grid is split WITHOUT passing gap_threshold: the layout is still built around `thr` (gaps at
        # thr, thr + 1, ...), the function's own default decides, and oracle and model follow that default
        dflt = rng.random() < 0.2
        if dflt:
            thr = rng.choice([thr, 39, 40, 41, 49, 50, 51, 59, 60, 61])
        rows, ncols = rng.randint(1, 8), rng.randint(1, 4)
        x = rng.choice([0, 0, 1, 5, 10, thr - 1, thr, thr + 1, rng.randint(0, 300)])
        x = max(0, x)
        lines, i = [], 0
        for c in range(ncols):
            w = rng.choice([rng.randint(2, 19), rng.randint(20, 60), rng.randint(60, 400), 20, 19, 21])
            jit = rng.randint(0, max(0, (w - 1) // 2 - 1)) if rng.random() < 0.7 else 0
            present = [rw for rw in range(rows) if rng.random() < 0.85] or [0]
            for rw in present:
                l = x + rng.randint(0, jit)
                r = x + w - rng.randint(0, jit)
                if r <= l:
                    l, r = x, x + w
                t = 50 + rw * 40 + rng.randint(0, 5)
                lines.append(ln(i, l, t, r, t + rng.randint(5, 30), bl=rng.random() < 0.3))
                i += 1
            x += w + rng.choice([thr, thr, thr + 1, thr + rng.randint(0, 100)])
        if rng.random() < 0.5:
            rng.shuffle(lines)
        rid, parent = self._ctx(rng)
        mk(self._nest(rng, lines), thr=None if dflt else thr, rid=rid, parent=parent,
           dx=rng.choice([0, 1, thr, 200, rng.randint(0, 600)]), dy=rng.randint(0, 300),
           tags=['grid', 'default-thr'] if dflt else ['grid'])

    def _multi(self, rng, mk, ln):
        thr = self._thr(rng)
        x = rng.choice([0, 3, rng.randint(0, 100)])
        lines, i = [], 0
        for _ in range(rng.randint(1, 8)):
            w = rng.choice([rng.randint(1, 19), rng.randint(1, 19), rng.randint(20, 120), rng.randint(20, 300)])
            for _ in range(rng.randint(1, 3)):
                a = x + rng.randint(0, w // 3)
                b = x + w - rng.randint(0, w // 3)
                if b <= a:
                    a, b = x, x + w
                t = rng.randint(0, 300)
                lines.append(ln(i, a, t, b, t + rng.randint(1, 30), bl=rng.random() < 0.2))
                i += 1
            lines.append(ln(i, x, 400, x + w, 420))     # one line spanning the whole group
            i += 1
            x += w + max(thr, 2) + rng.choice([0, 0, 1, rng.randint(0, 60)])
        rng.shuffle(lines)
        rid, parent = self._ctx(rng)
        mk(self._nest(rng, lines), thr=thr, rid=rid, parent=parent,
           dx=rng.choice([0, 1, 50, rng.randint(0, 600)]), dy=rng.randint(0, 300), tags=['multi'])

    @staticmethod
    def _rand_line(rng, ln, i, span):
        kind = rng.random()
        if kind < 0.3:
            w = rng.randint(1, 19)                      # narrower than min_column_width
        elif kind < 0.75:
            w = rng.randint(20, 200)
        else:
            w = rng.randint(min(200, span), span)       # spans several groups
        l = rng.choice([0, 0, 1, rng.randint(0, 60), rng.randint(0, span)])
        t = rng.randint(0, 400)
        return ln(i, l, t, l + w, t + rng.randint(1, 40), bl=rng.random() < 0.3)

    def _random(self, rng, mk, ln):
        thr = self._thr(rng)
        n = rng.choice([1, 2, 3, 4, 5, 6, 8, 10, 14, 20])
        span = rng.choice([100, 400, 1000, 1500])
        lines = [self._rand_line(rng, ln, i, span) for i in range(n)]
        rid, parent = self._ctx(rng)
        dflt = rng.random() < 0.1
        mk(self._nest(rng, lines), thr=None if dflt else thr, rid=rid, parent=parent,
           dx=rng.choice([0, 1, 49, 50, rng.randint(0, 600)]), dy=rng.randint(0, 300),
           tags=['random', 'default-thr'] if dflt else ['random'])

    def _malformed(self, rng, mk, ln):
        n = rng.randint(1, 7)
        lines = []
        for i in range(n):
            l = self._rand_line(rng, ln, i, 500)
            r = rng.random()
            if r < 0.3:
                l['box'][2] = l['box'][0]               # zero width
            elif r < 0.4:
                l['box'][3] = l['box'][1]               # zero height
            elif r < 0.45:
                l['box'][2] = l['box'][0]
                l['box'][3] = l['box'][1]
            lines.append(l)
        if rng.random() < 0.3:                          # several zero-width lines on one x
            x = rng.randint(0, 300)
            for l in lines[:rng.randint(1, n)]:
                l['box'][0] = l['box'][2] = x
        rid, parent = self._ctx(rng)
        thr = rng.choice([self._thr(rng), self._thr(rng), 0, -5, 201, 500])
        mcw = rng.choice([None, None, 0, 1, 5, 50, 100, -3])
        mk(self._nest(rng, lines), thr=thr, mcw=mcw, rid=rid, parent=parent,
           dx=rng.randint(0, 100), dy=rng.randint(0, 100), tags=['malformed'])

    # ---------------------------------------------------------------- implementation
    def impl(self, case: Case) -> Any:
        inp = case.input
        if case.kind == 'gaps':
            cp, pdm = _real()

            def f():
                reg = _build(pdm, inp['region'], 'r', [0])
                lines = reg.get_lines()
                first = [[d['start'], d['end']] for d in cp.find_column_gaps(lines, inp['thr'])]
                # history: another threshold on the same lines in between, then the same question again
                cp.find_column_gaps(lines, inp['thr'] + 7)
                second = [[d['start'], d['end']] for d in cp.find_column_gaps(lines, inp['thr'])]
                if second != first:
                    return {'first': first, 'second': second}
                return first
            return canon(call(f))
        base = _run_real(inp, inp['region'], again=True)
        moved = _run_real(inp, _move_region(inp['region'], inp['dx'], inp['dy']), again=True)
        # ... and the first region once more (a fresh object), after another region was split in this process
        return {'base': base, 'moved': moved, 'base_after': _run_real(inp, inp['region'])}

    # ---------------------------------------------------------------- model
    def requests(self, case: Case):
        inp = case.input
        if case.kind == 'gaps':
            return [{'p': 'C18', 'op': 'gaps', 'args': {'thr': inp['thr'], 'region': _strip_region(inp['region'])}}]
        return [_model_req(inp, inp['region']),
                _model_req(inp, _move_region(inp['region'], inp['dx'], inp['dy']))]

    def compare(self, case, impl_out, model_out):
        if case.kind == 'gaps':
            return None if impl_out == model_out[0] else f'impl={short(impl_out)} model={short(model_out[0])}'
        for name, ans in zip(('base', 'moved'), model_out):
            inp = case.input
            i, m = _strip_impl(impl_out[name]), _canon_model(ans)
            d = _cols_differ(inp, i, m)
            if d:
                return f'{name}: {d}'
            # the pure model gives the same answer for the second call on the same region object
            if 'again' in impl_out[name]:
                d = _cols_differ(inp, _strip_impl(impl_out[name]['again']), m)
                if d:
                    return f'{name}, second call on the same region: {d}'
        if 'base_after' in impl_out:
            d = _cols_differ(case.input, _strip_impl(impl_out['base_after']), _canon_model(model_out[0]))
            if d:
                return f'base, after another region was split: {d}'
        return None

    # ---------------------------------------------------------------- oracle
    @staticmethod
    def in_quantifier(inp: Dict[str, Any]) -> bool:
        lines = _all_lines(inp['region'])
        thr = _effective_thr(inp)
        return (inp.get('mcw') is None and isinstance(thr, int) and 1 <= thr <= 200 and
                all(l['box'][0] < l['box'][2] and l['box'][1] < l['box'][3] and l['box'][0] >= 0 and l['box'][1] >= 0
                    for l in lines) and len({l['id'] for l in lines}) == len(lines))

    def _judge(self, inp, region, res, bad, which):
        """the statement on one run of the real code"""
        thr = _effective_thr(inp)
        cls = f'thr={thr}' if thr == 1 else 'thr>=2'
        lines = _all_lines(region)
        if 'ok' not in res:
            bad(f'error={res.get("err")}', f'{which}: splitting raised {res.get("err")} (must terminate normally)')
            return None
        cols = res['ok']
        seen: Dict[str, int] = {}
        for c in cols:
            for i in c['lines']:
                seen[i] = seen.get(i, 0) + 1
        want = {l['id'] for l in lines}
        if set(seen) != want or any(v != 1 for v in seen.values()):
            missing = sorted(want - set(seen))
            dup = sorted(i for i, v in seen.items() if v != 1)
            bad('conservation', f'{which}: lines missing {missing}, lines in several columns {dup}, '
                                f'unknown {sorted(set(seen) - want)}')
        boxes = {l['id']: l['box'] for l in lines}
        for c in cols:
            x, y, w, h = c['box']
            for i in c['lines']:
                if i not in boxes:
                    continue
                l, t, r, b = boxes[i]
                if not (x <= l and r <= x + w and y <= t and b <= y + h):
                    bad('box', f'{which}: column box {c["box"]} does not enclose line {i} {boxes[i]}')
            # id derived from the parent (when it has an id) or from the region
            parent = inp.get('parent')
            bases = [str(inp.get('rid'))]
            if parent is not None:
                bases.append(str(parent.get('id')))
            cid = c['id']
            if not (isinstance(cid, str) and any(cid.startswith(bs) and ID_TAIL.match(cid[len(bs):]) for bs in bases)):
                bad('id', f'{which}: column id {cid!r} is not derived from {bases}')
        # separation / togetherness, judged against groups computed from the geometry alone
        col_of = {}
        for ci, c in enumerate(cols):
            for i in c['lines']:
                col_of.setdefault(i, ci)
        groups = _components(lines, thr)
        for g in groups:
            if len({col_of[i] for i in g if i in col_of}) > 1:
                bad(f'together:{cls}', f'{which}: lines of one group {g} are spread over several columns')
        firsts = [col_of[g[0]] for g in groups if g[0] in col_of]     # lost lines are a conservation matter
        if len(set(firsts)) != len(firsts):
            bad(f'separation:{cls}', f'{which}: {len(groups)} groups separated by clean gaps >= {max(thr, 2)} '
                                     f'(gap_threshold={thr}) share columns (got {len(cols)} columns)')
        return {frozenset(c['lines']): c['box'] for c in cols}

    def oracle(self, case: Case, out: Any) -> List[Finding]:
        fs: List[Finding] = []
        if case.kind == 'gaps' and isinstance(out.get('ok'), dict) and self.in_quantifier(dict(case.input, mcw=None)):
            fs.append(Finding('C18:gaps-not-repeatable', f'find_column_gaps on the same lines and threshold gives '
                              f'{out["ok"]["second"]} after a call with another threshold, the first time {out["ok"]["first"]}',
                              case, out))
        if case.kind != 'split' or not self.in_quantifier(case.input):
            return fs
        inp = case.input
        keys = set()

        def bad(key, what):
            if key not in keys:
                keys.add(key)
                fs.append(Finding(f'C18:{key}', what, case, out))
        base = self._judge(inp, inp['region'], out['base'], bad, 'input')
        moved = self._judge(inp, _move_region(inp['region'], inp['dx'], inp['dy']), out['moved'], bad, 'translated')
        # histories: the same region object split a second time, and the same input split again after another region
        # went through the function — each run judged as above, and its columns those of the first run
        for name, region in (('base', inp['region']), ('moved', _move_region(inp['region'], inp['dx'], inp['dy']))):
            o = out[name]
            if 'again' in o and 'ok' in o:
                self._judge(inp, region, o['again'], lambda k, w: bad(k + ':second-call', w),
                            'the same region object split a second time')
                if _strip_impl(o['again']) != _strip_impl(o):
                    bad('not-repeatable:same-region', f'splitting the same region a second time gives '
                                                      f'{short(_strip_impl(o["again"]))}, the first time {short(_strip_impl(o))}')
                if not o['unchanged']:
                    bad('input-mutated', 'the lines of the region (ids, boxes, order of get_lines()) were changed by splitting')
        if 'base_after' in out and 'ok' in out['base']:
            self._judge(inp, inp['region'], out['base_after'], lambda k, w: bad(k + ':after-another-region', w),
                        'the input split again after another region was split')
            if _strip_impl(out['base_after']) != _strip_impl(out['base']):
                bad('not-repeatable:after-another-region',
                    f'splitting the same input again after another region gives {short(_strip_impl(out["base_after"]))}, '
                    f'the first time {short(_strip_impl(out["base"]))}')
        if base is not None and moved is not None:
            dx, dy = inp['dx'], inp['dy']
            if set(base) != set(moved):
                bad('translate', f'translating by ({dx},{dy}) changes the columns: {len(base)} -> {len(moved)}')
            else:
                for k, b in base.items():
                    m = moved[k]
                    if [b[0] + dx, b[1] + dy, b[2], b[3]] != m:
                        bad('translate', f'translated column box {m} is not {b} moved by ({dx},{dy})')
        return fs

    def nontrivial(self, case: Case) -> bool:
        return len(_all_lines(case.input['region'])) >= 2

    def shrink_candidates(self, case: Case):
        inp = case.input
        lines = _all_lines(inp['region'])
        if inp['region'].get('subs'):
            yield Case(case.kind, dict(inp, region={'lines': lines, 'subs': []}), case.tags)
            return
        for i in range(len(lines)):
            yield Case(case.kind, dict(inp, region={'lines': lines[:i] + lines[i + 1:], 'subs': []}), case.tags)
        if inp.get('dx') or inp.get('dy'):
            yield Case(case.kind, dict(inp, dx=0, dy=0), case.tags)
        if inp.get('parent') is not None:
            yield Case(case.kind, dict(inp, parent=None), case.tags)
        if any(l.get('bl') for l in lines):
            yield Case(case.kind, dict(inp, region={'lines': [dict(l, bl=False) for l in lines], 'subs': []}),
                       case.tags)
        for i, l in enumerate(lines):
            for j in range(4):
                v = l['box'][j]
                for nv in (v // 2, v - 1):
                    if 0 <= nv < v:
                        nb = list(l['box'])
                        nb[j] = nv
                        if nb[0] < nb[2] and nb[1] < nb[3]:
                            yield Case(case.kind, dict(inp, region={
                                'lines': lines[:i] + [dict(l, box=nb)] + lines[i + 1:], 'subs': []}), case.tags)


CHECK = C18()
