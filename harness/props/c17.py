"""C17 — Word splitting is total and conservative; the hyphen rule decides merges."""
from __future__ import annotations

import contextlib
import io
import itertools
import random
import re
import unicodedata
from typing import Any, Dict, Iterable, List, Optional

from harness.core import Case, Check, Finding, Infra, call, canon

ALPHA = 'aB1.-=„ \t _é'            # adversarial alphabet (12 symbols)
BREAK_SETS = ['-', '-=:', '„-']
UNI_POOL = ('abcdefgzABCXYZ0189 \t\n\r  　 .,;:!?\'"()-=„“”‐‑–—_éÉßçñäÄǅǈᾈΩωжЖשא中٣۵²½'
            '́​­')


def class_bits(ch: str) -> int:
    """class bits of one character as computed by the running CPython (DESIGN §3.3)"""
    return ((1 if re.match(r'\w', ch) else 0) | (2 if ch.isalpha() else 0) | (4 if ch.isupper() else 0) |
            (8 if ch.islower() else 0) | (16 if unicodedata.category(ch) == 'Lt' else 0) |
            (32 if ch.isdigit() else 0) | (64 if ch.isspace() else 0))


def class_table(strings: Iterable[Optional[str]]) -> Dict[str, int]:
    tab: Dict[str, int] = {}
    for s in strings:
        if s:
            for ch in s:
                if ch not in tab:
                    b = class_bits(ch)
                    # the laws the theorems assume of a CharClass, checked on every character sent
                    if (b & 2 and not b & 1) or (b & 64 and b & 1) or (ch == ' ' and not b & 64) or \
                            ((b & 64 != 0) != (ch.strip() == '')):
                        raise Infra(f'CPython character classes break an assumed law for {ch!r}: {b}')
                    tab[ch] = b
    return tab


def _real():
    from pagexml.helper import text_helper
    from pagexml.analysis import text_stats
    return text_helper, text_stats


def is_space(ch: str) -> bool:
    return ch.isspace()


def nospace(s: str) -> str:
    return ''.join(ch for ch in s if not ch.isspace())


def norm_trail(s: str, B: str) -> str:
    """the statement's normalisation: a doubled trailing break character counts once and a blank
    between the last word and a trailing break character is dropped (whitespace is ignored anyway)"""
    if len(s) >= 2 and s[-1] in B and s[-2] in B:
        return s[:-1]
    return s


# ---------------------------------------------------------------------------------------
# detectors: trained on a generated corpus, or given as explicit tables
# ---------------------------------------------------------------------------------------

def gen_corpus(spec: Dict[str, Any]) -> List[Dict[str, str]]:
    """a small corpus with line-end fragments, line-start fragments and their merged forms"""
    rng = random.Random(spec['seed'])
    bc = spec['B'][0]
    stems = ['ver', 'Amster', 'ge', 'Raad', 'be', 'Staten', 'on', 'Hoog']
    tails = ['gadering', 'dam', 'daan', 'pensionaris', 'sluit', 'Generaal', 'der', 'Mogende']
    mids = ['de', 'het', 'een', 'van', 'en', 'op', 'te', 'dat', 'is', 'niet', 'heeft', 'Heeren', '12', '.', ',',
            'A', 'DE']
    merged = [s + t for s, t in zip(stems, tails)] + [s + bc + t for s, t in zip(stems[:3], tails[:3])]
    n = spec['n']
    p_break = spec.get('p_break', 0.4)
    lines = []
    carry = None
    for _ in range(n):
        ws = [rng.choice(mids + merged) if rng.random() < 0.8 else rng.choice(stems + tails)
              for _ in range(rng.randint(0, 7))]
        if carry is not None:
            ws.insert(0, carry)
            carry = None
        elif rng.random() < 0.15:
            ws.insert(0, rng.choice(tails[:4]))          # frequent line starts
        if rng.random() < p_break:
            i = rng.randrange(len(stems))
            ws.append(stems[i] + (bc if rng.random() < 0.9 else ''))
            if rng.random() < 0.85:
                carry = tails[i] if rng.random() < 0.9 else rng.choice(tails)
        elif rng.random() < 0.2:
            ws.append(rng.choice(['en', 'de', 'van']))   # frequent line ends that never merge
        r = rng.random()
        text = ' '.join(ws)
        if r < 0.02:
            text = None
        elif r < 0.04:
            text = ''
        lines.append({'text': text})
    return lines


_DET_CACHE: Dict[str, Any] = {}


def make_detector(spec: Optional[Dict[str, Any]]):
    """spec None -> no detector; {'gen': {...}} -> real WordBreakDetector trained on gen_corpus;
    {'tables': {...}} -> a WordBreakDetector whose counters and sets are set from explicit tables"""
    if spec is None:
        return None
    key = repr(spec)
    if key in _DET_CACHE:
        return _DET_CACHE[key]
    th, ts = _real()
    with contextlib.redirect_stdout(io.StringIO()):
        if 'gen' in spec:
            g = spec['gen']
            wbd = ts.WordBreakDetector(min_bigram_word_freq=g.get('min_bigram', 5), word_break_chars=g['B'],
                                       lines=gen_corpus(g))
        else:
            t = spec['tables']
            wbd = ts.WordBreakDetector(word_break_chars=t['B'])
            for k in ('all', 'mid', 'start', 'end'):
                for w, n in t[k]:
                    wbd.freq[k][w] = n
            for a, b, n in t['bigram']:
                wbd.mid_bigram_freq[(a, b)] = n
            wbd.typical_merge_ends = set(t['tme'])
            wbd.typical_merge_starts = set(t['tms'])
            wbd.typical_non_merge_ends = set(t['tnme'])
            wbd.typical_non_merge_starts = set(t['tnms'])
            wbd.common_non_merge_starts = set(t['cnms'])
    if len(_DET_CACHE) > 64:
        _DET_CACHE.clear()
    _DET_CACHE[key] = wbd
    return wbd


def export_detector(wbd) -> Optional[Dict[str, Any]]:
    """the data determine_word_break reads from the detector, for the model driver"""
    if wbd is None:
        return None
    return {
        'all': sorted([w, n] for w, n in wbd.freq['all'].items()),
        'mid': sorted([w, n] for w, n in wbd.freq['mid'].items()),
        'start': sorted([w, n] for w, n in wbd.freq['start'].items()),
        'end': sorted([w, n] for w, n in wbd.freq['end'].items()),
        'bigram': sorted([a, b, n] for (a, b), n in wbd.mid_bigram_freq.items()),
        'tme': sorted(wbd.typical_merge_ends), 'tms': sorted(wbd.typical_merge_starts),
        'tnme': sorted(wbd.typical_non_merge_ends), 'tnms': sorted(wbd.typical_non_merge_starts),
        'cnms': sorted(wbd.common_non_merge_starts),
        'B': ''.join(sorted(wbd.word_break_chars)),
    }


def random_tables(rng: random.Random, B: str, vocab: List[str]) -> Dict[str, Any]:
    """an arbitrary detector record over a small vocabulary (covers branches training rarely reaches)"""
    def counter(p):
        return sorted([w, rng.choice([1, 2, 4, 5, 6, 9, 10, 11, 50, 99, 100, 101, 999, 1000, 1001, 5000])]
                      for w in vocab if rng.random() < p)

    def subset(p):
        return sorted(w for w in vocab if rng.random() < p)
    big = sorted([a, b, rng.choice([1, 2, 3, 5, 6, 10, 11, 12, 30, 200])]
                 for a in vocab for b in vocab if rng.random() < 0.15)
    return {'B': B, 'all': counter(0.5), 'mid': counter(0.4), 'start': counter(0.4), 'end': counter(0.4),
            'bigram': big, 'tme': subset(0.1), 'tms': subset(0.1), 'tnme': subset(0.07), 'tnms': subset(0.07),
            'cnms': subset(0.1)}


# ---------------------------------------------------------------------------------------

def enum_strings(alpha: str, prefix: str, n: int) -> List[str]:
    out = []
    for k in range(n + 1):
        for t in itertools.product(alpha, repeat=k):
            out.append(prefix + ''.join(t))
    return out


def rand_line(rng: random.Random, B: str, maxlen: int = 30) -> str:
    r = rng.random()
    if r < 0.4:      # word-like text
        ws = []
        for _ in range(rng.randint(0, 6)):
            w = ''.join(rng.choice('abcdeéßXYZ019_') for _ in range(rng.randint(1, 6)))
            q = rng.random()
            if q < 0.15:
                w += rng.choice(B)
            elif q < 0.25:
                w = rng.choice(B) + w
            elif q < 0.35:
                w += rng.choice('.,;:!?')
            elif q < 0.4:
                w = w + rng.choice(B) + w
            ws.append(w)
        s = rng.choice([' ', ' ', ' ', '  ', '\t', ' ', ' - ', ' ' + B[0]]).join(ws)
        tail = rng.choice(['', '', B[0], B[-1], B[0] * 2, ' ' + B[0], B[0] + ' ', ' ', '  ', '.', B[0] + B[-1],
                           ' ' + B[-1] * 2, '\t' + B[0]])
        return s + tail
    if r < 0.8:      # adversarial alphabet, longer
        return ''.join(rng.choice(ALPHA + B) for _ in range(rng.randint(0, maxlen)))
    return ''.join(rng.choice(UNI_POOL + B) for _ in range(rng.randint(0, maxlen)))


class C17(Check):
    pid = 'C17'
    props_module = 'PagexmlModel.Props.C17'
    anchors = {
        'pagexml/helper/text_helper.py': ['get_line_words', 'get_page_lines_words', 'split_line_words',
                                          'remove_word_break_chars', 'remove_hyphen'],
        'pagexml/analysis/text_stats.py': ['determine_word_break', 'has_non_merge_word', 'end_start_are_bigram',
                                           'start_is_titleword', 'end_start_are_hyphenated_compound',
                                           'start_word_has_incorrect_titlecase', 'has_common_merge_end',
                                           'has_word_break_symbol', 'end_is_common_word', 'merge_is_more_common',
                                           'is_non_mid_word'],
    }
    level_note = ('proved for every string, every break-character set and every character classification '
                  '(CharClass) obeying three laws (alpha => word, space => not word, U+0020 is a space): totality, '
                  'no empty / blank token, conservation of the non-whitespace characters, hyphen rule, detector '
                  'range for an arbitrary detector record, punctuation never merges, strip-only-breaks. '
                  'CPython re / str methods are tied to the CharClass record by the correspondence only')
    assumptions = [
        're.split(r"\\b", s) yields the maximal runs of \\w / non-\\w characters with an empty first/last piece at a '
        'word edge (sampled: op re_split)',
        'str.strip / isalpha / isupper / islower / isdigit / isspace and \\w act per character as the class bits '
        'sent with every request say (bits computed by the running CPython; the three CharClass laws are checked '
        'on every character sent)',
        'Counter lookups of a missing key give 0; the detector is read, never written, by determine_word_break',
    ]
    nontrivial_rule = ('distinct inputs; non-trivial = a batch containing at least one line with a break character, '
                       'whitespace and a word character, or a line pair whose first line has a word')

    # ---------------------------------------------------------------- generation
    def cases(self, rng: random.Random, tier: str) -> Iterable[Case]:
        out: List[Case] = []
        quick = tier == 'quick'
        # corpus: regression inputs (past failures of the pinned tree first)
        corpus = ['a  b', ' a', 'a\tb', 'a  ', '   ', 'ab  ', 'a -', 'a--', 'a- -', 'a -- b', '-', '--', ' -', '- ',
                  'ab-cd', 'ab- cd', 'ab -cd', '1-a', 'a-1', '-a', 'a-', 'a.-', 'a-.', 'a_-b', 'é-é', 'a=b', 'a =',
                  'a „', '„a', 'a„„', 'x -', 'x  y', '\t', 'a . . b', 'a.b', '. a', 'a .', 'ǅa-b',
                  'a-\tb', 'a \t-', 'ab -', 'ab  -', 'ab - ', None, '']
        for B in BREAK_SETS + [' -', 'a-', '.']:
            out.append(Case('words', {'B': B, 'lines': corpus}, ['corpus']))
        out.append(Case('resplit', {'lines': [c for c in corpus if c is not None]}, ['corpus']))
        # exhaustive: all strings up to length 4 (quick) / 5 (thorough) over the adversarial alphabet
        n_tail = 2 if quick else 3
        for B in BREAK_SETS:
            out.append(Case('words_enum', {'B': B, 'alpha': ALPHA, 'prefix': '', 'n': 1}, ['enum']))
            for p in itertools.product(ALPHA, repeat=2):
                out.append(Case('words_enum', {'B': B, 'alpha': ALPHA, 'prefix': ''.join(p), 'n': n_tail}, ['enum']))
        for p in ALPHA:
            out.append(Case('resplit', {'lines': enum_strings(ALPHA, p, 3 if quick else 4)}, ['enum']))
        # random lines, also with unusual break sets
        n_rand = 40 if quick else 400
        for _ in range(n_rand):
            B = rng.choice(BREAK_SETS * 3 + ['-=:„', ' -', 'a-', '\t-', '‐-', '.', 'é='])
            lines = [rand_line(rng, B) for _ in range(50)]
            if rng.random() < 0.3:
                lines.insert(rng.randrange(len(lines)), None)
            out.append(Case('words', {'B': B, 'lines': lines}, ['random']))
            if rng.random() < 0.3:
                out.append(Case('resplit', {'lines': [l for l in lines if l is not None]}, ['random']))
            if rng.random() < 0.2:
                out.append(Case('page_words', {'B': B, 'lines': lines[:10]}, ['random']))
        # strip helpers: exhaustive short words, random words
        short = enum_strings('a-=:„ ', '', 3)
        for B in BREAK_SETS:
            pairs = [[e, s] for e in short for s in ['', 'b', '-', '-b', '--b', '=b', '„', 'b-']]
            out.append(Case('strip', {'B': B, 'pairs': pairs, 'words': short}, ['enum']))
        for _ in range(n_rand // 2):
            B = rng.choice(BREAK_SETS)
            ws = [''.join(rng.choice('ab-=:„ .' + B) for _ in range(rng.randint(0, 6))) for _ in range(40)]
            out.append(Case('strip', {'B': B, 'pairs': [[rng.choice(ws), rng.choice(ws)] for _ in range(40)],
                                      'words': ws}, ['random']))
        out.append(Case('split_words', {'words': [[], ['a'], ['a', 'b'], ['a', 'b', 'c'], ['a', 'b', 'c', 'd']]},
                        ['enum']))
        # line pairs: hyphen rule without detector (exhaustive short pairs), detectors trained / arbitrary
        ends = enum_strings('aB.- =', '', 3)
        starts = ['b', 'B', '-b', '.', ' b', '', '-', '1', '--b', 'b-']
        for B in BREAK_SETS:
            pairs = [[e, s] for e in ends for s in starts]
            out.append(Case('pairs', {'B': B, 'det': None, 'pairs': pairs}, ['enum', 'no-detector']))
        n_det = 6 if quick else 40
        for i in range(n_det):
            B = rng.choice(BREAK_SETS)
            g = {'seed': rng.randrange(10 ** 6), 'n': rng.choice([400, 1500, 4000] if quick else [400, 1500, 6000]),
                 'B': B, 'p_break': rng.choice([0.2, 0.5, 0.8]), 'min_bigram': rng.choice([1, 5])}
            corpus_lines = [l['text'] for l in gen_corpus(g) if l['text']]
            pairs = []
            for _ in range(150):
                j = rng.randrange(len(corpus_lines) - 1)
                if rng.random() < 0.7:
                    pairs.append([corpus_lines[j], corpus_lines[j + 1]])
                else:
                    pairs.append([rand_line(rng, B, 8), rand_line(rng, B, 8)])
            out.append(Case('pairs', {'B': rng.choice(BREAK_SETS), 'det': {'gen': g}, 'pairs': pairs},
                            ['random', 'trained-detector']))
        n_tab = 60 if quick else 600
        frag_e = ['ver-', 'Ver-', 'ver', 'Amster-', 'en', '-', '.', 'a=', 'ge--', 'x„', '12-', 'DE-', 'ǅe-']
        frag_s = ['dam', 'Dam', 'DAM', 'gadering', '12', '-', '.', '-dam', 'en', 'ǅam', 'A', 'é']
        for _ in range(n_tab):
            B = rng.choice(BREAK_SETS)
            es = rng.sample(frag_e, 5)
            ss = rng.sample(frag_s, 5)
            vocab = es + ss + [e[:-1] for e in es if e] + [e + s for e in es for s in ss if rng.random() < 0.5] + \
                    [e.rstrip(B) + s.lstrip(B) for e in es for s in ss if rng.random() < 0.5]
            vocab = sorted(set(v for v in vocab if v))
            tables = random_tables(rng, B, vocab)
            pairs = [['x ' + e, s + ' y'] for e in es for s in ss]
            out.append(Case('pairs', {'B': rng.choice(BREAK_SETS), 'det': {'tables': tables}, 'pairs': pairs},
                            ['random', 'table-detector']))
        return out

    # ---------------------------------------------------------------- implementation
    @staticmethod
    def _lines(case: Case) -> List[Optional[str]]:
        if case.kind == 'words_enum':
            i = case.input
            return enum_strings(i['alpha'], i['prefix'], i['n'])
        return case.input['lines']

    def impl(self, case: Case) -> Any:
        th, ts = _real()
        k = case.kind
        if k in ('words', 'words_enum'):
            B = case.input['B']
            return [call(th.get_line_words, l, word_break_chars=B) for l in self._lines(case)]
        if k == 'resplit':
            return [[t for t in re.split(r'\b', l)] for l in case.input['lines']]
        if k == 'page_words':
            import pagexml.model.physical_document_model as pdm
            B = case.input['B']

            def f():
                lines = [pdm.PageXMLTextLine(text=t) for t in case.input['lines']]
                page = pdm.PageXMLPage(text_regions=[pdm.PageXMLTextRegion(lines=lines)])
                return list(th.get_page_lines_words(page, word_break_chars=B))
            return call(f)
        if k == 'strip':
            B = case.input['B']
            return {'wbc': [call(th.remove_word_break_chars, e, s, B) for e, s in case.input['pairs']],
                    'wbc_set': [call(th.remove_word_break_chars, e, s, set(B)) for e, s in case.input['pairs']],
                    'hyphen': [call(th.remove_hyphen, w) for w in case.input['words']]}
        if k == 'split_words':
            return [canon(call(th.split_line_words, list(ws))) for ws in case.input['words']]
        if k == 'pairs':
            B = case.input['B']
            wbd = make_detector(case.input['det'])
            Bw = ''.join(sorted(wbd.word_break_chars)) if wbd is not None else B
            out = []
            for prev, curr in case.input['pairs']:
                pw_r = call(th.get_line_words, prev, word_break_chars=Bw)
                cw_r = call(th.get_line_words, curr, word_break_chars=Bw)
                if 'ok' not in pw_r or 'ok' not in cw_r:
                    # the splitter itself raised: an outcome to be judged, not a harness failure
                    err = (pw_r if 'ok' not in pw_r else cw_r)['err']
                    out.append({'prev_words': pw_r.get('ok', []), 'curr_words': cw_r.get('ok', []),
                                'decision': {'err': err}, 'split_raised': err})
                    continue
                pw, cw = pw_r['ok'], cw_r['ok']
                d = canon(call(ts.determine_word_break, cw, pw, wbd=wbd, word_break_chars=B))
                out.append({'prev_words': pw, 'curr_words': cw, 'decision': d})
            return out
        raise ValueError(k)

    # ---------------------------------------------------------------- model
    def requests(self, case: Case):
        k = case.kind
        if k in ('words', 'words_enum'):
            ls = self._lines(case)
            return [{'p': 'C17', 'op': 'line_words', 'args': {'cls': class_table(ls), 'B': case.input['B'],
                                                              'lines': ls}}]
        if k == 'resplit':
            ls = case.input['lines']
            return [{'p': 'C17', 'op': 're_split', 'args': {'cls': class_table(ls), 'lines': ls}}]
        if k == 'page_words':
            ls = case.input['lines']
            return [{'p': 'C17', 'op': 'page_lines_words', 'args': {'cls': class_table(ls), 'B': case.input['B'],
                                                                    'lines': ls}}]
        if k == 'strip':
            return [{'p': 'C17', 'op': 'remove_wbc', 'args': {'B': case.input['B'], 'pairs': case.input['pairs']}},
                    {'p': 'C17', 'op': 'remove_hyphen', 'args': {'words': case.input['words']}}]
        if k == 'split_words':
            return [{'p': 'C17', 'op': 'split_line_words', 'args': {'words': case.input['words']}}]
        if k == 'pairs':
            # the model decides on the words the real get_line_words returned (its own splitting is
            # compared separately by the 'words' cases)
            o = self.impl(case)
            wbd = make_detector(case.input['det'])
            pairs = [[x['prev_words'], x['curr_words']] for x in o]
            strings = [w for p in pairs for ws in p for w in ws]
            return [{'p': 'C17', 'op': 'determine', 'args': {'cls': class_table(strings), 'B': case.input['B'],
                                                             'det': export_detector(wbd), 'pairs': pairs}}]
        return []

    def compare(self, case, impl_out, model_out):
        k = case.kind
        m = model_out[0]
        if 'ok' not in m:
            return f'model answered {m}'
        m = m['ok']
        if k in ('words', 'words_enum', 'resplit', 'split_words'):
            want = impl_out if k != 'resplit' else [{'ok': x} for x in impl_out]
            if k == 'split_words':
                want = impl_out
            if want == m:
                return None
            ls = self._lines(case) if k != 'split_words' else case.input['words']
            for l, a, b in zip(ls, want, m):
                if a != b:
                    return f'{k} line={l!r} B={case.input.get("B")!r} impl={a} model={b}'
            return 'length mismatch'
        if k == 'page_words':
            return None if impl_out == model_out[0] else f'impl={impl_out} model={model_out[0]}'
        if k == 'strip':
            h = model_out[1].get('ok')
            for name, want, got, xs in (('wbc', impl_out['wbc'], m, case.input['pairs']),
                                        ('wbc_set', impl_out['wbc_set'], m, case.input['pairs']),
                                        ('hyphen', impl_out['hyphen'], h, case.input['words'])):
                if want != got:
                    for x, a, b in zip(xs, want, got or []):
                        if a != b:
                            return f'{name} {x!r} B={case.input["B"]!r} impl={a} model={b}'
                    return f'{name}: length mismatch'
            return None
        if k == 'pairs':
            for x, b in zip(impl_out, m):
                if x['decision'] != b:
                    return f'determine prev={x["prev_words"]} curr={x["curr_words"]} impl={x["decision"]} model={b}'
            return None if len(impl_out) == len(m) else 'length mismatch'
        return None

    # ---------------------------------------------------------------- oracle
    def oracle(self, case: Case, out: Any) -> List[Finding]:
        fs: List[Finding] = []
        k = case.kind

        def bad(key, what, small: Case, o):
            fs.append(Finding(f'C17:{key}', what, small, o))

        if k in ('words', 'words_enum'):
            B = case.input['B']
            for l, o in zip(self._lines(case), out):
                one = Case('words', {'B': B, 'lines': [l]}, case.tags)
                if 'ok' not in o:
                    bad('split-raises', f'get_line_words({l!r}, {B!r}) raised {o["err"]}', one, [o])
                    continue
                ws = o['ok']
                if l is None or l == '':
                    if ws:
                        bad('tokens-from-nothing', f'get_line_words({l!r}) = {ws}', one, [o])
                    continue
                if any(w == '' for w in ws):
                    bad('empty-token', f'get_line_words({l!r}, {B!r}) = {ws} has an empty token', one, [o])
                elif any(w.strip() == '' for w in ws):
                    bad('blank-token', f'get_line_words({l!r}, {B!r}) = {ws} has a whitespace-only token', one, [o])
                if nospace(''.join(ws)) != nospace(norm_trail(l, B)):
                    bad('conservation', f'get_line_words({l!r}, {B!r}) = {ws}: the non-whitespace characters are '
                                        f'{nospace("".join(ws))!r}, expected {nospace(norm_trail(l, B))!r}', one, [o])
        elif k == 'page_words':
            if 'ok' not in out:
                bad('split-raises', f'get_page_lines_words raised {out["err"]}', case, out)
        elif k == 'strip':
            B = case.input['B']
            for (e, s), o, o2 in zip(case.input['pairs'], out['wbc'], out['wbc_set']):
                one = Case('strip', {'B': B, 'pairs': [[e, s]], 'words': []}, case.tags)
                sub = {'wbc': [o], 'wbc_set': [o2], 'hyphen': []}
                if e == '' or s == '':
                    continue          # the statement speaks of words; '' is not a word
                if 'ok' not in o or o != o2:
                    bad('strip-raises', f'remove_word_break_chars({e!r}, {s!r}, {B!r}) gave {o} / {o2}', one, sub)
                    continue
                r = o['ok']
                okv = False
                for i in range(0, 3):          # up to two trailing break characters of the end word
                    for jn in range(0, 2):     # up to one leading break character of the start word
                        if i <= len(e) and jn <= len(s) and all(c in B for c in e[len(e) - i:]) and \
                                all(c in B for c in s[:jn]) and r == e[:len(e) - i] + s[jn:]:
                            okv = True
                if not okv:
                    bad('strip-more-than-breaks', f'remove_word_break_chars({e!r}, {s!r}, {B!r}) = {r!r}', one, sub)
            for w, o in zip(case.input['words'], out['hyphen']):
                one = Case('strip', {'B': B, 'pairs': [], 'words': [w]}, case.tags)
                sub = {'wbc': [], 'wbc_set': [], 'hyphen': [o]}
                if w == '':
                    continue
                if 'ok' not in o:
                    bad('strip-raises', f'remove_hyphen({w!r}) raised {o["err"]}', one, sub)
                    continue
                r = o['ok']
                if not any(r == w[:len(w) - i] and all(c in '-=:' for c in w[len(w) - i:]) for i in range(0, 3)
                           if i <= len(w)):
                    bad('strip-more-than-breaks', f'remove_hyphen({w!r}) = {r!r}', one, sub)
        elif k == 'pairs':
            B = case.input['B']
            det = case.input['det']
            wbd = make_detector(det)
            Bw = ''.join(sorted(wbd.word_break_chars)) if wbd is not None else B
            for (prev, curr), x in zip(case.input['pairs'], out):
                one = Case('pairs', {'B': B, 'det': det, 'pairs': [[prev, curr]]}, case.tags)
                pw, cw, d = x['prev_words'], x['curr_words'], x['decision']
                if x.get('split_raised'):
                    bad('split-raises', f'get_line_words raised {x["split_raised"]} on {prev!r} or {curr!r} (B={Bw!r})',
                        one, [x])
                    continue
                if 'ok' not in d:
                    bad('determine-raises', f'determine_word_break on {prev!r} / {curr!r} raised {d["err"]}', one, [x])
                    continue
                do_merge, word = d['ok']
                if not pw or not cw:
                    if do_merge or word is not None:
                        bad('merge-without-words', f'{prev!r} / {curr!r}: {d["ok"]}', one, [x])
                    continue
                e, s = pw[-1], cw[0]
                if e == '' or s == '':
                    continue    # reported by the splitting oracle
                # the two words joined with the break characters at the junction removed
                i = 2 if len(e) >= 2 and e[-1] in Bw and e[-2] in Bw else (1 if e[-1] in Bw else 0)
                reduced = e[:len(e) - i] + (s[1:] if s[0] in Bw else s)
                if det is None:
                    want = [True, reduced] if e[-1] in B else [False, None]
                    if [do_merge, word] != want:
                        bad('hyphen-rule', f'no detector, B={B!r}: {prev!r} / {curr!r} (words {e!r}, {s!r}) gave '
                                           f'{d["ok"]}, expected {want}', one, [x])
                else:
                    if [do_merge, word] != [False, None] and not (do_merge is True and word in (e + s, reduced)):
                        bad('detector-range', f'detector: words {e!r}, {s!r} gave {d["ok"]}; allowed: no merge, '
                                              f'{e + s!r}, {reduced!r}', one, [x])
                    if do_merge and (not re.search(r'\w', e) or not re.search(r'\w', s)):
                        bad('punctuation-merged', f'detector: words {e!r}, {s!r} (pure punctuation) merged: '
                                                  f'{d["ok"]}', one, [x])
        return fs

    def nontrivial(self, case: Case) -> bool:
        if case.kind in ('words', 'words_enum'):
            B = case.input['B']
            return any(l and any(c in B for c in l) and any(c.isspace() for c in l) and re.search(r'\w', l)
                       for l in self._lines(case)[:400])
        if case.kind == 'pairs':
            return any(re.search(r'\w', p) for p, _ in case.input['pairs'])
        return True

    def shrink_candidates(self, case: Case):
        k = case.kind
        if k == 'words':
            ls = case.input['lines']
            if len(ls) > 1:
                for l in ls:
                    yield Case(k, dict(case.input, lines=[l]), case.tags)
            elif ls and ls[0]:
                s = ls[0]
                for i in range(len(s)):
                    yield Case(k, dict(case.input, lines=[s[:i] + s[i + 1:]]), case.tags)
        elif k == 'pairs':
            ps = case.input['pairs']
            if len(ps) > 1:
                for p in ps:
                    yield Case(k, dict(case.input, pairs=[p]), case.tags)
            elif ps:
                a, b = ps[0]
                for i in range(len(a)):
                    yield Case(k, dict(case.input, pairs=[[a[:i] + a[i + 1:], b]]), case.tags)
                for i in range(len(b)):
                    yield Case(k, dict(case.input, pairs=[[a, b[:i] + b[i + 1:]]]), case.tags)
        elif k == 'strip':
            ps, ws = case.input['pairs'], case.input['words']
            if len(ps) + len(ws) > 1:
                for p in ps:
                    yield Case(k, dict(case.input, pairs=[p], words=[]), case.tags)
                for w in ws:
                    yield Case(k, dict(case.input, pairs=[], words=[w]), case.tags)


CHECK = C17()
