"""C17 — Word splitting is total and conservative; the hyphen rule decides merges."""
from __future__ import annotations

import contextlib
import io
import itertools
import random
import re
import unicodedata
from typing import Any, Dict, Iterable, List, Optional

from harness.core import Case, Check, Finding, Infra, OUTSIDE, call, canon
from harness.guard import guarded

ALPHA = 'aB1.-=„ \t _é'            # adversarial alphabet (12 symbols)
BREAK_SETS = ['-', '-=:', '„-']
UNI_POOL = ('abcdefgzABCXYZ0189 \t\n\r  　 .,;:!?\'"()-=„“”‐‑–—_éÉßçñäÄǅǈᾈΩωжЖשא中٣۵²½'
            '́​­')


def class_bits(ch: str) -> int:
    """class bits of one character as computed by the running CPython (DESIGN §3.3)"""
    return ((1 if re.match(r'\w', ch) else 0) | (2 if ch.isalpha() else 0) | (4 if ch.isupper() else 0) |
            (8 if ch.islower() else 0) | (16 if unicodedata.category(ch) == 'Lt' else 0) |
            (32 if ch.isdigit() else 0) | (64 if ch.isspace() else 0))


def class_table(strings: Iterable[Optional[str]]) -> Dict[str, int]:
    tab: Dict[str, int] = {}
    for s in strings:
        if s:
            for ch in s:
                if ch not in tab:
                    b = class_bits(ch)
                    # the laws the theorems assume of a CharClass, checked on every character sent
                    if (b & 2 and not b & 1) or (b & 64 and b & 1) or (ch == ' ' and not b & 64) or \
                            ((b & 64 != 0) != (ch.strip() == '')):
                        raise Infra(f'CPython character classes break an assumed law for {ch!r}: {b}')
                    tab[ch] = b
    return tab


def _real():
    from pagexml.helper import text_helper
    from pagexml.analysis import text_stats
    return text_helper, text_stats


def eff_B(fn, B: Optional[str]) -> Optional[str]:
    """the break characters in effect for a call of the real function `fn`: the ones passed, else (B is None:
    the function is called WITHOUT word_break_chars) the default the function declares — its public
    interface, read with inspect for the ORACLE only; the model gets `null` and uses the default that
    harness/translate.py regenerated from the source (no copy of the default lives in the harness).
    None when the interface declares no character collection (a sentinel such as None that the body resolves):
    the oracle then judges only what does not depend on the break characters (totality, shape, labels,
    fresh-process agreement) — it must never fail on an unexpected signature"""
    if B is not None:
        return B
    import inspect
    try:
        d = inspect.signature(fn).parameters['word_break_chars'].default
    except (KeyError, TypeError, ValueError):
        return None
    if isinstance(d, str):
        return d
    if isinstance(d, (set, frozenset, list, tuple)) and all(isinstance(c, str) for c in d):
        return ''.join(sorted(d))
    return None


def wbc_kw(B: Optional[str], form: str = 'str') -> Dict[str, Any]:
    """keyword arguments for a real call: nothing when the default is to apply; `form` is the Python type in
    which the break characters are handed over ('str' in the order given, 'set', 'list', 'tuple')"""
    if B is None:
        return {}
    if form == 'set':
        return {'word_break_chars': set(B)}
    if form == 'list':
        return {'word_break_chars': list(B)}
    if form == 'tuple':
        return {'word_break_chars': tuple(B)}
    return {'word_break_chars': B}


# the statement's reading of "hyphens" for remove_hyphen (the oracle keeps its own reading; that the character
# set of the source stays within it is the Lean obligation C17_consts_hyphen_set_within_spec)
SPEC_HYPHENS = '-=:'

DEFAULT_POOL = '-=:'      # break-like characters for the lines of the default-argument cases (any of them may
                          # be or become a default; the cases do not depend on which)


def is_space(ch: str) -> bool:
    return ch.isspace()


def short_(o: Dict[str, Any]) -> Dict[str, Any]:
    return {k: v for k, v in o.items() if k in ('ok', 'err')}


def nospace(s: str) -> str:
    return ''.join(ch for ch in s if not ch.isspace())


def norm_trail(s: str, B: str) -> str:
    """the statement's normalisation: a doubled trailing break character counts once and a blank
    between the last word and a trailing break character is dropped (whitespace is ignored anyway)"""
    if len(s) >= 2 and s[-1] in B and s[-2] in B:
        return s[:-1]
    return s


# ---------------------------------------------------------------------------------------
# detectors: trained on a generated corpus, or given as explicit tables
# ---------------------------------------------------------------------------------------

def gen_corpus(spec: Dict[str, Any]) -> List[Dict[str, str]]:
    """a small corpus with line-end fragments, line-start fragments and their merged forms"""
    rng = random.Random(spec['seed'])
    bc = spec['B'][0]
    stems = ['ver', 'Amster', 'ge', 'Raad', 'be', 'Staten', 'on', 'Hoog']
    tails = ['gadering', 'dam', 'daan', 'pensionaris', 'sluit', 'Generaal', 'der', 'Mogende']
    mids = ['de', 'het', 'een', 'van', 'en', 'op', 'te', 'dat', 'is', 'niet', 'heeft', 'Heeren', '12', '.', ',',
            'A', 'DE']
    merged = [s + t for s, t in zip(stems, tails)] + [s + bc + t for s, t in zip(stems[:3], tails[:3])]
    n = spec['n']
    p_break = spec.get('p_break', 0.4)
    lines = []
    carry = None
    for _ in range(n):
        ws = [rng.choice(mids + merged) if rng.random() < 0.8 else rng.choice(stems + tails)
              for _ in range(rng.randint(0, 7))]
        if carry is not None:
            ws.insert(0, carry)
            carry = None
        elif rng.random() < 0.15:
            ws.insert(0, rng.choice(tails[:4]))          # frequent line starts
        if rng.random() < p_break:
            i = rng.randrange(len(stems))
            ws.append(stems[i] + (bc if rng.random() < 0.9 else ''))
            if rng.random() < 0.85:
                carry = tails[i] if rng.random() < 0.9 else rng.choice(tails)
        elif rng.random() < 0.2:
            ws.append(rng.choice(['en', 'de', 'van']))   # frequent line ends that never merge
        r = rng.random()
        text = ' '.join(ws)
        if r < 0.02:
            text = None
        elif r < 0.04:
            text = ''
        lines.append({'text': text})
    return lines


_DET_CACHE: Dict[str, Any] = {}


def make_detector(spec: Optional[Dict[str, Any]]):
    """spec None -> no detector; {'gen': {...}} -> real WordBreakDetector trained on gen_corpus;
    {'tables': {...}} -> a WordBreakDetector whose counters and sets are set from explicit tables"""
    if spec is None:
        return None
    key = repr(spec)
    if key in _DET_CACHE:
        return _DET_CACHE[key]
    th, ts = _real()
    with contextlib.redirect_stdout(io.StringIO()):
        if 'gen' in spec:
            g = spec['gen']
            # detector options: `ignorecase` is passed only when the spec names it (the constructor's default otherwise)
            okw = {'ignorecase': g['ignorecase']} if 'ignorecase' in g else {}
            if g.get('default_B'):
                # the detector's own default break characters (exported to the model as the object's data)
                wbd = ts.WordBreakDetector(min_bigram_word_freq=g.get('min_bigram', 5), lines=gen_corpus(g), **okw)
            else:
                wbd = ts.WordBreakDetector(min_bigram_word_freq=g.get('min_bigram', 5), word_break_chars=g['B'],
                                           lines=gen_corpus(g), **okw)
        else:
            t = spec['tables']
            okw = {'ignorecase': t['ignorecase']} if 'ignorecase' in t else {}
            wbd = ts.WordBreakDetector(word_break_chars=t['B'], **okw)
            for k in ('all', 'mid', 'start', 'end'):
                for w, n in t[k]:
                    wbd.freq[k][w] = n
            for a, b, n in t['bigram']:
                wbd.mid_bigram_freq[(a, b)] = n
            wbd.typical_merge_ends = set(t['tme'])
            wbd.typical_merge_starts = set(t['tms'])
            wbd.typical_non_merge_ends = set(t['tnme'])
            wbd.typical_non_merge_starts = set(t['tnms'])
            wbd.common_non_merge_starts = set(t['cnms'])
    if len(_DET_CACHE) > 64:
        _DET_CACHE.clear()
    _DET_CACHE[key] = wbd
    return wbd


def export_detector(wbd) -> Optional[Dict[str, Any]]:
    """the data determine_word_break reads from the detector, for the model driver"""
    if wbd is None:
        return None
    return {
        'all': sorted([w, n] for w, n in wbd.freq['all'].items()),
        'mid': sorted([w, n] for w, n in wbd.freq['mid'].items()),
        'start': sorted([w, n] for w, n in wbd.freq['start'].items()),
        'end': sorted([w, n] for w, n in wbd.freq['end'].items()),
        'bigram': sorted([a, b, n] for (a, b), n in wbd.mid_bigram_freq.items()),
        'tme': sorted(wbd.typical_merge_ends), 'tms': sorted(wbd.typical_merge_starts),
        'tnme': sorted(wbd.typical_non_merge_ends), 'tnms': sorted(wbd.typical_non_merge_starts),
        'cnms': sorted(wbd.common_non_merge_starts),
        'B': ''.join(sorted(wbd.word_break_chars)),
    }


def random_tables(rng: random.Random, B: str, vocab: List[str]) -> Dict[str, Any]:
    """an arbitrary detector record over a small vocabulary (covers branches training rarely reaches)"""
    def counter(p):
        return sorted([w, rng.choice([1, 2, 4, 5, 6, 9, 10, 11, 50, 99, 100, 101, 999, 1000, 1001, 5000])]
                      for w in vocab if rng.random() < p)

    def subset(p):
        return sorted(w for w in vocab if rng.random() < p)
    big = sorted([a, b, rng.choice([1, 2, 3, 5, 6, 10, 11, 12, 30, 200])]
                 for a in vocab for b in vocab if rng.random() < 0.15)
    return {'B': B, 'all': counter(0.5), 'mid': counter(0.4), 'start': counter(0.4), 'end': counter(0.4),
            'bigram': big, 'tme': subset(0.1), 'tms': subset(0.1), 'tnme': subset(0.07), 'tnms': subset(0.07),
            'cnms': subset(0.1)}


# ---------------------------------------------------------------------------------------
# constants regenerated from the source (read with `ast` on every run, never imported)
# ---------------------------------------------------------------------------------------

TS = 'pagexml/analysis/text_stats.py'
TH = 'pagexml/helper/text_helper.py'


def generated_c17() -> Dict[str, str]:
    """Generated/C17.lean: the factors reaching the predicates of determine_word_break (per call site: the
    literal passed, or the callee's default), the frequency thresholds inside the predicates, the hyphen
    literals, remove_hyphen's character set, and the default break characters"""
    from harness import translate as tr
    E = tr.TranslateError
    nat = tr.as_nat

    def words_passed(fn, callee, expected):
        got = tr.call_arguments_each(TS, fn, callee, 'word', 1, len(expected))
        if got != [('NAME', w) for w in expected]:
            raise E(f'{fn}: the calls of {callee} are about {got}, expected the variables {expected}')

    # determine_word_break: the cascade
    big = [nat(v) for v in tr.effective_arguments_each(TS, 'determine_word_break', 'end_start_are_bigram',
                                                       'factor', 3, 2, TS)]
    title = nat(tr.effective_arguments_each(TS, 'determine_word_break', 'start_word_has_incorrect_titlecase',
                                            'factor', 3, 1, TS)[0])
    common = nat(tr.effective_arguments_each(TS, 'determine_word_break', 'end_is_common_word', 'common_freq', 2, 1,
                                             TS)[0])
    # merge_is_more_common: is_non_mid_word(end_word, …) then is_non_mid_word(start_word, …)
    words_passed('merge_is_more_common', 'is_non_mid_word', ['end_word', 'start_word'])
    mm = [nat(v) for v in tr.effective_arguments_each(TS, 'merge_is_more_common', 'is_non_mid_word', 'factor', 2, 2,
                                                      TS)]
    mm_min = nat(tr.literal_in_x(TS, 'merge_is_more_common', "wbd.freq['all'][merge_word] > _N0", '_N0'))
    # start_word_has_incorrect_titlecase: is_non_mid_word(start_word) and is_non_mid_word(end_word)
    words_passed('start_word_has_incorrect_titlecase', 'is_non_mid_word', ['start_word', 'end_word'])
    tc = [nat(v) for v in tr.effective_arguments_each(TS, 'start_word_has_incorrect_titlecase', 'is_non_mid_word',
                                                      'factor', 2, 2, TS)]
    # has_word_break_symbol
    sym = tr.literal_in_x(TS, 'has_word_break_symbol', 'end_word[-1] != _S0', '_S0')
    sym_min = nat(tr.literal_in_x(TS, 'has_word_break_symbol', "wbd.freq['all'][merge_word] > _N0", '_N0'))
    # end_start_are_hyphenated_compound
    comp = tr.literal_in_x(TS, 'end_start_are_hyphenated_compound',
                           'end_word[0].isupper() and end_word[-1] == _S0 and start_word[0].isupper()', '_S0')
    unseen = {}
    for w in ('start_word', 'end_word'):
        m = tr.literals_in_x(TS, 'end_start_are_hyphenated_compound',
                             f"wbd.freq['mid'][{w}] == _N0 and wbd.freq['all'][merge_word] == _N1 and "
                             f"wbd.freq['all'][end_word + start_word] == _N2")[0]
        unseen[w] = [nat(m['_N0']), nat(m['_N1']), nat(m['_N2'])]
    # has_non_merge_word
    nm_end = tr.literal_in_x(TS, 'has_non_merge_word', 'end_word == _S0', '_S0')
    nm_start = tr.literal_in_x(TS, 'has_non_merge_word', 'start_word == _S0', '_S0')
    # remove_hyphen
    hy_set = tr.literal_in_x(TH, 'remove_hyphen', 'word[-1] in _C0', '_C0')
    hy_double = tr.literal_in_x(TH, 'remove_hyphen', 'word[-2:] == _S0', '_S0')
    # get_line_words: the blank before a trailing break character, the single blank that is no word
    norm_blank = tr.literal_in_x(TH, 'get_line_words', 'line[-2] == _S0', '_S0')
    skip_term = tr.literal_in_x(TH, 'get_line_words', 'term == _S0', '_S0')
    # defaults of word_break_chars
    dflt = {fn: tr.char_collection_default(rel, fn, 'word_break_chars')
            for rel, fn in ((TH, 'get_line_words'), (TH, 'get_page_lines_words'), (TH, 'remove_word_break_chars'),
                            (TS, 'determine_word_break'))}
    # get_page_lines_words hands its break characters to get_line_words by name
    if tr.call_argument(TH, 'get_page_lines_words', 'get_line_words', 'word_break_chars', 1) != \
            ('NAME', 'word_break_chars'):
        raise E('get_page_lines_words does not pass word_break_chars on to get_line_words')
    if tr.call_argument(TS, 'determine_word_break', 'remove_word_break_chars', 'word_break_chars', 2) != \
            ('NAME', 'word_break_chars'):
        raise E('determine_word_break does not pass word_break_chars on to remove_word_break_chars')

    cl = tr.lean_char_list
    d = []

    def nat_def(name, doc, v):
        d.append(f'/-- {doc} -/\ndef {name} : Nat := {v}\n')

    def chars_def(name, doc, v):
        d.append(f'/-- {doc} -/\ndef {name} : List Char := {cl(v)}\n')

    nat_def('bigramFactorFirst', '`factor` reaching end_start_are_bigram from its 1st call in determine_word_break', big[0])
    nat_def('bigramFactorSecond', '`factor` reaching end_start_are_bigram from its 2nd call in determine_word_break', big[1])
    nat_def('titlecaseFactor', '`factor` reaching start_word_has_incorrect_titlecase from determine_word_break', title)
    nat_def('commonFreq', '`common_freq` reaching end_is_common_word from determine_word_break', common)
    nat_def('mergeNonMidFactorEnd', '`factor` reaching is_non_mid_word(end_word) from merge_is_more_common', mm[0])
    nat_def('mergeNonMidFactorStart', '`factor` reaching is_non_mid_word(start_word) from merge_is_more_common', mm[1])
    nat_def('mergeMoreCommonMin', "`N` of `wbd.freq['all'][merge_word] > N` in merge_is_more_common", mm_min)
    nat_def('titlecaseNonMidFactorStart',
            '`factor` reaching is_non_mid_word(start_word) from start_word_has_incorrect_titlecase', tc[0])
    nat_def('titlecaseNonMidFactorEnd',
            '`factor` reaching is_non_mid_word(end_word) from start_word_has_incorrect_titlecase', tc[1])
    chars_def('breakSymbol', '`S` of `end_word[-1] != S` in has_word_break_symbol', sym)
    nat_def('breakSymbolMergeMin', "`N` of `wbd.freq['all'][merge_word] > N` in has_word_break_symbol", sym_min)
    chars_def('compoundHyphen', '`S` of `end_word[-1] == S` in end_start_are_hyphenated_compound', comp)
    for w, nm in (('start_word', 'compoundStartUnseen'), ('end_word', 'compoundEndUnseen')):
        a, b, c = unseen[w]
        d.append(f"/-- `(N0, N1, N2)` of `freq['mid'][{w}] == N0 and freq['all'][merge_word] == N1 and "
                 f"freq['all'][end_word + start_word] == N2` in end_start_are_hyphenated_compound -/\n"
                 f'def {nm} : Nat × Nat × Nat := ({a}, {b}, {c})\n')
    chars_def('nonMergeEndWord', '`S` of `end_word == S` in has_non_merge_word', nm_end)
    chars_def('nonMergeStartWord', '`S` of `start_word == S` in has_non_merge_word', nm_start)
    chars_def('hyphenChars', 'the characters of `word[-1] in {…}` in remove_hyphen', hy_set)
    chars_def('doubleHyphen', '`S` of `word[-2:] == S` in remove_hyphen', hy_double)
    chars_def('normBlank', '`S` of `line[-2] == S` in get_line_words (tied to the blank the model writes)', norm_blank)
    chars_def('skipTerm', '`S` of `term == S` in get_line_words (tied to the blank the model writes)', skip_term)
    chars_def('defaultBreakGetLineWords', 'default `word_break_chars` of get_line_words', dflt['get_line_words'])
    chars_def('defaultBreakPageLinesWords', 'default `word_break_chars` of get_page_lines_words',
              dflt['get_page_lines_words'])
    chars_def('defaultBreakRemoveWordBreakChars', 'default `word_break_chars` of remove_word_break_chars',
              dflt['remove_word_break_chars'])
    chars_def('defaultBreakDetermine', 'default `word_break_chars` of determine_word_break',
              dflt['determine_word_break'])
    body = tr.HEADER.format(
        src=f'{TS}: the arguments with which determine_word_break, merge_is_more_common and '
            f'start_word_has_incorrect_titlecase call their predicates (literal passed, else the default of the '
            f'callee), the thresholds and hyphen literals inside has_word_break_symbol, merge_is_more_common, '
            f'end_start_are_hyphenated_compound, has_non_merge_word, the default break characters of '
            f'determine_word_break; {TH}: the character set and the doubled hyphen of remove_hyphen, the two blanks '
            f'of get_line_words, the default '
            f'break characters of get_line_words, get_page_lines_words, remove_word_break_chars') + \
        'namespace Pagexml.Generated.C17\n\n' + '\n'.join(d) + '\nend Pagexml.Generated.C17\n'
    return {'PagexmlModel/Generated/C17.lean': body}


# ---------------------------------------------------------------------------------------

def enum_strings(alpha: str, prefix: str, n: int) -> List[str]:
    out = []
    for k in range(n + 1):
        for t in itertools.product(alpha, repeat=k):
            out.append(prefix + ''.join(t))
    return out


def rand_line(rng: random.Random, B: str, maxlen: int = 30) -> str:
    r = rng.random()
    if r < 0.4:      # word-like text
        ws = []
        for _ in range(rng.randint(0, 6)):
            w = ''.join(rng.choice('abcdeéßXYZ019_') for _ in range(rng.randint(1, 6)))
            q = rng.random()
            if q < 0.15:
                w += rng.choice(B)
            elif q < 0.25:
                w = rng.choice(B) + w
            elif q < 0.35:
                w += rng.choice('.,;:!?')
            elif q < 0.4:
                w = w + rng.choice(B) + w
            ws.append(w)
        s = rng.choice([' ', ' ', ' ', '  ', '\t', ' ', ' - ', ' ' + B[0]]).join(ws)
        tail = rng.choice(['', '', B[0], B[-1], B[0] * 2, ' ' + B[0], B[0] + ' ', ' ', '  ', '.', B[0] + B[-1],
                           ' ' + B[-1] * 2, '\t' + B[0]])
        return s + tail
    if r < 0.8:      # adversarial alphabet, longer
        return ''.join(rng.choice(ALPHA + B) for _ in range(rng.randint(0, maxlen)))
    return ''.join(rng.choice(UNI_POOL + B) for _ in range(rng.randint(0, maxlen)))


@guarded
class C17(Check):
    pid = 'C17'
    props_module = 'PagexmlModel.Props.C17'
    anchors = {
        'pagexml/helper/text_helper.py': ['get_line_words', 'get_page_lines_words', 'split_line_words',
                                          'remove_word_break_chars', 'remove_hyphen'],
        'pagexml/analysis/text_stats.py': ['determine_word_break', 'has_non_merge_word', 'end_start_are_bigram',
                                           'start_is_titleword', 'end_start_are_hyphenated_compound',
                                           'start_word_has_incorrect_titlecase', 'has_common_merge_end',
                                           'has_word_break_symbol', 'end_is_common_word', 'merge_is_more_common',
                                           'is_non_mid_word'],
    }
    level_note = ('proved for every string, every break-character set and every character classification '
                  '(CharClass) obeying three laws (alpha => word, space => not word, U+0020 is a space): totality, '
                  'no empty / blank token, conservation of the non-whitespace characters, hyphen rule, detector '
                  'range for an arbitrary detector record, punctuation never merges, strip-only-breaks. '
                  'CPython re / str methods are tied to the CharClass record by the correspondence only. The factors, '
                  'thresholds, hyphen literals and default break characters of the code are regenerated from the '
                  'source on every run (Generated/C17.lean); the theorems hold for every value of them, except that '
                  'remove_hyphen\'s character set has to stay within - = : (C17_consts_*). Wave 4: a break-character '
                  'SET is exercised in every order of its characters and as str / set / list / tuple (the model\'s '
                  'membership test has no order), with line ends over all pairs of characters inside / between / outside '
                  'the set; detectors are built with ignorecase on and off (trained and as arbitrary records, capitals in '
                  'either junction word); every call is made twice on the same detector / argument objects and must '
                  'answer the same, leaving detector, break-character container and word lists unchanged. Wave 5: the '
                  'strip helpers on an EMPTY word (no token of any line is empty) are compared in cases of their own '
                  'tagged outside-quantifier: raise or return, a difference there is recorded only')
    assumptions = [
        're.split(r"\\b", s) yields the maximal runs of \\w / non-\\w characters with an empty first/last piece at a '
        'word edge (sampled: op re_split)',
        'str.strip / isalpha / isupper / islower / isdigit / isspace and \\w act per character as the class bits '
        'sent with every request say (bits computed by the running CPython; the three CharClass laws are checked '
        'on every character sent)',
        'Counter lookups of a missing key give 0; the detector is read, never written, by determine_word_break',
    ]
    nontrivial_rule = ('distinct inputs; non-trivial = a batch containing at least one line with a break character, '
                       'whitespace and a word character, or a line pair whose first line has a word')

    # ---------------------------------------------------------------- constants regenerated from the source
    def translate(self):
        """factors, thresholds, hyphen literals and default break characters of the anchored code, read with
        `ast` on every run (see generated_c17)"""
        return generated_c17()

    # ---------------------------------------------------------------- generation
    def cases(self, rng: random.Random, tier: str) -> Iterable[Case]:
        out: List[Case] = []
        quick = tier == 'quick'
        # corpus: regression inputs (past failures of the pinned tree first)
        corpus = ['a  b', ' a', 'a\tb', 'a  ', '   ', 'ab  ', 'a -', 'a--', 'a- -', 'a -- b', '-', '--', ' -', '- ',
                  'ab-cd', 'ab- cd', 'ab -cd', '1-a', 'a-1', '-a', 'a-', 'a.-', 'a-.', 'a_-b', 'é-é', 'a=b', 'a =',
                  'a „', '„a', 'a„„', 'x -', 'x  y', '\t', 'a . . b', 'a.b', '. a', 'a .', 'ǅa-b',
                  'a-\tb', 'a \t-', 'ab -', 'ab  -', 'ab - ', None, '']
        for B in BREAK_SETS + [' -', 'a-', '.']:
            out.append(Case('words', {'B': B, 'lines': corpus}, ['corpus']))
        out.append(Case('resplit', {'lines': [c for c in corpus if c is not None]}, ['corpus']))
        # exhaustive: all strings up to length 4 (quick) / 5 (thorough) over the adversarial alphabet
        n_tail = 2 if quick else 3
        for B in BREAK_SETS:
            out.append(Case('words_enum', {'B': B, 'alpha': ALPHA, 'prefix': '', 'n': 1}, ['enum']))
            for p in itertools.product(ALPHA, repeat=2):
                out.append(Case('words_enum', {'B': B, 'alpha': ALPHA, 'prefix': ''.join(p), 'n': n_tail}, ['enum']))
        for p in ALPHA:
            out.append(Case('resplit', {'lines': enum_strings(ALPHA, p, 3 if quick else 4)}, ['enum']))
        # random lines, also with unusual break sets
        n_rand = 40 if quick else 400
        for _ in range(n_rand):
            B = rng.choice(BREAK_SETS * 3 + ['-=:„', ' -', 'a-', '\t-', '‐-', '.', 'é='])
            lines = [rand_line(rng, B) for _ in range(50)]
            if rng.random() < 0.3:
                lines.insert(rng.randrange(len(lines)), None)
            out.append(Case('words', {'B': B, 'lines': lines}, ['random']))
            if rng.random() < 0.3:
                out.append(Case('resplit', {'lines': [l for l in lines if l is not None]}, ['random']))
            if rng.random() < 0.2:
                out.append(Case('page_words', {'B': B, 'lines': lines[:10]}, ['random']))
        # strip helpers: exhaustive short words, random words
        short = enum_strings('a-=:„ ', '', 3)
        for B in BREAK_SETS:
            pairs = [[e, s] for e in short for s in ['', 'b', '-', '-b', '--b', '=b', '„', 'b-']]
            out.append(Case('strip', {'B': B, 'pairs': pairs, 'words': short}, ['enum']))
        for _ in range(n_rand // 2):
            B = rng.choice(BREAK_SETS)
            ws = [''.join(rng.choice('ab-=:„ .' + B) for _ in range(rng.randint(0, 6))) for _ in range(40)]
            out.append(Case('strip', {'B': B, 'pairs': [[rng.choice(ws), rng.choice(ws)] for _ in range(40)],
                                      'words': ws}, ['random']))
        out.append(Case('split_words', {'words': [[], ['a'], ['a', 'b'], ['a', 'b', 'c'], ['a', 'b', 'c', 'd']]},
                        ['enum']))
        # line pairs: hyphen rule without detector (exhaustive short pairs), detectors trained / arbitrary
        ends = enum_strings('aB.- =', '', 3)
        starts = ['b', 'B', '-b', '.', ' b', '', '-', '1', '--b', 'b-']
        for B in BREAK_SETS:
            pairs = [[e, s] for e in ends for s in starts]
            out.append(Case('pairs', {'B': B, 'det': None, 'pairs': pairs}, ['enum', 'no-detector']))
        n_det = 6 if quick else 40
        for i in range(n_det):
            B = rng.choice(BREAK_SETS)
            g = {'seed': rng.randrange(10 ** 6), 'n': rng.choice([400, 1500, 4000] if quick else [400, 1500, 6000]),
                 'B': B, 'p_break': rng.choice([0.2, 0.5, 0.8]), 'min_bigram': rng.choice([1, 5])}
            corpus_lines = [l['text'] for l in gen_corpus(g) if l['text']]
            pairs = []
            for _ in range(150):
                j = rng.randrange(len(corpus_lines) - 1)
                if rng.random() < 0.7:
                    pairs.append([corpus_lines[j], corpus_lines[j + 1]])
                else:
                    pairs.append([rand_line(rng, B, 8), rand_line(rng, B, 8)])
            out.append(Case('pairs', {'B': rng.choice(BREAK_SETS), 'det': {'gen': g}, 'pairs': pairs},
                            ['random', 'trained-detector']))
        n_tab = 60 if quick else 600
        frag_e = ['ver-', 'Ver-', 'ver', 'Amster-', 'en', '-', '.', 'a=', 'ge--', 'x„', '12-', 'DE-', 'ǅe-']
        # start words that themselves end with a break character: a word broken over three lines ('geval-' / 'len-' /
        # 'de'); the break character at the END of the start word is not at the junction
        frag_s = ['dam', 'Dam', 'DAM', 'gadering', '12', '-', '.', '-dam', 'en', 'ǅam', 'A', 'é', 'len-', 'dering=', 'dam--']
        for _ in range(n_tab):
            B = rng.choice(BREAK_SETS)
            es = rng.sample(frag_e, 5)
            ss = rng.sample(frag_s, 5)
            vocab = es + ss + [e[:-1] for e in es if e] + [e + s for e in es for s in ss if rng.random() < 0.5] + \
                    [e.rstrip(B) + s.lstrip(B) for e in es for s in ss if rng.random() < 0.5]
            vocab += [v.rstrip(B) for v in vocab if v and v[-1] in B and rng.random() < 0.7]
            vocab = sorted(set(v for v in vocab if v))
            tables = random_tables(rng, B, vocab)
            pairs = [['x ' + e, s + rng.choice([' y', ' y', ''])] for e in es for s in ss]
            out.append(Case('pairs', {'B': rng.choice(BREAK_SETS), 'det': {'tables': tables}, 'pairs': pairs},
                            ['random', 'table-detector']))
        # small counters: the comparisons `x > factor * y`, `x < factor`, `x > N` of the predicates flip between
        # neighbouring values of their constants (whatever those are in the source now); title-case start words
        # and lower-case end words reach start_word_has_incorrect_titlecase
        for _ in range(60 if quick else 600):
            B = rng.choice(BREAK_SETS)
            es = rng.sample(['ver-', 'ver', 'ge-', 'Ver-', 'x=', 'on-', 'é-'], 3)
            ss = rng.sample(['Dam', 'Gadering', 'dam', 'A', 'ǅam', 'Én', '12', 'len-', 'Dering='], 3)
            vocab = sorted(set(es + ss + [e[:-1] for e in es] + [e + s for e in es for s in ss] +
                               [e.rstrip(B) + s for e in es for s in ss] +
                               [e.rstrip(B) + s.rstrip(B) for e in es for s in ss]))

            def small(p, hi):
                return sorted([w, rng.randint(0, hi)] for w in vocab if rng.random() < p)
            big = sorted([e[:-1] if e[-1] in B else e, s_, rng.randint(0, 13)] for e in es for s_ in ss
                         if rng.random() < 0.5)
            tables = {'B': B, 'all': small(0.7, 15), 'mid': small(0.7, 2), 'start': small(0.8, 13),
                      'end': small(0.8, 13), 'bigram': big, 'tme': [], 'tms': [], 'tnme': [], 'tnms': [],
                      'cnms': [w for w in ss if rng.random() < 0.1]}
            out.append(Case('pairs', {'B': rng.choice(BREAK_SETS), 'det': {'tables': tables},
                                      'pairs': [['x ' + e, s_ + ' y'] for e in es for s_ in ss]},
                            ['random', 'table-detector', 'small-counters']))
        # the real functions called WITHOUT word_break_chars ('B': None): their defaults apply; the model is
        # sent null and uses the defaults regenerated from the source
        P = DEFAULT_POOL
        out.append(Case('words', {'B': None, 'lines': corpus}, ['corpus', 'default-break']))
        out.append(Case('words_enum', {'B': None, 'alpha': ALPHA, 'prefix': '', 'n': 3}, ['enum', 'default-break']))
        for p in ('a-', 'a=', 'a:', 'a '):
            out.append(Case('words_enum', {'B': None, 'alpha': ALPHA + ':', 'prefix': p, 'n': 2 if quick else 3},
                            ['enum', 'default-break']))
        for _ in range(4 if quick else 40):
            lines = [rand_line(rng, P) for _ in range(50)]
            out.append(Case('words', {'B': None, 'lines': lines}, ['random', 'default-break']))
            if rng.random() < 0.5:
                out.append(Case('page_words', {'B': None, 'lines': lines[:10]}, ['random', 'default-break']))
        out.append(Case('page_words', {'B': None, 'lines': [c for c in corpus if c is not None][:20]},
                        ['corpus', 'default-break']))
        out.append(Case('strip', {'B': None, 'pairs': [[e, s] for e in short
                                                       for s in ['', 'b', '-', '-b', '--b', '=b', ':b', '„', 'b-']],
                                  'words': []}, ['enum', 'default-break']))
        for _ in range(2 if quick else 20):
            ws = [''.join(rng.choice('ab-=:„ .') for _ in range(rng.randint(0, 6))) for _ in range(40)]
            out.append(Case('strip', {'B': None, 'pairs': [[rng.choice(ws), rng.choice(ws)] for _ in range(40)],
                                      'words': []}, ['random', 'default-break']))
        out.append(Case('pairs', {'B': None, 'det': None, 'pairs': [[e, s] for e in enum_strings('aB.- =:', '', 3)
                                                                    for s in starts + ['=b', ':']]},
                        ['enum', 'no-detector', 'default-break']))
        for _ in range(1 if quick else 6):
            g = {'seed': rng.randrange(10 ** 6), 'n': rng.choice([400, 1500]), 'B': '-', 'default_B': True,
                 'p_break': rng.choice([0.2, 0.5, 0.8]), 'min_bigram': rng.choice([1, 5])}
            corpus_lines = [l['text'] for l in gen_corpus(g) if l['text']]
            pairs = []
            for _ in range(100):
                j = rng.randrange(len(corpus_lines) - 1)
                pairs.append([corpus_lines[j], corpus_lines[j + 1]] if rng.random() < 0.7 else
                             [rand_line(rng, P, 8), rand_line(rng, P, 8)])
            out.append(Case('pairs', {'B': None, 'det': {'gen': g}, 'pairs': pairs},
                            ['random', 'trained-detector', 'default-break']))
        out += self._wave4_cases(rng, quick)
        return self._empty_words_apart(out)

    @staticmethod
    def _empty_words_apart(cases: List[Case]) -> List[Case]:
        """STATEMENT: "helper functions that strip hyphens or break characters remove only those characters" speaks
        of the WORDS the helpers are handed, and the same statement says that splitting "never returns an empty token":
        the empty string is no word of any line, so what remove_hyphen('') / remove_word_break_chars('', x) /
        remove_word_break_chars(x, '') do (raise, or return something) is fixed by no clause (the oracle never judged
        it either).  Those calls are still made and compared with the model, but in cases of their own tagged
        core.OUTSIDE: a difference there is recorded in the evidence, it is no broken correspondence.  Every call with
        two non-empty words / a non-empty word stays in its case and is compared exactly as before."""
        out: List[Case] = []
        for c in cases:
            if c.kind != 'strip':
                out.append(c)
                continue
            ps, ws = c.input['pairs'], c.input['words']
            ps_in = [p for p in ps if p[0] != '' and p[1] != '']
            ws_in = [w for w in ws if w != '']
            if len(ps_in) == len(ps) and len(ws_in) == len(ws):
                out.append(c)
                continue
            if ps_in or ws_in:
                out.append(Case('strip', dict(c.input, pairs=ps_in, words=ws_in), c.tags))
            out.append(Case('strip', dict(c.input, pairs=[p for p in ps if p[0] == '' or p[1] == ''],
                                          words=[w for w in ws if w == '']), list(c.tags) + [OUTSIDE, 'empty-word']))
        return out

    # wave 4 (everything below draws from rng AFTER the streams above, which are unchanged) ---------------------
    # STATEMENT: "for any string and any set of break characters" / quantifier: "break-character sets '-', '-=:' and
    # multi-character sets with non-ASCII marks; detectors trained on generated corpora".  A SET has no order and no
    # preferred Python type: every order of the characters of a multi-character set, handed over as str / set / list /
    # tuple, is the same set — and every detector OPTION (ignorecase) is a detector.
    PERM_SETS = ['-=:', '-=+', '-¬„', '-]^', '-\\.', '-:=;', '-[a']

    @staticmethod
    def _between(B: str) -> str:
        """the characters a careless range reading of the set would take in or leave out: everything between the
        code points of two members (capped), plus the members, a letter, a digit pair and a blank"""
        cps = sorted(ord(c) for c in B if ord(c) < 128)
        mid = ''
        for a, b in zip(cps, cps[1:]):
            span = [chr(x) for x in range(a + 1, b)]
            mid += ''.join(span[:2] + span[-2:]) if len(span) > 4 else ''.join(span)
        return ''.join(dict.fromkeys(B + mid + 'a5 '))

    def _wave4_cases(self, rng: random.Random, quick: bool) -> List[Case]:
        out: List[Case] = []
        # (C)/(D) every character order of multi-character sets x Python type; lines ending in every pair of characters
        # inside / between / outside the set (exhaustive), behind a word, a blank and a number
        for base in self.PERM_SETS:
            E = self._between(base)
            tails = [a + b for a in E for b in E] + list(E)
            perms = [''.join(p) for p in itertools.permutations(base)]
            if len(perms) > 6:
                perms = perms[:2] + rng.sample(perms[2:], 6 if quick else 16)
            for B in perms:
                forms = ['str', 'set', 'list'] if B == perms[0] or not quick else ['str']
                for form in forms:
                    lines = [p + t for p in (('ab', '16') if quick else ('ab', 'a ', '16', '')) for t in tails]
                    out.append(Case('words', {'B': B, 'form': form, 'lines': lines},
                                    ['enum', 'break-set-orders', 'form:' + form]))
            for form in ('set', 'list', 'tuple'):
                B = ''.join(rng.sample(base, len(base)))
                out.append(Case('words', {'B': B, 'form': form, 'lines': [rand_line(rng, B) for _ in range(50)]},
                                ['random', 'break-set-orders', 'form:' + form]))
                out.append(Case('page_words', {'B': B, 'form': form, 'lines': [rand_line(rng, B) for _ in range(10)]},
                                ['random', 'break-set-orders', 'form:' + form]))
            short = enum_strings(base + 'a ', '', 2)
            for B in perms[:3]:
                out.append(Case('strip', {'B': B, 'pairs': [[e, s_] for e in short for s_ in ['b', base[1] + 'b', base[-1]]],
                                          'words': []}, ['enum', 'break-set-orders']))
            ends = [w + t for w in ('aB', 'x') for t in [''] + list(base) + [a + b for a in base for b in base]]
            for B in perms[:6]:
                out.append(Case('pairs', {'B': B, 'det': None, 'pairs': [[e, s_] for e in ends
                                                                         for s_ in ('b', 'B', base[1] + 'b', '5')]},
                                ['enum', 'no-detector', 'break-set-orders']))
        # (D) detector options: ignorecase on / off explicitly, trained and as arbitrary records, capitals in either
        # junction word (title case, all capitals, capital inside)
        caps_e = ['Amster-', 'AMSTER-', 'amster-', 'Ver-', 'VER-', 'ver-', 'vEr', 'Hoog', 'ge-', 'Ge=', 'DE-', 'É-', 'ǅe-']
        caps_s = ['dam', 'Dam', 'DAM', 'gadering', 'Gadering', 'gaDering', 'daan', 'Daan', 'A', 'én', 'Én', '12']
        for i in range(6 if quick else 40):
            B = rng.choice(BREAK_SETS)
            ic = [True, True, False][i % 3]
            g = {'seed': rng.randrange(10 ** 6), 'n': rng.choice([400, 1500]), 'B': B, 'ignorecase': ic,
                 'p_break': rng.choice([0.2, 0.5, 0.8]), 'min_bigram': rng.choice([1, 5])}
            corpus_lines = [l['text'] for l in gen_corpus(g) if l['text']]
            pairs = []
            for _ in range(120):
                r = rng.random()
                j = rng.randrange(len(corpus_lines) - 1)
                a, b = corpus_lines[j], corpus_lines[j + 1]
                if r < 0.35:
                    pass
                elif r < 0.6:      # the corpus pair with another capitalisation of the junction words
                    a = a[:-8] + rng.choice([str.upper, str.lower, str.title, str.swapcase])(a[-8:])
                    b = rng.choice([str.upper, str.lower, str.title, str.swapcase])(b[:8]) + b[8:]
                elif r < 0.9:
                    a, b = 'x ' + rng.choice(caps_e)[:-1] + rng.choice(B + B[0] * 2), rng.choice(caps_s) + ' y'
                else:
                    a, b = rand_line(rng, B, 8), rand_line(rng, B, 8)
                pairs.append([a, b])
            out.append(Case('pairs', {'B': rng.choice(BREAK_SETS), 'det': {'gen': g}, 'pairs': pairs},
                            ['random', 'trained-detector', 'ignorecase:' + str(ic)]))
        for i in range(30 if quick else 300):
            B = rng.choice(BREAK_SETS)
            es, ss = rng.sample(caps_e, 5), rng.sample(caps_s, 5)
            low = rng.random() < 0.5      # a record as training with ignorecase leaves it: lower-case words only
            vocab = es + ss + [e[:-1] for e in es if e] + [e + s_ for e in es for s_ in ss if rng.random() < 0.5] + \
                [e.rstrip(B) + s_.lstrip(B) for e in es for s_ in ss if rng.random() < 0.5]
            if low:
                vocab = [v.lower() for v in vocab]
            tables = random_tables(rng, B, sorted(set(v for v in vocab if v)))
            tables['ignorecase'] = [True, True, False][i % 3]
            out.append(Case('pairs', {'B': rng.choice(BREAK_SETS), 'det': {'tables': tables},
                                      'pairs': [['x ' + e, s_ + ' y'] for e in es for s_ in ss]},
                            ['random', 'table-detector', 'ignorecase:' + str(tables['ignorecase'])]))
        return out

    # ---------------------------------------------------------------- implementation
    @staticmethod
    def _lines(case: Case) -> List[Optional[str]]:
        if case.kind == 'words_enum':
            i = case.input
            return enum_strings(i['alpha'], i['prefix'], i['n'])
        return case.input['lines']

    def impl(self, case: Case) -> Any:
        th, ts = _real()
        k = case.kind
        if k in ('words', 'words_enum'):
            B, form = case.input['B'], case.input.get('form', 'str')
            ls = self._lines(case)
            kw = wbc_kw(B, form)
            arg = kw.get('word_break_chars')
            before = sorted(arg) if isinstance(arg, (set, list)) else arg
            out = [call(th.get_line_words, l, **kw) for l in ls]
            # (A) the same calls once more, in the opposite order, with the SAME argument object: "never raises …
            # for any string" holds for the thousandth call as for the first, and the answer is a function of the
            # string and the set (a difference is attached to the first answer and judged by the oracle)
            again = [call(th.get_line_words, l, **kw) for l in reversed(ls)][::-1]
            for i, (a, b) in enumerate(zip(out, again)):
                if a != b:
                    out[i] = dict(a, again=b)
            after = sorted(arg) if isinstance(arg, (set, list)) else arg
            if before != after and out:
                out[0] = dict(out[0], arg_changed=[before, after])
            return out
        if k == 'resplit':
            return [[t for t in re.split(r'\b', l)] for l in case.input['lines']]
        if k == 'page_words':
            import pagexml.model.physical_document_model as pdm
            kw = wbc_kw(case.input['B'], case.input.get('form', 'str'))

            def f():
                lines = [pdm.PageXMLTextLine(text=t) for t in case.input['lines']]
                page = pdm.PageXMLPage(text_regions=[pdm.PageXMLTextRegion(lines=lines)])
                first = list(th.get_page_lines_words(page, **kw))
                second = list(th.get_page_lines_words(page, **kw))      # the same page object once more
                return first if first == second else {'first': first, 'second': second}
            return call(f)
        if k == 'strip':
            B = case.input['B']
            if B is None:     # default break characters: called with two arguments
                wbc = [call(th.remove_word_break_chars, e, s) for e, s in case.input['pairs']]
                return {'wbc': wbc, 'wbc_set': wbc, 'hyphen': [call(th.remove_hyphen, w) for w in case.input['words']]}
            return {'wbc': [call(th.remove_word_break_chars, e, s, B) for e, s in case.input['pairs']],
                    'wbc_set': [call(th.remove_word_break_chars, e, s, set(B)) for e, s in case.input['pairs']],
                    'hyphen': [call(th.remove_hyphen, w) for w in case.input['words']]}
        if k == 'split_words':
            return [canon(call(th.split_line_words, list(ws))) for ws in case.input['words']]
        if k == 'pairs':
            B = case.input['B']
            wbd = make_detector(case.input['det'])
            Bw = ''.join(sorted(wbd.word_break_chars)) if wbd is not None else B     # None: get_line_words' default
            det_before = export_detector(wbd)
            out = []
            for prev, curr in case.input['pairs']:
                pw_r = call(th.get_line_words, prev, **wbc_kw(Bw))
                cw_r = call(th.get_line_words, curr, **wbc_kw(Bw))
                if 'ok' not in pw_r or 'ok' not in cw_r:
                    # the splitter itself raised: an outcome to be judged, not a harness failure
                    err = (pw_r if 'ok' not in pw_r else cw_r)['err']
                    out.append({'prev_words': pw_r.get('ok', []), 'curr_words': cw_r.get('ok', []),
                                'decision': {'err': err}, 'split_raised': err})
                    continue
                pw, cw = pw_r['ok'], cw_r['ok']
                pw_in, cw_in = list(pw), list(cw)
                d = canon(call(ts.determine_word_break, cw_in, pw_in, wbd=wbd, **wbc_kw(B)))
                x = {'prev_words': pw, 'curr_words': cw, 'decision': d}
                if pw_in != pw or cw_in != cw:
                    x['words_changed'] = [pw_in, cw_in]
                out.append(x)
            # (A) the detector is a USED object: every pair is decided once more, in the opposite order, on the same
            # detector; the answers must be the same and the detector's data untouched ("the detector is read, never
            # written"); differences are attached and judged by the oracle
            for x in reversed(out):
                if 'split_raised' in x:
                    continue
                d2 = canon(call(ts.determine_word_break, list(x['curr_words']), list(x['prev_words']), wbd=wbd,
                                **wbc_kw(B)))
                if d2 != x['decision']:
                    x['again'] = d2
            if wbd is not None and out and export_detector(wbd) != det_before:
                out[0]['detector_changed'] = True
            return out
        raise ValueError(k)

    # ---------------------------------------------------------------- model
    def requests(self, case: Case):
        k = case.kind
        if k in ('words', 'words_enum'):
            ls = self._lines(case)
            return [{'p': 'C17', 'op': 'line_words', 'args': {'cls': class_table(ls), 'B': case.input['B'],
                                                              'lines': ls}}]
        if k == 'resplit':
            ls = case.input['lines']
            return [{'p': 'C17', 'op': 're_split', 'args': {'cls': class_table(ls), 'lines': ls}}]
        if k == 'page_words':
            ls = case.input['lines']
            return [{'p': 'C17', 'op': 'page_lines_words', 'args': {'cls': class_table(ls), 'B': case.input['B'],
                                                                    'lines': ls}}]
        if k == 'strip':
            return [{'p': 'C17', 'op': 'remove_wbc', 'args': {'B': case.input['B'], 'pairs': case.input['pairs']}},
                    {'p': 'C17', 'op': 'remove_hyphen', 'args': {'words': case.input['words']}}]
        if k == 'split_words':
            return [{'p': 'C17', 'op': 'split_line_words', 'args': {'words': case.input['words']}}]
        if k == 'pairs':
            # the model decides on the words the real get_line_words returned (its own splitting is
            # compared separately by the 'words' cases)
            o = self.impl(case)
            wbd = make_detector(case.input['det'])
            pairs = [[x['prev_words'], x['curr_words']] for x in o]
            strings = [w for p in pairs for ws in p for w in ws]
            return [{'p': 'C17', 'op': 'determine', 'args': {'cls': class_table(strings), 'B': case.input['B'],
                                                             'det': export_detector(wbd), 'pairs': pairs}}]
        return []

    def compare(self, case, impl_out, model_out):
        k = case.kind
        m = model_out[0]
        if 'ok' not in m:
            return f'model answered {m}'
        m = m['ok']
        if k in ('words', 'words_enum', 'resplit', 'split_words'):
            want = impl_out if k != 'resplit' else [{'ok': x} for x in impl_out]
            if k == 'split_words':
                want = impl_out
            if want == m:
                return None
            ls = self._lines(case) if k != 'split_words' else case.input['words']
            for l, a, b in zip(ls, want, m):
                if a != b:
                    return f'{k} line={l!r} B={case.input.get("B")!r} impl={a} model={b}'
            return 'length mismatch'
        if k == 'page_words':
            return None if impl_out == model_out[0] else f'impl={impl_out} model={model_out[0]}'
        if k == 'strip':
            h = model_out[1].get('ok')
            for name, want, got, xs in (('wbc', impl_out['wbc'], m, case.input['pairs']),
                                        ('wbc_set', impl_out['wbc_set'], m, case.input['pairs']),
                                        ('hyphen', impl_out['hyphen'], h, case.input['words'])):
                if want != got:
                    for x, a, b in zip(xs, want, got or []):
                        if a != b:
                            return f'{name} {x!r} B={case.input["B"]!r} impl={a} model={b}'
                    return f'{name}: length mismatch'
            return None
        if k == 'pairs':
            for x, b in zip(impl_out, m):
                if x['decision'] != b:
                    return f'determine prev={x["prev_words"]} curr={x["curr_words"]} impl={x["decision"]} model={b}'
            return None if len(impl_out) == len(m) else 'length mismatch'
        return None

    # ---------------------------------------------------------------- oracle
    def oracle(self, case: Case, out: Any) -> List[Finding]:
        fs: List[Finding] = []
        k = case.kind

        def bad(key, what, small: Case, o):
            fs.append(Finding(f'C17:{key}', what, small, o))

        if k in ('words', 'words_enum'):
            B0 = case.input['B']
            B = eff_B(_real()[0].get_line_words, B0)
            form = case.input.get('form', 'str')
            for l, o in zip(self._lines(case), out):
                one = Case('words', dict({'B': B0, 'lines': [l]}, **({'form': form} if form != 'str' else {})), case.tags)
                if 'again' in o:
                    bad('repeat-differs', f'get_line_words({l!r}, {B!r}) answered {short_(o)} the first time and '
                                          f'{o["again"]} when called again in the same process', case, out)
                if 'arg_changed' in o:
                    bad('argument-changed', f'get_line_words changed the break characters it was given: '
                                            f'{o["arg_changed"][0]} -> {o["arg_changed"][1]}', case, out)
                if 'ok' not in o:
                    bad('split-raises', f'get_line_words({l!r}, {B!r} as {form}) raised {o["err"]}', one, [o])
                    continue
                ws = o['ok']
                if l is None or l == '':
                    if ws:
                        bad('tokens-from-nothing', f'get_line_words({l!r}) = {ws}', one, [o])
                    continue
                if any(w == '' for w in ws):
                    bad('empty-token', f'get_line_words({l!r}, {B!r}) = {ws} has an empty token', one, [o])
                elif any(w.strip() == '' for w in ws):
                    bad('blank-token', f'get_line_words({l!r}, {B!r}) = {ws} has a whitespace-only token', one, [o])
                if B is not None and nospace(''.join(ws)) != nospace(norm_trail(l, B)):
                    bad('conservation', f'get_line_words({l!r}, {B!r}) = {ws}: the non-whitespace characters are '
                                        f'{nospace("".join(ws))!r}, expected {nospace(norm_trail(l, B))!r}', one, [o])
        elif k == 'page_words':
            if 'ok' not in out:
                bad('split-raises', f'get_page_lines_words raised {out["err"]}', case, out)
            elif isinstance(out['ok'], dict):
                bad('repeat-differs', f'get_page_lines_words gave {out["ok"]["first"]} and then {out["ok"]["second"]} '
                                      f'on the same page', case, out)
        elif k == 'strip':
            B0 = case.input['B']
            B = eff_B(_real()[0].remove_word_break_chars, B0)
            for (e, s), o, o2 in zip(case.input['pairs'] if B is not None else [], out['wbc'], out['wbc_set']):
                one = Case('strip', {'B': B0, 'pairs': [[e, s]], 'words': []}, case.tags)
                sub = {'wbc': [o], 'wbc_set': [o2], 'hyphen': []}
                if e == '' or s == '':
                    continue          # the statement speaks of words; '' is not a word
                if 'ok' not in o or o != o2:
                    bad('strip-raises', f'remove_word_break_chars({e!r}, {s!r}, {B!r}) gave {o} / {o2}', one, sub)
                    continue
                r = o['ok']
                okv = False
                for i in range(0, 3):          # up to two trailing break characters of the end word
                    for jn in range(0, 2):     # up to one leading break character of the start word
                        if i <= len(e) and jn <= len(s) and all(c in B for c in e[len(e) - i:]) and \
                                all(c in B for c in s[:jn]) and r == e[:len(e) - i] + s[jn:]:
                            okv = True
                if not okv:
                    bad('strip-more-than-breaks', f'remove_word_break_chars({e!r}, {s!r}, {B!r}) = {r!r}', one, sub)
            for w, o in zip(case.input['words'], out['hyphen']):
                one = Case('strip', {'B': B0, 'pairs': [], 'words': [w]}, case.tags)
                sub = {'wbc': [], 'wbc_set': [], 'hyphen': [o]}
                if w == '':
                    continue
                if 'ok' not in o:
                    bad('strip-raises', f'remove_hyphen({w!r}) raised {o["err"]}', one, sub)
                    continue
                r = o['ok']
                if not any(r == w[:len(w) - i] and all(c in SPEC_HYPHENS for c in w[len(w) - i:]) for i in range(0, 3)
                           if i <= len(w)):
                    bad('strip-more-than-breaks', f'remove_hyphen({w!r}) = {r!r}', one, sub)
        elif k == 'pairs':
            B0 = case.input['B']
            B = eff_B(_real()[1].determine_word_break, B0)
            det = case.input['det']
            wbd = make_detector(det)
            Bw = ''.join(sorted(wbd.word_break_chars)) if wbd is not None else B
            if out and out[0].get('detector_changed'):
                bad('detector-changed', 'determine_word_break changed the data of the detector it was given', case, out)
            for (prev, curr), x in zip(case.input['pairs'], out):
                one = Case('pairs', {'B': B0, 'det': det, 'pairs': [[prev, curr]]}, case.tags)
                pw, cw, d = x['prev_words'], x['curr_words'], x['decision']
                if 'again' in x:
                    bad('repeat-differs', f'determine_word_break on {prev!r} / {curr!r} answered {d} and, asked again '
                                          f'with the same detector, {x["again"]}', case, out)
                if 'words_changed' in x:
                    bad('argument-changed', f'determine_word_break changed its word lists {pw} / {cw} to '
                                            f'{x["words_changed"]}', one, [x])
                if x.get('split_raised'):
                    bad('split-raises', f'get_line_words raised {x["split_raised"]} on {prev!r} or {curr!r} (B={Bw!r})',
                        one, [x])
                    continue
                if 'ok' not in d:
                    bad('determine-raises', f'determine_word_break on {prev!r} / {curr!r} raised {d["err"]}', one, [x])
                    continue
                do_merge, word = d['ok']
                if not pw or not cw:
                    if do_merge or word is not None:
                        bad('merge-without-words', f'{prev!r} / {curr!r}: {d["ok"]}', one, [x])
                    continue
                e, s = pw[-1], cw[0]
                if e == '' or s == '':
                    continue    # reported by the splitting oracle
                if Bw is None or (det is None and B is None):
                    continue    # the interface declares no default break characters: nothing to judge them by
                # the two words joined with the break characters at the junction removed
                i = 2 if len(e) >= 2 and e[-1] in Bw and e[-2] in Bw else (1 if e[-1] in Bw else 0)
                reduced = e[:len(e) - i] + (s[1:] if s[0] in Bw else s)
                if det is None:
                    want = [True, reduced] if e[-1] in B else [False, None]
                    if [do_merge, word] != want:
                        bad('hyphen-rule', f'no detector, B={B!r}: {prev!r} / {curr!r} (words {e!r}, {s!r}) gave '
                                           f'{d["ok"]}, expected {want}', one, [x])
                else:
                    if [do_merge, word] != [False, None] and not (do_merge is True and word in (e + s, reduced)):
                        bad('detector-range', f'detector: words {e!r}, {s!r} gave {d["ok"]}; allowed: no merge, '
                                              f'{e + s!r}, {reduced!r}', one, [x])
                    if do_merge and (not re.search(r'\w', e) or not re.search(r'\w', s)):
                        bad('punctuation-merged', f'detector: words {e!r}, {s!r} (pure punctuation) merged: '
                                                  f'{d["ok"]}', one, [x])
        return fs

    def nontrivial(self, case: Case) -> bool:
        if case.kind in ('words', 'words_enum'):
            B = eff_B(_real()[0].get_line_words, case.input['B']) or ''
            return any(l and any(c in B for c in l) and any(c.isspace() for c in l) and re.search(r'\w', l)
                       for l in self._lines(case)[:400])
        if case.kind == 'pairs':
            return any(re.search(r'\w', p) for p, _ in case.input['pairs'])
        return True

    def shrink_candidates(self, case: Case):
        k = case.kind
        if k == 'words':
            ls = case.input['lines']
            if len(ls) > 1:
                for l in ls:
                    yield Case(k, dict(case.input, lines=[l]), case.tags)
            elif ls and ls[0]:
                s = ls[0]
                for i in range(len(s)):
                    yield Case(k, dict(case.input, lines=[s[:i] + s[i + 1:]]), case.tags)
        elif k == 'pairs':
            ps = case.input['pairs']
            if len(ps) > 1:
                for p in ps:
                    yield Case(k, dict(case.input, pairs=[p]), case.tags)
            elif ps:
                a, b = ps[0]
                for i in range(len(a)):
                    yield Case(k, dict(case.input, pairs=[[a[:i] + a[i + 1:], b]]), case.tags)
                for i in range(len(b)):
                    yield Case(k, dict(case.input, pairs=[[a, b[:i] + b[i + 1:]]]), case.tags)
        elif k == 'strip':
            ps, ws = case.input['pairs'], case.input['words']
            if len(ps) + len(ws) > 1:
                for p in ps:
                    yield Case(k, dict(case.input, pairs=[p], words=[]), case.tags)
                for w in ws:
                    yield Case(k, dict(case.input, pairs=[], words=[w]), case.tags)


CHECK = C17()
