"""C11 — Custom attribute strings are parsed completely and re-serialise stably."""
from __future__ import annotations

import ast
import copy
import itertools
import os
import random
import re
from typing import Any, Dict, Iterable, List, Optional

from harness import core
from harness.core import Case, Check, Finding, call

INT_KEYS = ('offset', 'length', 'index')          # the statement: "offset, length and index are integers"
DEDICATED = ('readingOrder', 'structure', 'textStyle')
_WORD = re.compile(r'\w')


# ------------------------------------------------------------------------------------------
# character classes from the running CPython (DESIGN §3.3)
# ------------------------------------------------------------------------------------------

def class_bits(ch: str) -> int:
    return (1 if _WORD.match(ch) else 0) | (2 if ch.isspace() else 0)


def cc_table(*strings: Optional[str]) -> Dict[str, int]:
    t = {}
    for s in strings:
        if s:
            for ch in set(s):
                t[str(ord(ch))] = class_bits(ch)
    return t


def check_laws():
    """the laws `Lawful cc` of Props/C11.lean, checked on the running CPython"""
    bad = []
    for ch in ' }{:;-\n':
        if class_bits(ch) & 1:
            bad.append(f'{ch!r} is a word character')
    for ch in ':;}{-_0123456789':
        if class_bits(ch) & 2:
            bad.append(f'{ch!r} is whitespace')
    if not class_bits(' ') & 2:
        bad.append('space is not whitespace')
    for ch in '0123456789_':
        if not class_bits(ch) & 1:
            bad.append(f'{ch!r} is not a word character')
    if bad:
        raise core.Infra('CPython violates the character-class laws assumed by the C11 theorems: ' + '; '.join(bad))


# ------------------------------------------------------------------------------------------
# the grammar of the statement, rendered with an explicit layout (mirrors renderCustom)
# ------------------------------------------------------------------------------------------

def render_attr(a: Dict[str, str]) -> str:
    return a['pre'] + a['key'] + a['postKey'] + ':' + a['preVal'] + a['value'] + a['postVal']


def render_tag(t: Dict[str, Any]) -> str:
    fields = [render_attr(a) for a in t['attrs']]
    if not t['attrs'] or t['trailing']:
        fields.append(t['close'])
    return t['sep'] + t['name'] + ' {' + ';'.join(fields) + '}'


def render(c: Dict[str, Any]) -> str:
    if 'raw' in c:
        return c['raw']
    return ''.join(render_tag(t) for t in c['laid']) + c.get('tail', '')


def mk_attr(key, value, pre='', postKey='', preVal='', postVal=''):
    return {'pre': pre, 'key': key, 'postKey': postKey, 'preVal': preVal, 'value': value, 'postVal': postVal}


def mk_tag(name, attrs, sep='', trailing=True, close=''):
    return {'sep': sep, 'name': name, 'attrs': attrs, 'trailing': trailing, 'close': close}


def expected_entries(c: Dict[str, Any]) -> List[Dict[str, Any]]:
    """what the statement demands for a grammar string: one entry per tag, in order, the
    tag name and every key/value pair, integers typed"""
    out = []
    for t in c['laid']:
        d = {}
        for a in t['attrs']:
            d[a['key']] = int(a['value']) if a['key'] in INT_KEYS else a['value']
        out.append({'tag_name': t['name'], 'attrs': d})
    return out


def in_reading(c: Optional[Dict[str, Any]], literal_ws: bool = True) -> bool:
    """does the custom attribute follow the grammar of the statement as the parser gets to see it?
    A newline inside the braces is excluded (DESIGN §9); written literally in XML it is normalised
    to a space, written as a character reference it survives."""
    if c is None or 'laid' not in c:
        return False
    if literal_ws:
        return True
    return not any('\n' in a[k] for t in c['laid'] for a in t['attrs'] for k in ('pre', 'postKey', 'preVal', 'postVal')) \
        and not any('\n' in t['close'] for t in c['laid'])


def distinct_keys(c) -> bool:
    for t in c['laid']:
        ks = [a['key'] for a in t['attrs']]
        if len(set(ks)) != len(ks) or 'tag_name' in ks:
            return False
    return True


def guard_defect(c: Optional[Dict[str, Any]]) -> bool:
    """the input class of the known finding: a tag name that properly ends with 'structure' or
    'readingOrder' while no tag of exactly that name occurs in the same attribute"""
    if c is None or 'laid' not in c:
        return False
    names = [t['name'] for t in c['laid']]
    return any(n != d and n.endswith(d) and d not in names for n in names for d in ('structure', 'readingOrder'))


def features(c: Dict[str, Any]) -> List[str]:
    """the layout / arrangement classes a grammar string belongs to (evidence histogram and
    finding keys)"""
    fs = []
    laid = c['laid']
    names = [t['name'] for t in laid]
    if any(t['sep'] == '' for t in laid[1:]):
        fs.append('adjacent-tags')
    if any(a != b and (a.endswith(b) or b.endswith(a)) for a in names for b in names):
        fs.append('suffix-name')
    if any(n != d and n.endswith(d) for n in names for d in DEDICATED):
        fs.append('name-ends-with-dedicated')
    if len(set(names)) != len(names):
        fs.append('repeated-name')
    if any(not t['attrs'] for t in laid):
        fs.append('empty-braces')
    if any(t['attrs'] and not t['trailing'] for t in laid):
        fs.append('no-trailing-semicolon')
    if any(a[k] for t in laid for a in t['attrs'] for k in ('pre', 'postKey', 'preVal', 'postVal')) or \
            any(t['close'] for t in laid):
        fs.append('inner-whitespace')
    if any(a['key'] in INT_KEYS for t in laid for a in t['attrs']):
        fs.append('int-key')
    if not distinct_keys(c):
        fs.append('duplicate-or-reserved-key')
    return fs or ['plain']


# ------------------------------------------------------------------------------------------
# which inputs the statement quantifies over (computed from the case input, never from its stream)
# ------------------------------------------------------------------------------------------
# properties.jsonl, C11: "custom attribute string composed of tags of the form name {key:value; ...} (one space
# between name and brace; values free of semicolons, colons and braces; arbitrary whitespace inside the braces;
# optional trailing semicolon; empty braces; repeated tag names)"; quantifier: "tag names, keys and values drawn from
# word characters (plus spaces, dots and dashes in values), 0..n tags, 0..m attributes per tag, every whitespace
# placement; all lines whose tags carry offset/length within or beyond the text".  Everything else (a part with a
# second colon, a brace inside the braces, a part without a colon, an empty part in the middle, text that is no tag,
# a non-integer offset/length/index, a requested tag without offset/length or with a negative one, a requested tag
# on a line without text) is OUTSIDE: the statement says nothing about it — not even that it is rejected.

_INT_LITERAL = re.compile(r'[+-]?[0-9]+(?:_[0-9]+)*')     # what int() takes (ASCII digits: DESIGN §6)


def _is_word(ch: str) -> bool:
    return bool(_WORD.match(ch))


def _blank(w: str) -> bool:
    """whitespace that may stand inside the braces: isspace() characters but the newline (DESIGN §9)"""
    return all(ch.isspace() and ch != '\n' for ch in w)


def _attr_of_part(part: str) -> Optional[Dict[str, str]]:
    if part.count(':') != 1:            # "values free of ... colons": a second colon is outside the statement
        return None
    kp, vp = part.split(':')
    key, value = kp.strip(), vp.strip()
    if not key or not value or not all(_is_word(ch) for ch in key):
        return None
    if key in INT_KEYS:                 # "where offset, length and index are integers"
        if not _INT_LITERAL.fullmatch(value):
            return None
    elif not all(_is_word(ch) or ch in ' .-' for ch in value):
        return None
    a = mk_attr(key, value, kp[:len(kp) - len(kp.lstrip())], kp[len(kp.rstrip()):],
                vp[:len(vp) - len(vp.lstrip())], vp[len(vp.rstrip()):])
    if not all(_blank(a[k]) for k in ('pre', 'postKey', 'preVal', 'postVal')):
        return None
    return a


def raw_as_grammar(s: str) -> Optional[Dict[str, Any]]:
    """the laid-out grammar string `c` with render(c) == s when `s` is a custom string of the statement (tags only,
    separated by non-word text without braces), else None"""
    laid: List[Dict[str, Any]] = []
    i, n = 0, len(s)
    while True:
        j = i
        while j < n and not _is_word(s[j]) and s[j] not in '{}':
            j += 1
        sep = s[i:j]
        if j == n:
            c = {'laid': laid, 'tail': sep}
            return c if render(c) == s else None
        if s[j] in '{}':
            return None
        k = j
        while k < n and _is_word(s[k]):
            k += 1
        if not s.startswith(' {', k):   # "one space between name and brace"
            return None
        e = s.find('}', k + 2)
        if e < 0:
            return None
        body = s[k + 2:e]
        if '{' in body or '\n' in body:
            return None
        parts = body.split(';')
        trailing, close = False, ''
        if _blank(parts[-1]):           # empty braces, or an optional trailing semicolon
            trailing, close, parts = True, parts[-1], parts[:-1]
        attrs = [_attr_of_part(p) for p in parts]
        if any(a is None for a in attrs):
            return None
        laid.append(mk_tag(s[j:k], attrs, sep=sep, trailing=trailing, close=close))
        i = e + 1


def seen_custom(c: Optional[Dict[str, Any]], literal_ws: bool) -> Optional[Dict[str, Any]]:
    """a custom attribute of an XML case as a grammar string the way the parser gets to see it, or None if it lies
    outside the statement"""
    if c is None:
        return None
    if 'laid' in c:
        return c if in_reading(c, literal_ws) else None
    return raw_as_grammar(normalised(c['raw'], literal_ws))


def outside_quantifier(kind: str, inp: Any) -> Optional[str]:
    """None if the case input is one the statement quantifies over, else the reason"""
    if kind == 'grammar':
        return None                      # generated from the grammar of the statement
    if kind == 'raw':
        return None if raw_as_grammar(inp['s']) is not None else 'not a string of tags name {key:value; ...}'
    if kind == 'xml':
        lw = inp.get('literal_ws', True)
        req = inp.get('custom_tags') or []
        for k, spec in doc_elements(inp):
            if spec.get('custom') is None:
                continue
            g = seen_custom(spec['custom'], lw)
            if g is None:
                return f'custom attribute of a {k} is not a string of tags name {{key:value; ...}}'
            if k == 'line' and req:
                # "all lines whose tags carry offset/length within or beyond the text"
                for t in g['laid']:
                    if t['name'] not in req:
                        continue
                    d = {a['key']: a['value'] for a in t['attrs']}
                    if 'offset' not in d or 'length' not in d or int(d['offset']) < 0 or int(d['length']) < 0:
                        return 'requested tag without offset/length, or with a negative one'
                    if spec.get('text') is None:
                        return 'requested tag on a line without text'
        return None
    return None


# ------------------------------------------------------------------------------------------
# canonical forms of the real code's outputs
# ------------------------------------------------------------------------------------------

def canon_val(v):
    if isinstance(v, bool) or not isinstance(v, (int, str)):
        return {'repr': repr(v)}
    return v


def canon_entry(d: Any) -> Any:
    """a parsed tag `{**attrs, 'tag_name': name}` -> name + attributes in dict order"""
    if not isinstance(d, dict) or 'tag_name' not in d:
        return {'repr': repr(d)}
    return {'tag_name': d['tag_name'], 'attrs': [[k, canon_val(v)] for k, v in d.items() if k != 'tag_name']}


def canon_dict(d: Any) -> Any:
    if d is None:
        return None
    if not isinstance(d, dict):
        return {'repr': repr(d)}
    return sorted([k, canon_val(v)] for k, v in d.items())


def sort_entry(e):
    if isinstance(e, dict) and 'attrs' in e:
        return {'tag_name': e['tag_name'], 'attrs': sorted(e['attrs'], key=lambda kv: kv[0])}
    return e


def entry_as_dict(e) -> Dict[str, Any]:
    return {'tag_name': e['tag_name'], 'attrs': {k: v for k, v in e['attrs']}}


MD_KEYS = ('custom_attributes', 'reading_order', 'structure', 'type', 'text_style', 'custom_tags')


def canon_metadata(md: Dict[str, Any], is_line: bool) -> Dict[str, Any]:
    out = {
        'custom_attributes': [canon_entry(e) for e in md['custom_attributes']] if 'custom_attributes' in md else None,
        'reading_order': canon_dict(md.get('reading_order')),
        'structure': canon_dict(md.get('structure')),
        # a line's metadata['type'] is always overwritten with 'line' by its constructor
        'type': None if is_line else canon_val(md['type']) if 'type' in md else None,
        'text_style': [canon_dict(d) for d in md['text_style']] if 'text_style' in md else None,
        'custom_tags': [canon_dict(d) for d in md['custom_tags']] if 'custom_tags' in md else None,
    }
    return out


ROW_KEYS = ('type', 'value', 'region_id', 'line_id', 'offset', 'length')


def stated_rows(rows: Any) -> Any:
    """get_custom_tags rows on the keys the statement speaks of ("a custom tag's reported value is the substring of
    its line's text at that offset and length", identified by tag type, region and line): further keys a row may
    carry are not excluded by the statement and are not compared"""
    if isinstance(rows, dict) and isinstance(rows.get('ok'), list):
        return {'ok': [{k: r[k] for k in ROW_KEYS if k in r} if isinstance(r, dict) else r for r in rows['ok']]}
    return rows


def same_serialisation(a: Any, b: Any) -> bool:
    """`make_custom_string` of model and code: the statement only observes the serialised text through "serialising
    the parsed entries and parsing again yields the same entries", so two texts that are both custom strings of the
    statement and stand for the same tags (names, keys, typed values, in order) are the same serialisation; the
    whitespace / semicolon layout of the text is free.  Anything else is compared exactly."""
    if a == b:
        return True
    if not (isinstance(a, dict) and isinstance(b, dict) and isinstance(a.get('ok'), str) and isinstance(b.get('ok'), str)):
        return False
    ga, gb = raw_as_grammar(a['ok']), raw_as_grammar(b['ok'])
    if ga is None or gb is None:
        return False
    pairs = lambda g: [(t['name'], [(x['key'], int(x['value']) if x['key'] in INT_KEYS else x['value'])
                                    for x in t['attrs']]) for t in g['laid']]
    return pairs(ga) == pairs(gb)


# ------------------------------------------------------------------------------------------
# XML route
# ------------------------------------------------------------------------------------------

def xml_attr(s: str, literal_ws: bool) -> str:
    s = s.replace('&', '&amp;').replace('<', '&lt;').replace('"', '&quot;')
    if not literal_ws:
        s = s.replace('\t', '&#9;').replace('\n', '&#10;').replace('\r', '&#13;')
    return s


def xml_text(s: str) -> str:
    return s.replace('&', '&amp;').replace('<', '&lt;').replace('>', '&gt;')


def normalised(s: str, literal_ws: bool) -> str:
    """XML attribute-value normalisation: literal TAB / LF / CR become spaces (CRLF is first
    turned into LF by line-end normalisation)"""
    if literal_ws:
        s = s.replace('\r\n', '\n')
        return s.replace('\t', ' ').replace('\n', ' ').replace('\r', ' ')
    return s


COORDS = '<Coords points="0,0 10,0 10,10 0,10"/>'


def xml_ok(s: str) -> bool:
    """only characters that XML 1.0 allows in a document"""
    return all(ch in '\t\n\r' or (0x20 <= ord(ch) <= 0xD7FF) or (0xE000 <= ord(ch) <= 0xFFFD) for ch in s)


def build_xml(doc: Dict[str, Any]) -> str:
    lw = doc.get('literal_ws', True)

    def cattr(c):
        return '' if c is None else f' custom="{xml_attr(render(c), lw)}"'

    def word_xml(w):
        te = '' if w.get('text') is None else f'<TextEquiv><Unicode>{xml_text(w["text"])}</Unicode></TextEquiv>'
        return f'<Word id="{w["id"]}"{cattr(w.get("custom"))}>{COORDS}{te}</Word>'

    def line_xml(l):
        te = '' if l.get('text') is None else f'<TextEquiv><Unicode>{xml_text(l["text"])}</Unicode></TextEquiv>'
        ws = ''.join(word_xml(w) for w in l.get('words', []))
        return f'<TextLine id="{l["id"]}"{cattr(l.get("custom"))}>{COORDS}{ws}{te}</TextLine>'

    parts = ['<?xml version="1.0" encoding="UTF-8"?>',
             '<PcGts xmlns="http://schema.primaresearch.org/PAGE/gts/pagecontent/2013-07-15">',
             '<Metadata><Creator>c11</Creator></Metadata>',
             '<Page imageFilename="f.jpg" imageWidth="100" imageHeight="100">']
    for r in doc.get('regions', []):
        ls = ''.join(line_xml(l) for l in r.get('lines', []))
        parts.append(f'<TextRegion id="{r["id"]}"{cattr(r.get("custom"))}>{COORDS}{ls}</TextRegion>')
    for t in doc.get('tables', []):
        cells = ''
        for i, c in enumerate(t.get('cells', [])):
            ls = ''.join(line_xml(l) for l in c.get('lines', []))
            cells += f'<TableCell id="{c["id"]}" row="{i // 2}" col="{i % 2}"{cattr(c.get("custom"))}>{COORDS}{ls}</TableCell>'
        parts.append(f'<TableRegion id="{t["id"]}"{cattr(t.get("custom"))}>{COORDS}{cells}</TableRegion>')
    parts.append('</Page></PcGts>')
    return ''.join(parts)


def doc_elements(doc: Dict[str, Any]):
    """(kind, spec) of every element of the case input, in the order the observer walks them"""
    def lines(ls):
        for l in ls:
            yield 'line', l
            for w in l.get('words', []):
                yield 'word', w
    for r in doc.get('regions', []):
        yield 'region', r
        yield from lines(r.get('lines', []))
    for t in doc.get('tables', []):
        yield 'table', t
        for c in t.get('cells', []):
            yield 'cell', c
            yield from lines(c.get('lines', []))


def real_elements(scan):
    def lines(ls):
        for l in ls:
            yield 'line', l
            for w in l.words:
                yield 'word', w
    for r in scan.text_regions:
        yield 'region', r
        yield from lines(r.lines)
    for t in scan.table_regions:
        yield 'table', t
        for row in t.rows:
            for c in row.cells:
                yield 'cell', c
                yield from lines(c.lines)


def type_list(t) -> List[str]:
    if isinstance(t, str):
        return [t]
    return list(t)


_BASE_TYPES: Dict[str, List[str]] = {}


def base_types() -> Dict[str, List[str]]:
    """the type lists of elements parsed without a custom attribute (reference for add_type)"""
    if not _BASE_TYPES:
        from pagexml.parser import parse_pagexml_file
        ref = {'regions': [{'id': 'r', 'lines': [{'id': 'l', 'text': 'a', 'words': [{'id': 'w', 'text': 'a'}]}]}],
               'tables': [{'id': 't', 'cells': [{'id': 'c', 'lines': []}]}]}
        scan = parse_pagexml_file('ref', pagexml_data=build_xml(ref))
        for kind, el in real_elements(scan):
            _BASE_TYPES.setdefault(kind, type_list(el.type))
    return _BASE_TYPES


# ------------------------------------------------------------------------------------------
# generators
# ------------------------------------------------------------------------------------------

NAME_CH = 'abZ_1é'
VAL_CH = 'abZ1é .-'
WS_DIRECT = [' ', '  ', '\t', ' \t ', '\u00a0', '\r', '\x0b']
WS_XML = [' ', '  ', '\t', '\n', ' \n ']
SEP_DIRECT = ['', '', ' ', ' ', '  ', '\t', '\n', ', ', ' - ', '.', '\u00a0']
SEP_XML = ['', '', ' ', ' ', '  ', '\t', '\n', ', ']
NAME_POOL = ['a', 'b', 'ab', 'structure', 'readingOrder', 'textStyle', 'person', 'place', 'myperson', 'unclear',
             'abbrev', 'Style', 'x_1', 'é', 'structureX', '1', '_']
KEY_POOL = ['type', 'index', 'offset', 'length', 'k', 'key2', 'fontFamily', 'bold', 'é', '_', 'continued', 'tag',
            'name', 'Offset', 'offsets']


def rand_word(rng, chars=NAME_CH, lo=1, hi=5) -> str:
    return ''.join(rng.choice(chars) for _ in range(rng.randint(lo, hi)))


def rand_value(rng) -> str:
    n = rng.randint(1, 8)
    s = ''.join(rng.choice(VAL_CH) for _ in range(n)).strip()
    return s or rng.choice('abZ1')


def rand_int_str(rng) -> str:
    v = rng.choice([0, 1, 2, 3, 5, 7, 10, 12, 99, 10 ** 20]) if rng.random() < 0.7 else rng.randint(0, 40)
    r = rng.random()
    if r < 0.85:
        return str(v)
    return rng.choice(['+' + str(v), '0' + str(v), '-' + str(v), str(v) + '_0' if v else '0_0'])


def rand_ws(rng, pool, p) -> str:
    return rng.choice(pool) if rng.random() < p else ''


def rand_tag(rng, xml: bool, p_ws: float, name=None, with_span: Optional[int] = None) -> Dict[str, Any]:
    pool = WS_XML if xml else WS_DIRECT
    name = name or (rng.choice(NAME_POOL) if rng.random() < 0.7 else rand_word(rng))
    n = rng.choice([0, 1, 1, 2, 2, 3, 5])
    keys: List[str] = []
    if with_span is not None:
        keys = ['offset', 'length']
        rng.shuffle(keys)
    while len(keys) < n:
        k = rng.choice(KEY_POOL) if rng.random() < 0.7 else rand_word(rng)
        if k not in keys and k != 'tag_name':
            keys.append(k)
    rng.shuffle(keys)
    attrs = []
    for k in keys:
        if k == 'offset' and with_span is not None:
            v = str(rng.choice([0, 0, 1, 2, with_span // 2, max(0, with_span - 1), with_span, with_span + 3]))
        elif k == 'length' and with_span is not None:
            v = str(rng.choice([0, 1, 2, 3, with_span, with_span + 5, 100]))
        elif k in INT_KEYS:
            v = rand_int_str(rng)
        else:
            v = rand_value(rng)
        attrs.append(mk_attr(k, v, rand_ws(rng, pool, p_ws), rand_ws(rng, pool, p_ws), rand_ws(rng, pool, p_ws),
                             rand_ws(rng, pool, p_ws)))
    return mk_tag(name, attrs, sep='', trailing=rng.random() < 0.6, close=rand_ws(rng, pool, p_ws))


def rand_custom(rng, xml: bool, n_tags=None, requested: Iterable[str] = (), span: Optional[int] = None):
    p_ws = rng.choice([0.0, 0.2, 0.6])
    n = rng.choice([0, 1, 1, 2, 2, 3, 4, 6]) if n_tags is None else n_tags
    laid = []
    requested = list(requested)
    for i in range(n):
        if requested and rng.random() < 0.5:
            t = rand_tag(rng, xml, p_ws, name=rng.choice(requested), with_span=span if span is not None else 4)
        else:
            nm = None
            if laid and rng.random() < 0.25:   # repeated name / a name that is a suffix or extension of another
                base = rng.choice(laid)['name']
                nm = rng.choice([base, 'x' + base, base + 'x', base[1:] or base])
            t = rand_tag(rng, xml, p_ws, name=nm)
            if t['name'] in requested:   # a requested tag must carry offset and length (the quantifier)
                t = rand_tag(rng, xml, p_ws, name=t['name'], with_span=span if span is not None else 4)
        t['sep'] = rng.choice(SEP_XML if xml else SEP_DIRECT) if i > 0 else rng.choice(['', '', ' ', '\t' if not xml else ' '])
        laid.append(t)
    return {'laid': laid, 'tail': rng.choice(['', '', ' ', '  ', '\n' if not xml else ' '])}


MALFORMED = [
    'a {x}', 'a {x:1:2}', 'a {offset:z}', 'a {offset:}', 'a {length:1.5}', 'a {index:0x1}', 'a {x:1', 'a x:1}',
    'a {x:1}}', 'a {{x:1}', 'a {b {c:1}', 'a {x:1; ;y:2}', 'a {x:1;;y:2}', 'a {;}', 'a { ; }', 'a  {x:1}',
    'a{x:1}', 'a {x:1\n}', 'a {x:1;\ny:2}', 'a\n{x:1}', 'a {x: }', 'a {:v}', 'a { : }', 'a {x:}', '{x:1}', ' {x:1}',
    'a b {x:1}', 'a-b {x:1}', 'a.b {x:1} c', 'a {tag_name:q; x:1}', 'a {x:1; x:2}', 'a {x:1; tag_name:2; y:3}',
    'a {offset:1; offset:x}', 'a {offset: 1 2}', 'a {offset:--1}', 'a {offset:1_}', 'a {offset:1__0}',
    'structure {type:p', 'structure {', 'a {structure {type:x}', 'readingOrder {index:x}', 'readingOrder {index}',
    'textStyle {a}', 'x structure {type:p} } {', 'a {x:1} b {y} c {z:2}', 'a {x:1}b {y:2:3}', '', ' ', '{}', '}{',
    'a {}', 'a { }', 'a {\t}', 'é {ü:ö}', 'a {k: v w ;}', 'a {k:v}\nb {k:w}', 'a {k:v} {k:w}', 'ab {k:v}b {k:w}',
    'mystructure {type:p;}', 'xreadingOrder {index:1;}', 'atextStyle {a:b}', 'a {type:structure {}', 'a {x:\u00a0y\u00a0}',
    'a {\x1cx\x1c:\x1fy\x1f}', 'a\u00a0{x:1}', 'a {x:1}\r\nb {y:2}', 'a {x\r:1}',
    # (wave 5) other things than one space between a name and its brace: outside the statement ("one space between
    # name and brace"); what the patterns of the source make of them is regenerated (…AnySpace) and mirrored
    'a\t{x:1}', 'a \n {x:1}', 'ab{x:1} cd  {y:2}', 'structure{type:p;}', 'structure  {type:p;}', 'mystructure{type:p;}',
    'readingOrder\t{index:1;}', 'readingOrder{index:1;} structure {type:p;}', 'textStyle{a:b;}', 'textStyle  {a:b;} textStyle {c:d}',
    'atextStyle{a:b}', 'a\x1f{x:1}', 'a {x:1} {y:2}', 'a { {x:1}',
]


def mutate_string(rng, s: str) -> str:
    ops = rng.randint(1, 3)
    for _ in range(ops):
        r = rng.random()
        i = rng.randint(0, len(s))
        if r < 0.35 and s:
            i = rng.randrange(len(s))
            s = s[:i] + s[i + 1:]
        elif r < 0.75:
            s = s[:i] + rng.choice('{}:;; \n\ta1 {') + s[i:]
        elif s:
            i = rng.randrange(len(s))
            s = s[:i] + rng.choice('{}:; x') + s[i + 1:]
    return s


TEXTS = ['abcdefghij', 'a', 'Jan de Vries te Amsterdam', 'één twee', 'x y', '0123456789abcdef', 'ab']


def rand_doc(rng, valid: bool = True) -> Dict[str, Any]:
    requested = rng.choice([None, [], ['person'], ['person', 'place'], ['a', 'ab'], ['unclear', 'textStyle'],
                            ['person', 'myperson']])
    req = requested or []
    ids = itertools.count(1)

    def cust(p, **kw):
        if rng.random() > p:
            return None
        c = rand_custom(rng, True, **kw)
        if not valid and rng.random() < 0.5:
            return {'raw': mutate_string(rng, render(c)) if rng.random() < 0.6 else rng.choice([m for m in MALFORMED if xml_ok(m)])}
        return c

    def line(in_cell=False):
        text = rng.choice(TEXTS) if rng.random() < 0.9 or req else None
        if not valid and rng.random() < 0.15:
            text = None
        if in_cell and text is None:
            text = 'ab'    # a cell line without text makes PageXMLTableCell raise TypeError (not C11's business)
        l = {'id': f'l{next(ids)}', 'text': text,
             'custom': cust(0.85, requested=req if text is not None or not valid else [], span=len(text or ''))}
        if text is None and l['custom'] is not None and 'laid' in l['custom'] and valid:
            # a line without text cannot carry requested tags (their value would be undefined)
            l['custom']['laid'] = [t for t in l['custom']['laid'] if t['name'] not in req]
        l['words'] = [{'id': f'w{next(ids)}', 'text': 'ab', 'custom': cust(0.5, n_tags=rng.choice([0, 1, 2]))}
                      for _ in range(rng.choice([0, 0, 1, 2]))]
        return l

    doc = {'custom_tags': requested, 'literal_ws': rng.random() < 0.8, 'regions': [], 'tables': []}
    for _ in range(rng.choice([1, 1, 2, 3])):
        doc['regions'].append({'id': f'r{next(ids)}', 'custom': cust(0.8), 'lines': [line() for _ in range(rng.choice([1, 1, 2, 3]))]})
    for _ in range(rng.choice([0, 0, 1])):
        doc['tables'].append({'id': f't{next(ids)}', 'custom': cust(0.8),
                              'cells': [{'id': f'c{next(ids)}', 'custom': cust(0.6), 'lines': [line(True) for _ in range(rng.choice([0, 1]))]}
                                        for _ in range(rng.choice([1, 2, 3]))]})
    if valid and not all(in_reading(s['custom'], doc['literal_ws']) for _, s in doc_elements(doc) if s.get('custom')):
        doc['literal_ws'] = True   # a newline inside the braces is outside the statement (DESIGN §9)
    return doc


def doc_of_custom(c, kind='region', requested=None, text='abcdefghij') -> Dict[str, Any]:
    """a minimal document carrying one custom attribute on an element of the given kind"""
    line = {'id': 'l1', 'text': text, 'custom': c if kind == 'line' else None,
            'words': [{'id': 'w1', 'text': 'ab', 'custom': c}] if kind == 'word' else []}
    doc = {'custom_tags': requested, 'literal_ws': True,
           'regions': [{'id': 'r1', 'custom': c if kind == 'region' else None, 'lines': [line]}], 'tables': []}
    if kind in ('table', 'cell'):
        doc['tables'] = [{'id': 't1', 'custom': c if kind == 'table' else None,
                          'cells': [{'id': 'c1', 'custom': c if kind == 'cell' else None, 'lines': []}]}]
    return doc


def exhaustive_layouts(two_tags: bool):
    """all whitespace placements the statement allows, over a tiny alphabet"""
    ws = ['', ' ']

    def attr_layouts(full: bool):
        if full:
            return list(itertools.product(ws, repeat=4))
        return [('', '', '', ''), (' ', ' ', ' ', ' '), (' ', '', '', ''), ('', ' ', '', ''), ('', '', ' ', ''),
                ('', '', '', ' ')]

    def tag_variants(name, keys, vals, full: bool):
        for sep in ws:
            for trailing in (True, False):
                for close in ws:
                    yield mk_tag(name, [], sep, trailing, close)
                    for l1 in attr_layouts(full):
                        yield mk_tag(name, [mk_attr(keys[0], vals[0], *l1)], sep, trailing, close)
                    two = list(itertools.product(attr_layouts(full), repeat=2)) if full else \
                        [(a, b) for a in attr_layouts(False)[:2] for b in attr_layouts(False)[:2]]
                    for l1, l2 in two:
                        yield mk_tag(name, [mk_attr(keys[0], vals[0], *l1), mk_attr(keys[1], vals[1], *l2)], sep,
                                     trailing, close)
    if not two_tags:
        for t in tag_variants('ab', ('k', 'offset'), ('v w', '12'), True):
            for tail in ws:
                yield {'laid': [t], 'tail': tail}
    else:
        for n1, n2 in (('a', 'ab'), ('ab', 'b'), ('b', 'b')):
            firsts = list(tag_variants(n1, ('k', 'index'), ('v', '3'), False))
            seconds = list(tag_variants(n2, ('length', 'k'), ('0', 'a.b'), False))
            for t1 in firsts:
                if t1['sep'] == ' ' and t1['close'] == ' ':
                    continue
                for t2 in seconds:
                    yield {'laid': [t1, t2], 'tail': ''}


# ------------------------------------------------------------------------------------------
# the check
# ------------------------------------------------------------------------------------------

class C11(Check):
    pid = 'C11'
    props_module = 'PagexmlModel.Props.C11'
    anchors = {
        'pagexml/parser.py': ['parse_custom_attributes', 'parse_custom_attribute_parts', 'parse_custom_metadata',
                              'parse_custom_metadata_element', 'parse_custom_metadata_element_list',
                              'parse_textregion', 'parse_tableregion'],
        'pagexml/model/xml.py': ['make_custom_string'],
        'pagexml/helper/pagexml_helper.py': ['get_custom_tags'],
    }
    level_note = (
        'proved for every CharClass satisfying the laws the harness checks on CPython, for tag lists, attribute lists '
        'and whitespace runs of any length: C11_parse_complete (every layout the statement allows; keys distinct and '
        'not the reserved tag_name, DESIGN §9; C11_parse_complete_any_keys drops that reading), '
        'C11_reserialise_stable (for EVERY input string, not only grammar strings), C11_tag_value (Python slice '
        'clipping for offset, length >= 0), C11_structure_type_added, C11_malformed_rejected. '
        'C11_dedicated_fields_partial is PARTIAL: it carries the hypothesis that the guards of '
        'parse_custom_metadata only fire when a tag of exactly that name exists; with the substring guards of the '
        'pinned tree the excluded class (a tag name ending with structure / readingOrder) is the known finding '
        'C11:document-rejected:name-ends-with-dedicated, proved to fail in C11_dedicated_fields_counterexample; '
        'C11_dedicated_fields_of_boundary_guards is the full-strength statement for a source whose guards are '
        'word-boundary searches (the guard style is regenerated from the source on every run). Wave 5: what each '
        'of the six patterns writes between the tag name and the opening brace — one space, or \\s* — is regenerated '
        'too (…AnySpace in Generated/C11.lean, gapBrace in the model); all theorems are proved for either value of '
        'each of the six (a string of the statement writes exactly one space and no other brace; both forms accept '
        'it); any other text in that place is an unknown shape (broken translator). Not proved, only sampled: that CPython re implements '
        'the pattern as the hand-compiled scanner; the document-level walk of get_custom_tags (its per-tag row is '
        'proved); XML attribute-value normalisation; int() on non-ASCII digits is outside the model. '
        'Correspondence level: inputs outside the quantifier (decided per case from its input: text that is not a '
        'sequence of tags name {key:value; ...}, a part with a second colon / a brace / no colon, a non-integer '
        'offset/length/index, requested tags without or with negative offset/length or on a line without text) carry '
        'core.OUTSIDE and are mirrored only, not judged; inside it entries, typed values, order, dedicated fields, '
        'types and tag values are compared exactly, except: the text of make_custom_string up to its whitespace / '
        'semicolon layout (same tags after re-reading), a dedicated field without its tag up to truthiness (missing / '
        'None / {} / []), the type list of a region or table as a set, get_custom_tags rows on the six stated keys. '
        'Histories (wave 4): every case is evaluated twice in one process with other custom strings / documents (same '
        'tag names, attribute bodies, element ids, other requested tags) parsed in between — the second answer must '
        'repeat the first; the parsed entries are re-read after make_custom_string / re-parsing and serialised a second '
        'time, the scan\'s elements are re-read after get_custom_tags and get_custom_tags is asked twice')
    assumptions = [
        'CPython re implements \\b(\\w+) {(.*?)} / \\b(\\w+)\\s*{(.*?)} as the hand-compiled scanner (finditer: leftmost '
        'match, continue after it; \\s = str.isspace per character); sampled by the correspondence on adversarial '
        'strings, among them names followed by no, two, a tab, a newline, a no-break space before the brace',
        'the character-class laws used by the theorems (space, braces, colon, semicolon, minus are not word '
        'characters; colon, semicolon, braces, minus, digits are not whitespace; space is whitespace) are checked '
        'against the running CPython on every run',
        'int() on non-ASCII digits is outside the model (not generated)',
        'xmltodict / expat deliver the custom attribute after XML attribute-value normalisation',
    ]
    nontrivial_rule = ('distinct inputs; non-trivial = a custom string with at least one tag carrying an attribute, '
                       'or a malformed string longer than 3 characters, or a document with at least one custom attribute')

    # ---------------------------------------------------------------- translate
    def translate(self) -> Dict[str, str]:
        path = os.path.join(core.REPO, 'pagexml', 'parser.py')
        from harness.astnorm import normalise     # a pattern compiled once at module level reads as re.<fn>(pattern, …)
        tree = normalise(ast.parse(open(path, encoding='utf-8').read()))
        funcs = {n.name: n for n in ast.walk(tree) if isinstance(n, ast.FunctionDef)}
        parts = funcs['parse_custom_attribute_parts']
        int_keys = None
        for node in ast.walk(parts):
            if isinstance(node, ast.If) and isinstance(node.test, ast.Compare) and len(node.test.ops) == 1 and \
                    isinstance(node.test.ops[0], ast.In) and isinstance(node.test.comparators[0], (ast.Tuple, ast.List, ast.Set)):
                elts = node.test.comparators[0].elts
                to_int = any(isinstance(c, ast.Call) and isinstance(c.func, ast.Name) and c.func.id == 'int'
                             for b in node.body for c in ast.walk(b))
                if to_int and all(isinstance(e, ast.Constant) and isinstance(e.value, str) for e in elts):
                    if int_keys is not None:
                        raise ValueError('two integer-key tests in parse_custom_attribute_parts')
                    int_keys = [e.value for e in elts]
        if int_keys is None:
            raise ValueError('integer-typed key tuple of parse_custom_attribute_parts not recognised')
        md = funcs['parse_custom_metadata']
        tags = {}
        for node in ast.walk(md):
            if isinstance(node, ast.Assign) and len(node.targets) == 1 and isinstance(node.targets[0], ast.Subscript) and \
                    isinstance(node.targets[0].slice, ast.Constant) and isinstance(node.value, ast.Call) and \
                    isinstance(node.value.func, ast.Name) and node.value.func.id.startswith('parse_custom_metadata_element'):
                args = node.value.args
                if len(args) == 2 and isinstance(args[1], ast.Constant) and isinstance(args[1].value, str):
                    tags[node.targets[0].slice.value] = (node.value.func.id, args[1].value)
        want = {'reading_order': 'parse_custom_metadata_element', 'structure': 'parse_custom_metadata_element',
                'text_style': 'parse_custom_metadata_element_list'}
        for k, f in want.items():
            if k not in tags or tags[k][0] != f:
                raise ValueError(f'dedicated field {k} of parse_custom_metadata not recognised')

        # GAP: what a pattern writes between the tag name and the opening brace.  Two forms are known to the model
        # (`gapBrace` in Model/C11.lean): one literal space, and `\s*` (any number of white-space characters, none
        # included).  Every pattern carries its own (`…AnySpace` in Generated/C11.lean: False = one space, True = \s*);
        # the theorems are proved for either value of each (a string of the statement writes exactly one space, which
        # both forms accept, and no brace elsewhere).  Any other text in that place is a shape the translator does
        # not know.
        GAPS = {' ': False, '\\s*': True}

        def gap_of(text: str, before: str, after: str, what: str) -> bool:
            """`text` == before + GAP + after"""
            if text.startswith(before) and text.endswith(after) and len(text) >= len(before) + len(after):
                g = text[len(before):len(text) - len(after)]
                if g in GAPS:
                    return GAPS[g]
            raise ValueError(f'pattern of {what} not recognised: {text!r}')

        def flat(node) -> List[Any]:
            """the operands of a string concatenation a + b + c: str for a literal, the ast node otherwise"""
            if isinstance(node, ast.BinOp) and isinstance(node.op, ast.Add):
                return flat(node.left) + flat(node.right)
            if isinstance(node, ast.Constant) and isinstance(node.value, str):
                return [node.value]
            return [node]

        def re_calls(fn, attr: str) -> List[ast.Call]:
            return [n for n in ast.walk(fn) if isinstance(n, ast.Call) and isinstance(n.func, ast.Attribute) and
                    n.func.attr == attr and isinstance(n.func.value, ast.Name) and n.func.value.id == 're']

        def only_pattern(fname: str, attr: str) -> List[Any]:
            calls = re_calls(funcs[fname], attr)
            others = [n for a in ('search', 'finditer', 'findall', 'match', 'fullmatch', 'sub', 'split')
                      for n in re_calls(funcs[fname], a) if a != attr]
            if len(calls) != 1 or others or len(calls[0].args) != 2 or not isinstance(calls[0].args[1], ast.Name):
                raise ValueError(f'the one re.{attr}(pattern, <string>) of {fname} not recognised')
            return flat(calls[0].args[0])

        def is_name(x, name: str) -> bool:
            return isinstance(x, ast.Name) and x.id == name

        gaps = {}
        # parse_custom_attributes: re.finditer(r'\b(\w+)GAP{(.*?)}', custom_string)
        parts_ = only_pattern('parse_custom_attributes', 'finditer')
        if len(parts_) != 1 or not isinstance(parts_[0], str):
            raise ValueError('pattern of parse_custom_attributes not recognised')
        gaps['attributes'] = gap_of(parts_[0], '\\b(\\w+)', '{(.*?)}', 'parse_custom_attributes')
        # parse_custom_metadata_element: re.search(r'\b' + custom_field + r'GAP{(.*?)}', custom_string)
        fn = funcs['parse_custom_metadata_element']
        field_arg = fn.args.args[1].arg if len(fn.args.args) == 2 else None
        parts_ = only_pattern('parse_custom_metadata_element', 'search')
        if len(parts_) != 3 or parts_[0] != '\\b' or not is_name(parts_[1], field_arg) or not isinstance(parts_[2], str):
            raise ValueError('pattern of parse_custom_metadata_element not recognised')
        gaps['element'] = gap_of(parts_[2], '', '{(.*?)}', 'parse_custom_metadata_element')
        # parse_custom_metadata_element_list: re.finditer(r'\b(' + custom_field + r')GAP{(.*?)}', custom_string)
        fn = funcs['parse_custom_metadata_element_list']
        field_arg = fn.args.args[1].arg if len(fn.args.args) == 2 else None
        parts_ = only_pattern('parse_custom_metadata_element_list', 'finditer')
        if len(parts_) != 3 or parts_[0] != '\\b(' or not is_name(parts_[1], field_arg) or not isinstance(parts_[2], str):
            raise ValueError('pattern of parse_custom_metadata_element_list not recognised')
        gaps['element_list'] = gap_of(parts_[2], ')', '{(.*?)}', 'parse_custom_metadata_element_list')

        # the style of the guard in front of each dedicated field: "'<tag>GAP{' somewhere in custom" (written as the
        # substring test `'<tag> {' in custom` or as `re.search(r'<tag>GAP{', custom)`), or
        # "re.search(r'\\b<tag>GAP{.*?}', custom)" (the same pattern the element parsers use)
        styles = {}
        guard_gaps = {}
        for node in ast.walk(md):
            if not isinstance(node, ast.If):
                continue
            keys = [t.slice.value for b in node.body if isinstance(b, ast.Assign) for t in b.targets
                    if isinstance(t, ast.Subscript) and isinstance(t.slice, ast.Constant)]
            for k in keys:
                if k not in want:
                    continue
                tag = tags[k][1]
                t = node.test
                what = f'the guard of the dedicated field {k} in parse_custom_metadata'
                if isinstance(t, ast.Compare) and len(t.ops) == 1 and isinstance(t.ops[0], ast.In) and \
                        isinstance(t.left, ast.Constant) and t.left.value == tag + ' {':
                    styles[k], guard_gaps[k] = False, False
                elif isinstance(t, ast.Call) and isinstance(t.func, ast.Attribute) and t.func.attr == 'search' and \
                        isinstance(t.func.value, ast.Name) and t.func.value.id == 're' and len(t.args) == 2 and \
                        isinstance(t.args[0], ast.Constant) and isinstance(t.args[0].value, str) and \
                        re.fullmatch(r'\w+', tag):
                    pat = t.args[0].value
                    if pat.startswith('\\b'):
                        styles[k] = True
                        guard_gaps[k] = gap_of(pat, '\\b' + tag, '{(.*?)}' if pat.endswith('{(.*?)}') else '{.*?}', what)
                    else:
                        styles[k] = False
                        guard_gaps[k] = gap_of(pat, tag, '{', what)
                else:
                    raise ValueError(f'{what} not recognised')
        for k in want:
            if k not in styles:
                raise ValueError(f'no guard found for the dedicated field {k} in parse_custom_metadata')

        def lean_bool(b):
            return 'true' if b else 'false'

        def chars(s):
            return '[' + ', '.join("'" + ("\\'" if ch == "'" else '\\\\' if ch == '\\' else ch) + "'" for ch in s) + ']'
        content = f'''/-
GENERATED by harness/props/c11.py (Check.translate) from pagexml/parser.py — do not edit.
The keys whose values `parse_custom_attribute_parts` converts with `int()`, the tag names
`parse_custom_metadata` looks for, and the style of the guard in front of each of them:
`false` = plain test `'<name> {{' in custom`, `true` = `re.search(r'\\b<name> {{.*?}}', custom)`; and what each
pattern writes between the tag name and the opening brace (`…AnySpace`): `false` = one space, `true` = `\\s*`.
-/
namespace Pagexml.C11.Gen

def intKeys : List (List Char) := [{', '.join(chars(k) for k in int_keys)}]

def readingOrderTag : List Char := {chars(tags['reading_order'][1])}

def structureTag : List Char := {chars(tags['structure'][1])}

def textStyleTag : List Char := {chars(tags['text_style'][1])}

def readingOrderGuardRegex : Bool := {lean_bool(styles['reading_order'])}

def structureGuardRegex : Bool := {lean_bool(styles['structure'])}

def textStyleGuardRegex : Bool := {lean_bool(styles['text_style'])}

def attributesAnySpace : Bool := {lean_bool(gaps['attributes'])}

def elementAnySpace : Bool := {lean_bool(gaps['element'])}

def elementListAnySpace : Bool := {lean_bool(gaps['element_list'])}

def readingOrderGuardAnySpace : Bool := {lean_bool(guard_gaps['reading_order'])}

def structureGuardAnySpace : Bool := {lean_bool(guard_gaps['structure'])}

def textStyleGuardAnySpace : Bool := {lean_bool(guard_gaps['text_style'])}

end Pagexml.C11.Gen
'''
        return {'PagexmlModel/Generated/C11.lean': content}

    # ---------------------------------------------------------------- generation
    def cases(self, rng: random.Random, tier: str) -> Iterable[Case]:
        check_laws()
        out: List[Case] = []
        quick = tier == 'quick'
        # corpus -----------------------------------------------------------------------
        for s in MALFORMED:
            out.append(Case('raw', {'s': s}, ['corpus']))
        corpus_grammar = [
            {'laid': [mk_tag('a', [mk_attr('x', '1')])], 'tail': ''},
            {'laid': [mk_tag('a', [mk_attr('x', '1')]), mk_tag('b', [mk_attr('y', '2')], trailing=False)], 'tail': ''},
            {'laid': [mk_tag('ab', [mk_attr('k', 'v')]), mk_tag('b', [mk_attr('k', 'w')])], 'tail': ''},
            {'laid': [mk_tag('b', []), mk_tag('b', [], sep=' ', close=' '), mk_tag('b', [mk_attr('k', 'v w', ' ', ' ', ' ', ' ')], trailing=False)], 'tail': ' '},
            {'laid': [mk_tag('readingOrder', [mk_attr('index', '2')]), mk_tag('structure', [mk_attr('type', 'paragraph')], sep=' ')], 'tail': ''},
            {'laid': [mk_tag('textStyle', [mk_attr('offset', '0'), mk_attr('length', '5', ' '), mk_attr('fontFamily', 'Times New-Roman 1.5', ' ')]),
                      mk_tag('textStyle', [mk_attr('bold', 'true')], sep=' ')], 'tail': ''},
            {'laid': [mk_tag('mystructure', [mk_attr('type', 'p')])], 'tail': ''},
            {'laid': [mk_tag('xreadingOrder', [mk_attr('index', '1')]), mk_tag('readingOrder', [mk_attr('index', '2')])], 'tail': ''},
            {'laid': [mk_tag('a', [mk_attr('tag_name', 'q'), mk_attr('x', '1', ' ')])], 'tail': ''},
            {'laid': [mk_tag('a', [mk_attr('x', '1'), mk_attr('x', '2', ' ')])], 'tail': ''},
            {'laid': [mk_tag('person', [mk_attr('type', 'sailor'), mk_attr('offset', '2', ' '), mk_attr('length', '3', ' ')])], 'tail': ''},
        ]
        for c in corpus_grammar:
            out.append(Case('grammar', c, ['corpus']))
            for kind in ('region', 'line', 'word', 'table', 'cell'):
                out.append(Case('xml', doc_of_custom(c, kind, requested=['person', 'a']), ['corpus', kind]))
        for s in MALFORMED:
            if xml_ok(s):
                out.append(Case('xml', doc_of_custom({'raw': s}, 'line', requested=['a', 'structure']), ['corpus', 'malformed']))
        for off, ln in [(0, 0), (0, 3), (2, 3), (9, 1), (9, 5), (10, 2), (12, 3), (0, 100), (-3, 2), (-3, 3), (2, -1), (-20, 5)]:
            c = {'laid': [mk_tag('person', [mk_attr('offset', str(off)), mk_attr('length', str(ln), ' ')])], 'tail': ''}
            out.append(Case('xml', doc_of_custom(c, 'line', requested=['person']), ['corpus', 'slice']))
        for c in ({'laid': [mk_tag('person', [mk_attr('offset', '1')])], 'tail': ''},
                  {'laid': [mk_tag('person', [mk_attr('length', '1')])], 'tail': ''},
                  {'laid': [mk_tag('person', [])], 'tail': ''}):
            out.append(Case('xml', doc_of_custom(c, 'line', requested=['person']), ['corpus', 'malformed']))
        out.append(Case('xml', doc_of_custom({'laid': [mk_tag('person', [mk_attr('offset', '1'), mk_attr('length', '1', ' ')])], 'tail': ''},
                                             'line', requested=['person'], text=None), ['corpus', 'malformed']))
        # exhaustive layouts -------------------------------------------------------------
        one = list(exhaustive_layouts(False))
        two = list(exhaustive_layouts(True))
        if quick:
            one = rng.sample(one, 700)
            two = rng.sample(two, 900)
        for c in one:
            out.append(Case('grammar', c, ['exhaustive-1']))
        for c in two:
            out.append(Case('grammar', c, ['exhaustive-2']))
        for c in rng.sample(one, 60 if quick else 600) + rng.sample(two, 60 if quick else 1500):
            kind = rng.choice(['region', 'line', 'word', 'table', 'cell'])
            out.append(Case('xml', doc_of_custom(c, kind, requested=rng.choice([None, ['ab'], ['b', 'a']])), ['exhaustive-xml', kind]))
        # random ---------------------------------------------------------------------------
        n = 1500 if quick else 30000
        for _ in range(n):
            out.append(Case('grammar', rand_custom(rng, False), ['random']))
        for _ in range(n // 3):
            c = rand_custom(rng, False)
            s = render(c)
            out.append(Case('raw', {'s': mutate_string(rng, s)}, ['random', 'mutated']))
        for _ in range(n // 10):
            c = rand_custom(rng, False, n_tags=rng.choice([1, 2]))
            t = rng.choice(c['laid'])
            if t['attrs']:
                a = rng.choice(t['attrs'])
                if rng.random() < 0.5:
                    a['key'] = 'tag_name'
                else:
                    t['attrs'].append(dict(a, value=rand_value(rng) if a['key'] not in INT_KEYS else '7', pre=' '))
            out.append(Case('grammar', c, ['random', 'duplicate-or-reserved-key']))
        m = 250 if quick else 4000
        for _ in range(m):
            out.append(Case('xml', rand_doc(rng, True), ['random']))
        for _ in range(m // 3):
            out.append(Case('xml', rand_doc(rng, False), ['random', 'malformed']))
        for _ in range(m // 2):
            kind = rng.choice(['region', 'line', 'word', 'table', 'cell'])
            req = rng.choice([None, ['person'], ['person', 'place', 'a']])
            out.append(Case('xml', doc_of_custom(rand_custom(rng, True, requested=req or [], span=10), kind, requested=req),
                            ['random', kind]))
        for c in out:
            if c.kind == 'grammar':
                c.tags.extend(features(c.input))
            # outside the quantifier of the statement (decided per case from its input, see outside_quantifier):
            # the model still mirrors the code there, a difference is only recorded (core.OUTSIDE), and the
            # oracle does not judge the case
            if outside_quantifier(c.kind, c.input) is not None:
                c.tags.append(core.OUTSIDE)
        return out

    # ---------------------------------------------------------------- implementation
    def impl(self, case: Case) -> Any:
        """the case evaluated, then OTHER strings / documents with the same tag names, attribute bodies and element ids
        parsed in this process (unobserved), then the case evaluated a second time: the second answer must repeat the
        first (module-level or default-argument state must not leak between calls).  Only when it does not, the
        outcome carries a `_hist` entry; the first answer is what the oracle judges and the model is compared with."""
        first = self._impl_once(case)
        try:
            self._interlude(case)
        except Exception:       # noqa — unobserved calls
            pass
        second = self._impl_once(case)
        if core.jdump(core.canon(second)) != core.jdump(core.canon(first)):
            first = dict(first, _hist={'second': second})
        return first

    @staticmethod
    def _interlude(case: Case) -> None:
        from pagexml.parser import parse_custom_attributes, parse_pagexml_file
        from pagexml.helper.pagexml_helper import get_custom_tags
        from pagexml.model.xml import make_custom_string
        fixed = 'readingOrder {index:7;} structure {type:other;} person {offset:1; length:2;} a {offset:0; length:1; b:c;}'
        call(lambda: make_custom_string(parse_custom_attributes(fixed)))
        if case.kind in ('grammar', 'raw'):
            s = render(case.input) if case.kind == 'grammar' else case.input['s']
            call(lambda: make_custom_string(parse_custom_attributes(s + ' ' + fixed)))
            call(lambda: parse_custom_attributes(fixed + ' ' + s))
        else:
            doc = case.input
            other = {'regions': [{'id': 'r1', 'custom': {'raw': 'structure {type:other;} readingOrder {index:3;}'},
                                  'lines': [{'id': 'l1', 'text': 'zyxwvutsrq', 'custom': {'raw': fixed},
                                             'words': [{'id': 'w1', 'text': 'zy', 'custom': {'raw': fixed}}]}]}],
                     'tables': [{'id': 't1', 'custom': {'raw': 'structure {type:other;}'},
                                 'cells': [{'id': 'c1', 'custom': None, 'lines': []}]}]}
            tags = sorted(set((doc.get('custom_tags') or []) + ['person', 'a', 'ab', 'b']))
            call(lambda: get_custom_tags(parse_pagexml_file('c11.xml', pagexml_data=build_xml(other), custom_tags=tags)))
            call(lambda: get_custom_tags(parse_pagexml_file('c11.xml', pagexml_data=build_xml(doc), custom_tags=tags)))
            call(lambda: parse_pagexml_file('c11.xml', pagexml_data=build_xml(doc)))

    def _impl_once(self, case: Case) -> Any:
        if case.kind in ('grammar', 'raw'):
            from pagexml.parser import parse_custom_attributes
            from pagexml.model.xml import make_custom_string
            s = render(case.input) if case.kind == 'grammar' else case.input['s']

            def f():
                es = parse_custom_attributes(s)
                view = [canon_entry(e) for e in es]
                made = call(lambda: make_custom_string(es))
                again = call(lambda: [canon_entry(e) for e in parse_custom_attributes(made['ok'])]) if 'ok' in made else None
                out = {'entries': view, 'made': made, 'again': again}
                # the parsed entries are USED objects now (serialised, their text parsed again): they must not have
                # changed, serialising them a second time must give the same text
                if [canon_entry(e) for e in es] != view:
                    out['entries_after_use'] = [canon_entry(e) for e in es]
                made2 = call(lambda: make_custom_string(es))
                if made2 != made:
                    out['made_again'] = made2
                return out
            return call(f)
        if case.kind == 'xml':
            from pagexml.parser import parse_pagexml_file
            from pagexml.helper.pagexml_helper import get_custom_tags
            doc = case.input
            xml = build_xml(doc)

            def g():
                scan = parse_pagexml_file('c11.xml', pagexml_data=xml, custom_tags=doc.get('custom_tags'))
                els = []
                for kind, el in real_elements(scan):
                    md = el.metadata or {}
                    els.append({'kind': kind, 'id': str(el.id), 'text': getattr(el, 'text', None),
                                'md': canon_metadata(md, kind == 'line'),
                                'custom': [canon_entry(e) for e in el.custom] if isinstance(el.custom, list) else None,
                                'types': type_list(el.type)})
                rows = call(lambda: [{k: canon_val(v) for k, v in r.items()} for r in get_custom_tags(scan)])
                out = {'elements': els, 'rows': rows}
                # the scan is a USED object now: its elements read again, get_custom_tags asked again
                els2 = [{'kind': kind, 'id': str(el.id), 'text': getattr(el, 'text', None),
                         'md': canon_metadata(el.metadata or {}, kind == 'line'),
                         'custom': [canon_entry(e) for e in el.custom] if isinstance(el.custom, list) else None,
                         'types': type_list(el.type)} for kind, el in real_elements(scan)]
                if els2 != els:
                    out['elements_after_use'] = els2
                rows2 = call(lambda: [{k: canon_val(v) for k, v in r.items()} for r in get_custom_tags(scan)])
                if rows2 != rows:
                    out['rows_again'] = rows2
                return out
            return call(g)
        raise ValueError(case.kind)

    # ---------------------------------------------------------------- model
    def requests(self, case: Case):
        if case.kind in ('grammar', 'raw'):
            s = render(case.input) if case.kind == 'grammar' else case.input['s']
            reqs = []
            if case.kind == 'grammar':   # the model's renderCustom against the generator's rendering
                reqs.append({'p': 'C11', 'op': 'custom_render',
                             'args': {'laid': case.input['laid'], 'tail': case.input.get('tail', '')}})
            reqs.append({'p': 'C11', 'op': 'custom_parse', 'args': {'s': s, 'cc': cc_table(s)}})
            real = self.impl(case)
            if 'ok' in real and 'ok' in real['ok']['made'] and all('attrs' in e for e in real['ok']['entries']):
                made = real['ok']['made']['ok']
                reqs.append({'p': 'C11', 'op': 'custom_make', 'args': {'entries': real['ok']['entries']}})
                reqs.append({'p': 'C11', 'op': 'custom_parse', 'args': {'s': made, 'cc': cc_table(made)}})
            return reqs
        if case.kind == 'xml':
            doc = case.input
            lw = doc.get('literal_ws', True)
            tags = doc.get('custom_tags') or []
            reqs = []
            bt = base_types()
            for kind, spec in doc_elements(doc):
                if spec.get('custom') is not None:
                    s = normalised(render(spec['custom']), lw)
                    reqs.append({'p': 'C11', 'op': 'custom_metadata',
                                 'args': {'s': s, 'cc': cc_table(s), 'custom_tags': tags if kind == 'line' else [],
                                          'base_types': bt[kind]}})
            regions = []
            allc = []
            for r in doc.get('regions', []):
                ls = []
                for l in r.get('lines', []):
                    s = None if l.get('custom') is None else normalised(render(l['custom']), lw)
                    allc.append(s)
                    ls.append({'id': l['id'], 'text': l.get('text'), 'custom': s})
                regions.append({'id': r['id'], 'lines': ls})
            reqs.append({'p': 'C11', 'op': 'custom_tags_doc',
                         'args': {'cc': cc_table(*allc), 'custom_tags': tags, 'regions': regions}})
            return reqs
        return []

    def compare(self, case, impl_out, model_out):
        if case.kind in ('grammar', 'raw'):
            if case.kind == 'grammar':
                if model_out[0] != {'ok': render(case.input)}:
                    return f'renderCustom: harness={render(case.input)!r} model={model_out[0]}'
                model_out = model_out[1:]
            m = model_out[0]
            if 'err' in impl_out or 'err' in m:
                return None if impl_out == m else f'parse: impl={core.short(impl_out)} model={core.short(m)}'
            ie = [sort_entry(e) for e in impl_out['ok']['entries']]
            me = [sort_entry(e) for e in m['ok']]
            if ie != me:
                return f'parse: impl={core.short(ie)} model={core.short(me)}'
            if len(model_out) == 3:
                if not same_serialisation(model_out[1], impl_out['ok']['made']):
                    return f'make_custom_string: impl={impl_out["ok"]["made"]} model={model_out[1]}'
                again = impl_out['ok']['again']
                if 'ok' in again and 'ok' in model_out[2]:
                    if [sort_entry(e) for e in again['ok']] != [sort_entry(e) for e in model_out[2]['ok']]:
                        return f'reparse: impl={core.short(again)} model={core.short(model_out[2])}'
                elif again != model_out[2]:
                    return f'reparse: impl={core.short(again)} model={core.short(model_out[2])}'
            return None
        if case.kind == 'xml':
            doc = case.input
            el_answers, rows_answer = model_out[:-1], model_out[-1]
            model_errs = [a['err'] for a in el_answers if 'err' in a]
            if 'err' in impl_out:
                if model_errs and model_errs[0] == impl_out['err']:
                    return None
                return f'document rejected with {impl_out["err"]}, model element errors {model_errs}'
            if model_errs:
                return f'document accepted, model element errors {model_errs}'
            specs = [(k, s) for k, s in doc_elements(doc)]
            els = impl_out['ok']['elements']
            if [k for k, _ in specs] != [e['kind'] for e in els]:
                return f'element walk differs: {[k for k, _ in specs]} vs {[e["kind"] for e in els]}'
            i = 0
            for (kind, spec), el in zip(specs, els):
                if spec.get('custom') is None:
                    continue
                a = el_answers[i]['ok']
                i += 1
                md = el['md']
                want = {
                    'custom_attributes': [sort_entry(e) for e in a['custom_attributes']],
                    'reading_order': None if a['reading_order'] is None else sorted(a['reading_order']),
                    'structure': None if a['structure'] is None else sorted(a['structure']),
                    'type': None if kind == 'line' else a['type'],
                    'text_style': None if a['text_style'] is None else [sorted(d) for d in a['text_style']],
                    'custom_tags': None if a['custom_tags'] is None else [sorted(d) for d in a['custom_tags']],
                }
                got = dict(md, custom_attributes=None if md['custom_attributes'] is None else
                           [sort_entry(e) for e in md['custom_attributes']])
                # "reading-order, structure and text-style tags and any requested custom tag names are also exposed
                # in their dedicated metadata fields": what a field holds when there is NO such tag (missing key,
                # None, {} or []) is not stated — compared up to truthiness
                for f in ('reading_order', 'structure', 'text_style', 'custom_tags'):
                    got[f], want[f] = got[f] or None, want[f] or None
                if got != want:
                    return f'{kind} {el["id"]} metadata: impl={core.short(got)} model={core.short(want)}'
                # "a region's or table's structure type becomes ONE OF its types": membership, so the type list is
                # compared as a set (its order is not C11's business)
                if kind in ('region', 'table') and sorted(set(el['types'])) != sorted(set(a['types'])):
                    return f'{kind} {el["id"]} types: impl={el["types"]} model={a["types"]}'
            if stated_rows(impl_out['ok']['rows']) != stated_rows(rows_answer):
                return f'get_custom_tags: impl={core.short(impl_out["ok"]["rows"])} model={core.short(rows_answer)}'
            return None
        return None

    # ---------------------------------------------------------------- oracle
    def _judge_entries(self, c, entries, bad, where=''):
        """the first sentence of the statement on a grammar string"""
        exp = expected_entries(c)
        fs = features(c)
        cls = fs[0]
        if 'duplicate-or-reserved-key' in fs:
            # keys are distinct within a tag and differ from the reserved 'tag_name' (DESIGN §9: the result
            # is a dict): count and names are still demanded
            if [e.get('tag_name') for e in entries] != [e['tag_name'] for e in exp]:
                bad(f'tags:{cls}', f'{where} tag names {[e.get("tag_name") for e in entries]}, expected {[e["tag_name"] for e in exp]}')
            return
        if len(entries) != len(exp):
            bad(f'tag-count:{cls}', f'{where} {len(entries)} entries for {len(exp)} tags')
            return
        for e, x in zip(entries, exp):
            if 'attrs' not in e:
                bad(f'entry-shape', f'{where} entry {e} has no tag name')
                return
            d = entry_as_dict(e)
            if d['tag_name'] != x['tag_name']:
                bad(f'tag-name:{cls}', f'{where} tag name {d["tag_name"]!r}, expected {x["tag_name"]!r}')
            elif d['attrs'] != x['attrs'] or any(type(d['attrs'][k]) is not type(v) for k, v in x['attrs'].items()):
                bad(f'pairs:{cls}', f'{where} tag {x["tag_name"]}: pairs {d["attrs"]}, expected {x["attrs"]}')

    def oracle(self, case: Case, out: Any) -> List[Finding]:
        fs: List[Finding] = []

        def bad(key, what):
            fs.append(Finding(f'C11:{key}', what, case, out))
        # cases outside the quantifier are not judged: the statement says nothing about them.  Decided from the
        # case input (not from its tags), so that shrunk candidates are classified by what they are.
        if outside_quantifier(case.kind, case.input) is not None:
            return fs
        # histories: the same question asked again after other strings / documents went through the parser, and the
        # parsed objects read again after they were used
        if '_hist' in out:
            sec = out['_hist']['second']
            bad(f'not-repeatable:{case.kind}', f'evaluated a second time in the same process (after other custom strings '
                                               f'/ documents were parsed) the answer is {core.short(sec, 400)}, the first '
                                               f'time {core.short({k: v for k, v in out.items() if k != "_hist"}, 400)}')
        if 'ok' in out:
            for k, what in (('entries_after_use', 'the parsed entries changed by serialising them / parsing their text again'),
                            ('made_again', 'make_custom_string on the same entries a second time gives another text'),
                            ('elements_after_use', 'the parsed elements (metadata, custom, types) changed by get_custom_tags'),
                            ('rows_again', 'get_custom_tags on the same scan a second time gives other rows')):
                if k in out['ok']:
                    bad(f'used-object:{k}', f'{what}: {core.short(out["ok"][k], 400)}')
        if case.kind in ('grammar', 'raw'):
            # a raw string that gets here IS a custom string of the statement: judged like a generated one
            c = case.input if case.kind == 'grammar' else raw_as_grammar(case.input['s'])
            if 'err' in out:
                bad(f'grammar-rejected:{features(c)[0]}', f'grammar string rejected with {out["err"]}')
                return fs
            o = out['ok']
            self._judge_entries(c, o['entries'], bad)
            # serialising the parsed entries and parsing again yields the same entries
            if 'err' in o['made']:
                bad('serialise-raises', f'make_custom_string raised {o["made"]["err"]} on parsed entries')
            elif 'err' in o['again']:
                bad('reparse-raises', f'the serialised entries {o["made"]["ok"]!r} do not parse: {o["again"]["err"]}')
            elif [entry_as_dict(e) if 'attrs' in e else e for e in o['again']['ok']] != \
                    [entry_as_dict(e) if 'attrs' in e else e for e in o['entries']]:
                bad('reserialise-differs', f'parse(serialise(entries)) = {core.short(o["again"]["ok"])} differs from {core.short(o["entries"])}')
            return fs
        if case.kind == 'xml':
            doc = case.input
            specs = list(doc_elements(doc))
            lw = doc.get('literal_ws', True)
            # (every custom attribute of a case that gets here is a custom string of the statement; the ones given
            #  as raw text are judged through their grammar form)
            specs = [(k, dict(s, custom=seen_custom(s.get('custom'), lw))) for k, s in specs]
            all_grammar = all(s.get('custom') is None or in_reading(s['custom'], lw) for _, s in specs)
            req = doc.get('custom_tags') or []
            if 'err' in out:
                if all_grammar:
                    feats = [f for _, s in specs if s.get('custom') for f in features(s['custom'])]
                    cls = 'name-ends-with-dedicated' if any(guard_defect(s.get('custom')) for _, s in specs) else (feats or ['plain'])[0]
                    bad(f'document-rejected:{cls}', f'a document whose custom attributes all follow the grammar is rejected with {out["err"]}')
                return fs
            els = out['ok']['elements']
            if [k for k, _ in specs] != [e['kind'] for e in els]:
                return fs   # the walk itself is C01's business
            lines_by_id = {}
            for (kind, spec), el in zip(specs, els):
                c = spec.get('custom')
                if kind == 'line':
                    lines_by_id[el['id']] = (spec, el)
                if c is None:
                    continue
                md = el['md']
                ents = md['custom_attributes']
                if ents is None:
                    bad(f'no-custom-attributes:{kind}', f'{kind} with a custom attribute has no custom_attributes')
                    continue
                if in_reading(c, lw):
                    self._judge_entries(c, ents, bad, where=f'@{kind}')
                if el['custom'] != ents:
                    bad(f'custom-property:{kind}', f'.custom is {core.short(el["custom"])}, custom_attributes {core.short(ents)}')
                if any('attrs' not in e for e in ents) or not in_reading(c, lw):
                    continue    # nested braces etc.: outside the statement, compared with the model only
                # dedicated fields = projections of the entry list
                by_name = lambda n: [dict(e['attrs']) for e in ents if e['tag_name'] == n]
                for tag, field in (('readingOrder', 'reading_order'), ('structure', 'structure')):
                    hit = by_name(tag)
                    if hit and (md[field] is None or dict(md[field]) != hit[0]):
                        bad(f'dedicated:{field}', f'{field} is {md[field]}, first {tag} tag is {hit[0]}')
                st = by_name('structure')
                if st and 'type' in st[0] and kind in ('region', 'table') and st[0]['type'] not in el['types']:
                    bad(f'structure-type:{kind}', f'structure type {st[0]["type"]!r} not among the types {el["types"]}')

                def same_list(got, want, label):
                    if got is None or len(got) != len(want):
                        bad(f'dedicated:{label}', f'{label} is {got}, tags are {want}')
                        return
                    for g, w in zip(got, want):
                        g = dict(g)
                        if any(k not in g or g[k] != v for k, v in w.items() if k != 'type'):
                            bad(f'dedicated:{label}', f'{label} entry {g} lacks pairs of {w}')
                ts = by_name('textStyle')
                if ts:
                    same_list(md['text_style'], ts, 'text_style')
                if kind == 'line' and req:
                    want = [dict(dict(e['attrs']), type=e['tag_name']) for e in ents if e['tag_name'] in req]
                    same_list(md['custom_tags'], want, 'custom_tags')
                    if md['custom_tags'] is not None and [dict(g).get('type') for g in md['custom_tags']] != [w['type'] for w in want]:
                        bad('dedicated:custom_tags-type', f'custom_tags types {[dict(g).get("type") for g in md["custom_tags"]]}')
            # get_custom_tags: value = text[offset:offset+length]
            rows = out['ok']['rows']
            want_rows = []
            judge = True
            for r in doc.get('regions', []):
                for l in r.get('lines', []):
                    if l['id'] not in lines_by_id:
                        continue
                    lspec, el = lines_by_id[l['id']]
                    if lspec.get('custom') is not None and not in_reading(lspec['custom'], lw):
                        judge = False
                        continue
                    ents = el['md']['custom_attributes'] or []
                    for e in ents:
                        if 'attrs' in e and e['tag_name'] in req:
                            a = dict(e['attrs'])
                            off, ln = a.get('offset'), a.get('length')
                            if not (isinstance(off, int) and isinstance(ln, int) and off >= 0 and ln >= 0) or el['text'] is None:
                                judge = False   # outside the quantifier: no offset/length, negative, or no text
                                continue
                            want_rows.append({'type': e['tag_name'], 'value': el['text'][off:off + ln], 'region_id': r['id'],
                                              'line_id': l['id'], 'offset': off, 'length': ln})
            if judge and req:
                if 'err' in rows:
                    bad('tag-value-raises', f'get_custom_tags raised {rows["err"]}')
                elif stated_rows(rows)['ok'] != want_rows:
                    bad('tag-value', f'get_custom_tags gives {core.short(rows["ok"])}, expected {core.short(want_rows)}')
            return fs
        return fs

    # ---------------------------------------------------------------- bookkeeping
    def nontrivial(self, case: Case) -> bool:
        if case.kind == 'grammar':
            return any(t['attrs'] for t in case.input['laid'])
        if case.kind == 'raw':
            return len(case.input['s']) > 3
        return any(s.get('custom') is not None for _, s in doc_elements(case.input))

    def shrink_candidates(self, case: Case):
        def well_formed(c):
            # shrinking must stay inside the grammar: names and keys non-empty, values without
            # whitespace at their ends, integer-typed keys with integer values
            if 'raw' in c:
                return True
            for t in c['laid']:
                if not t['name']:
                    return False
                for a in t['attrs']:
                    if not a['key'] or not a['value'] or a['value'] != a['value'].strip() or a['key'] != a['key'].strip():
                        return False
                    if a['key'] in INT_KEYS and not re.fullmatch(r'[+-]?[0-9]+(_[0-9]+)*', a['value']):
                        return False
            return True

        def shrink_custom(c):
            for cand in shrink_custom_raw(c):
                if well_formed(cand):
                    yield cand

        def shrink_custom_raw(c):
            if 'raw' in c:
                s = c['raw']
                for i in range(len(s)):
                    yield {'raw': s[:i] + s[i + 1:]}
                return
            laid = c['laid']
            for i in range(len(laid)):
                yield dict(c, laid=laid[:i] + laid[i + 1:])
            if c.get('tail'):
                yield dict(c, tail='')
            for i, t in enumerate(laid):
                def with_tag(nt):
                    return dict(c, laid=laid[:i] + [nt] + laid[i + 1:])
                for j in range(len(t['attrs'])):
                    yield with_tag(dict(t, attrs=t['attrs'][:j] + t['attrs'][j + 1:]))
                for k in ('sep', 'close'):
                    if t[k]:
                        yield with_tag(dict(t, **{k: ''}))
                if len(t['name']) > 1:
                    yield with_tag(dict(t, name=t['name'][1:]))
                    yield with_tag(dict(t, name=t['name'][:-1]))
                for j, a in enumerate(t['attrs']):
                    for k in ('pre', 'postKey', 'preVal', 'postVal'):
                        if a[k]:
                            yield with_tag(dict(t, attrs=t['attrs'][:j] + [dict(a, **{k: ''})] + t['attrs'][j + 1:]))
                    for k in ('key', 'value'):
                        if len(a[k]) > 1:
                            yield with_tag(dict(t, attrs=t['attrs'][:j] + [dict(a, **{k: a[k][:-1]})] + t['attrs'][j + 1:]))
        if case.kind == 'grammar':
            for c in shrink_custom(case.input):
                yield Case('grammar', c, case.tags)
        elif case.kind == 'raw':
            for c in shrink_custom({'raw': case.input['s']}):
                yield Case('raw', {'s': c['raw']}, case.tags)
        elif case.kind == 'xml':
            doc = case.input
            for key in ('regions', 'tables'):
                for i in range(len(doc.get(key, []))):
                    if key == 'tables' or len(doc['regions']) > 1:
                        yield Case('xml', dict(doc, **{key: doc[key][:i] + doc[key][i + 1:]}), case.tags)

            def paths():
                for ri, r in enumerate(doc.get('regions', [])):
                    yield ('regions', ri), r
                    for li, l in enumerate(r.get('lines', [])):
                        yield ('regions', ri, 'lines', li), l
                        for wi, w in enumerate(l.get('words', [])):
                            yield ('regions', ri, 'lines', li, 'words', wi), w
                for ti, t in enumerate(doc.get('tables', [])):
                    yield ('tables', ti), t
                    for ci, c in enumerate(t.get('cells', [])):
                        yield ('tables', ti, 'cells', ci), c
                        for li, l in enumerate(c.get('lines', [])):
                            yield ('tables', ti, 'cells', ci, 'lines', li), l

            def replaced(path, fn):
                d = copy.deepcopy(doc)
                node = d
                for p in path[:-1]:
                    node = node[p]
                res = fn(node[path[-1]])
                if res is None:
                    del node[path[-1]]
                else:
                    node[path[-1]] = res
                return d
            for path, el in list(paths()):
                if len(path) > 2:
                    yield Case('xml', replaced(path, lambda e: None), case.tags)
                if el.get('custom') is not None:
                    yield Case('xml', replaced(path, lambda e: dict(e, custom=None)), case.tags)
                    for c in shrink_custom(el['custom']):
                        yield Case('xml', replaced(path, lambda e, c=c: dict(e, custom=c)), case.tags)
            if doc.get('custom_tags'):
                for i in range(len(doc['custom_tags'])):
                    yield Case('xml', dict(doc, custom_tags=doc['custom_tags'][:i] + doc['custom_tags'][i + 1:] or None), case.tags)


CHECK = C11()
