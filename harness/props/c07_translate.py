"""ast-based extraction of the PAGE structure rules of pagexml/model/xml.py (DESIGN §4.1).

Reads the working tree WITHOUT importing it and emits `PagexmlModel/Generated/C07.lean`:
  validTags          <- VALID_TAGS (set literal)
  childTable         <- the `if/elif parent_tag == 'X': return child_tag in {...}` chain of is_valid_pagexml_sub_element
  leafParents        <- its `elif parent_tag in {...}: return False` branch
  singletonTable     <- the `if parent_tag == PAGE + 'X' and child_tag in namespaced_tags(PAGE, ...): return True` list
                        of is_pagexml_singleton_relation
  coordsTags / baselineTags / textSelfTags / textViaLineTags <- the tag sets tested in add_pagexml_coords /
                        add_pagexml_baseline / add_pagexml_text
  pageNamespace, schemaLocation, xsiNamespace <- the module constants
Only the syntactic shapes listed here are accepted; anything else raises `UnknownShape` (the run then
reports the proof obligation as broken — never guessed).
"""
from __future__ import annotations

import ast
import os
from typing import Dict, List, Tuple


class UnknownShape(Exception):
    pass


def _fail(node, why):
    raise UnknownShape(f'xml.py line {getattr(node, "lineno", "?")}: {why}: {ast.dump(node)[:200]}')


def _str_set(node) -> List[str]:
    """{'a', 'b'} or 'a' -> sorted list of strings"""
    if isinstance(node, ast.Constant) and isinstance(node.value, str):
        return [node.value]
    if isinstance(node, (ast.Set, ast.List, ast.Tuple)) and all(
            isinstance(e, ast.Constant) and isinstance(e.value, str) for e in node.elts):
        return sorted({e.value for e in node.elts})
    _fail(node, 'expected a set literal of strings')


def _func(tree, name):
    for n in tree.body:
        if isinstance(n, ast.FunctionDef) and n.name == name:
            # a common prelude moved into a helper (`check_element_names(parent_tag, child_tag)`) is followed
            from harness.translate import inline_statement_calls
            return inline_statement_calls(tree, n)
    raise UnknownShape(f'function {name} not found in xml.py')


def _is_name(node, name):
    return isinstance(node, ast.Name) and node.id == name


#: {function name: True} for module-level functions whose body is a single `return <membership / comparison>` (set by extract)
_RETURNS_BOOL: Dict[str, bool] = {}


def _note_bool_functions(tree):
    _RETURNS_BOOL.clear()
    for n in tree.body:
        if isinstance(n, ast.FunctionDef):
            body = [s for s in n.body if not (isinstance(s, ast.Expr) and isinstance(s.value, ast.Constant))]
            if len(body) == 1 and isinstance(body[0], ast.Return) and isinstance(body[0].value, ast.Compare) \
                    and all(isinstance(o, (ast.In, ast.NotIn, ast.Eq, ast.NotEq, ast.Is, ast.IsNot)) for o in body[0].value.ops):
                _RETURNS_BOOL[n.name] = True


def _validity_prelude(stmts, fname):
    """the two `if is_valid_element_name(x) is False: raise ValueError` statements"""
    seen = []
    for st in stmts[:2]:
        # `if not is_valid_element_name(x):` says the same as `… is False` when the callee returns a bool — which is
        # checked on the callee (`return <x> in <…>`), not assumed; the test is then read in its `is False` form
        if isinstance(st, ast.If) and isinstance(st.test, ast.UnaryOp) and isinstance(st.test.op, ast.Not) \
                and isinstance(st.test.operand, ast.Call) and _is_name(st.test.operand.func, 'is_valid_element_name') \
                and _RETURNS_BOOL.get('is_valid_element_name'):
            st = ast.If(test=ast.Compare(left=st.test.operand, ops=[ast.Is()], comparators=[ast.Constant(value=False)]),
                        body=st.body, orelse=st.orelse)
        ok = (isinstance(st, ast.If) and isinstance(st.test, ast.Compare) and len(st.test.ops) == 1
              and isinstance(st.test.ops[0], ast.Is) and isinstance(st.test.comparators[0], ast.Constant)
              and st.test.comparators[0].value is False and isinstance(st.test.left, ast.Call)
              and _is_name(st.test.left.func, 'is_valid_element_name') and len(st.test.left.args) == 1
              and isinstance(st.test.left.args[0], ast.Name) and len(st.body) == 1 and isinstance(st.body[0], ast.Raise)
              and isinstance(st.body[0].exc, ast.Call) and _is_name(st.body[0].exc.func, 'ValueError') and not st.orelse)
        if not ok:
            _fail(st, f'{fname}: expected `if is_valid_element_name(tag) is False: raise ValueError`')
        seen.append(st.test.left.args[0].id)
    if seen != ['parent_tag', 'child_tag']:
        raise UnknownShape(f'{fname}: validity checks in unexpected order {seen}')


def _child_table_lookup(stmts, tree):
    """second known shape of the rule table: `if parent_tag not in TABLE: raise ValueError(…)` followed by
    `return child_tag in TABLE[parent_tag]`, TABLE a module-level dict literal {<str>: {<str>, …} | set()} that is
    bound once and never written to.  Same meaning as the if/elif chain: one arm per key (the keys of a dict literal
    are distinct), an empty set = a leaf parent, an unknown parent raises ValueError.  None if not that shape."""
    guard, ret = stmts
    if not (isinstance(guard, ast.If) and not guard.orelse and isinstance(guard.test, ast.Compare)
            and len(guard.test.ops) == 1 and isinstance(guard.test.ops[0], ast.NotIn) and _is_name(guard.test.left, 'parent_tag')
            and len(guard.body) == 1 and isinstance(guard.body[0], ast.Raise) and isinstance(guard.body[0].exc, ast.Call)
            and _is_name(guard.body[0].exc.func, 'ValueError')):
        return None
    if not (isinstance(ret, ast.Return) and isinstance(ret.value, ast.Compare) and len(ret.value.ops) == 1
            and isinstance(ret.value.ops[0], ast.In) and _is_name(ret.value.left, 'child_tag')
            and isinstance(ret.value.comparators[0], ast.Subscript) and isinstance(ret.value.comparators[0].value, ast.Name)
            and _is_name(ret.value.comparators[0].slice, 'parent_tag')):
        return None
    name = ret.value.comparators[0].value.id
    defs = [n for n in tree.body if isinstance(n, ast.Assign) and len(n.targets) == 1 and _is_name(n.targets[0], name)]
    if len(defs) != 1 or not isinstance(defs[0].value, ast.Dict):
        _fail(ret, f'expected exactly one module-level dict literal {name}')
    d = defs[0].value
    # the guard must test membership in the same table (by name, or — after constant propagation — its literal)
    g = guard.test.comparators[0]
    if not (_is_name(g, name) or (isinstance(g, ast.Dict) and ast.dump(g) == ast.dump(d))):
        _fail(guard, f'expected `parent_tag not in {name}`')
    for n in ast.walk(tree):
        if isinstance(n, ast.Name) and n.id == name and isinstance(n.ctx, (ast.Store, ast.Del)) and n is not defs[0].targets[0]:
            _fail(n, f'{name} is rebound')
        if isinstance(n, ast.Attribute) and _is_name(n.value, name):
            _fail(n, f'a method of {name} is used')
        if isinstance(n, ast.Subscript) and _is_name(n.value, name) and isinstance(n.ctx, (ast.Store, ast.Del)):
            _fail(n, f'{name} is written to')
    table, leaf, seen = [], [], set()
    for k, v in zip(d.keys, d.values):
        if not (isinstance(k, ast.Constant) and isinstance(k.value, str)) or k.value in seen:
            _fail(d, f'{name}: keys must be distinct string literals')
        seen.add(k.value)
        if isinstance(v, ast.Call) and _is_name(v.func, 'set') and not v.args and not v.keywords:
            leaf.append(k.value)
        else:
            table.append((k.value, _str_set(v)))
    return table, sorted(set(leaf))


def _valid_sub_element(fn, tree=None) -> Tuple[List[Tuple[str, List[str]]], List[str]]:
    body = [s for s in fn.body if not (isinstance(s, ast.Expr) and isinstance(s.value, ast.Constant))]
    _validity_prelude(body, 'is_valid_pagexml_sub_element')
    rest = body[2:]
    # parent_tag = parent_tag.replace(PAGE, ''); child_tag = child_tag.replace(PAGE, '')
    for st, var in zip(rest[:2], ('parent_tag', 'child_tag')):
        ok = (isinstance(st, ast.Assign) and len(st.targets) == 1 and _is_name(st.targets[0], var)
              and isinstance(st.value, ast.Call) and isinstance(st.value.func, ast.Attribute)
              and st.value.func.attr == 'replace' and _is_name(st.value.func.value, var)
              and len(st.value.args) == 2 and _is_name(st.value.args[0], 'PAGE')
              and isinstance(st.value.args[1], ast.Constant) and st.value.args[1].value == '')
        if not ok:
            _fail(st, 'expected `tag = tag.replace(PAGE, "")`')
    looked_up = _child_table_lookup(rest[2:], tree) if tree is not None and len(rest) == 4 else None
    if looked_up is not None:
        return looked_up
    if len(rest) != 3 or not isinstance(rest[2], ast.If):
        raise UnknownShape('is_valid_pagexml_sub_element: expected one if/elif chain after the prelude')
    table: List[Tuple[str, List[str]]] = []
    leaf: List[str] = []
    node = rest[2]
    while True:
        t = node.test
        if not (isinstance(t, ast.Compare) and len(t.ops) == 1 and _is_name(t.left, 'parent_tag')):
            _fail(t, 'expected a test on parent_tag')
        if len(node.body) != 1 or not isinstance(node.body[0], ast.Return):
            _fail(node, 'expected a single return in the branch')
        ret = node.body[0].value
        if isinstance(t.ops[0], ast.Eq):
            parent = t.comparators[0]
            if not (isinstance(parent, ast.Constant) and isinstance(parent.value, str)):
                _fail(t, 'expected parent_tag == <string>')
            if not (isinstance(ret, ast.Compare) and len(ret.ops) == 1 and isinstance(ret.ops[0], ast.In)
                    and _is_name(ret.left, 'child_tag')):
                _fail(ret, 'expected `return child_tag in {...}`')
            if leaf:
                _fail(node, 'an `==` branch after the `in {...}: return False` branch')
            table.append((parent.value, _str_set(ret.comparators[0])))
        elif isinstance(t.ops[0], ast.In):
            if not (isinstance(ret, ast.Constant) and ret.value is False):
                _fail(ret, 'expected `return False` in the leaf branch')
            leaf += _str_set(t.comparators[0])
        else:
            _fail(t, 'unknown comparison')
        if len(node.orelse) == 1 and isinstance(node.orelse[0], ast.If):
            node = node.orelse[0]
            continue
        if not (len(node.orelse) == 1 and isinstance(node.orelse[0], ast.Raise) and isinstance(node.orelse[0].exc, ast.Call)
                and _is_name(node.orelse[0].exc.func, 'ValueError')):
            raise UnknownShape('is_valid_pagexml_sub_element: the chain must end with `else: raise ValueError`')
        break
    if len({p for p, _ in table}) != len(table):
        raise UnknownShape('is_valid_pagexml_sub_element: a parent tag is tested twice')
    return table, sorted(set(leaf))


def _page_plus(node) -> str:
    """PAGE + 'X' -> 'X'"""
    if (isinstance(node, ast.BinOp) and isinstance(node.op, ast.Add) and _is_name(node.left, 'PAGE')
            and isinstance(node.right, ast.Constant) and isinstance(node.right.value, str)):
        return node.right.value
    _fail(node, "expected PAGE + '<tag>'")


def _ns_tags(node) -> List[str]:
    """namespaced_tags(PAGE, {...} | 'X') -> tags"""
    if (isinstance(node, ast.Call) and _is_name(node.func, 'namespaced_tags') and len(node.args) == 2
            and _is_name(node.args[0], 'PAGE')):
        return _str_set(node.args[1])
    _fail(node, 'expected namespaced_tags(PAGE, {...})')


def _singleton(fn) -> List[Tuple[str, List[str]]]:
    body = [s for s in fn.body if not (isinstance(s, ast.Expr) and isinstance(s.value, ast.Constant))]
    _validity_prelude(body, 'is_pagexml_singleton_relation')
    out = []
    for st in body[2:]:
        ok = (isinstance(st, ast.If) and not st.orelse and len(st.body) == 1 and isinstance(st.body[0], ast.Return)
              and isinstance(st.body[0].value, ast.Constant) and st.body[0].value.value is True
              and isinstance(st.test, ast.BoolOp) and isinstance(st.test.op, ast.And) and len(st.test.values) == 2)
        if not ok:
            _fail(st, 'expected `if parent_tag == PAGE + X and child_tag in namespaced_tags(PAGE, ...): return True`')
        a, b = st.test.values
        if not (isinstance(a, ast.Compare) and len(a.ops) == 1 and isinstance(a.ops[0], ast.Eq) and _is_name(a.left, 'parent_tag')):
            _fail(a, 'expected parent_tag == PAGE + X')
        if not (isinstance(b, ast.Compare) and len(b.ops) == 1 and isinstance(b.ops[0], ast.In) and _is_name(b.left, 'child_tag')):
            _fail(b, 'expected child_tag in namespaced_tags(...)')
        out.append((_page_plus(a.comparators[0]), _ns_tags(b.comparators[0])))
    return out


def _tag_guard(fn, which=0) -> List[str]:
    """the tags of the `which`-th test `element.tag [not] in namespaced_tags(PAGE, ...)` of a function, in source order"""
    found = []
    for node in ast.walk(fn):
        if (isinstance(node, ast.Compare) and len(node.ops) == 1 and isinstance(node.ops[0], (ast.In, ast.NotIn))
                and isinstance(node.left, ast.Attribute) and node.left.attr == 'tag' and _is_name(node.left.value, 'element')):
            found.append((node.lineno, node.col_offset, isinstance(node.ops[0], ast.NotIn), _ns_tags(node.comparators[0])))
    found.sort()
    return found


def _const_str(tree, name) -> str:
    for n in tree.body:
        if isinstance(n, ast.Assign) and len(n.targets) == 1 and _is_name(n.targets[0], name):
            v = n.value
            if isinstance(v, ast.Constant) and isinstance(v.value, str):
                return v.value
            # implicit concatenation inside parentheses is a single Constant; "{%s}" % X handled by the callers
            _fail(n, f'{name}: expected a string literal')
    raise UnknownShape(f'constant {name} not found')


def lean_str(s: str) -> str:
    return '"' + s.replace('\\', '\\\\').replace('"', '\\"') + '"'


def lean_list(xs: List[str]) -> str:
    return '[' + ', '.join(lean_str(x) for x in xs) + ']'


def extract(repo: str) -> Dict[str, object]:
    path = os.path.join(repo, 'pagexml', 'model', 'xml.py')
    from harness.astnorm import normalise     # named constants / folded literals read as the literals they are
    tree = normalise(ast.parse(open(path, encoding='utf-8').read()), keep=('PAGE',))
    _note_bool_functions(tree)
    valid_tags = None
    for n in tree.body:
        if isinstance(n, ast.Assign) and len(n.targets) == 1 and _is_name(n.targets[0], 'VALID_TAGS'):
            valid_tags = _str_set(n.value)
    if valid_tags is None:
        raise UnknownShape('VALID_TAGS not found')
    table, leaf = _valid_sub_element(_func(tree, 'is_valid_pagexml_sub_element'), tree)
    single = _singleton(_func(tree, 'is_pagexml_singleton_relation'))
    g = _tag_guard(_func(tree, 'add_pagexml_coords'))
    if len(g) != 1 or not g[0][2]:
        raise UnknownShape('add_pagexml_coords: expected exactly one `element.tag not in namespaced_tags(...)` guard')
    coords_tags = g[0][3]
    g = _tag_guard(_func(tree, 'add_pagexml_baseline'))
    if len(g) != 1 or not g[0][2]:
        raise UnknownShape('add_pagexml_baseline: expected exactly one `element.tag not in namespaced_tags(...)` guard')
    baseline_tags = g[0][3]
    g = _tag_guard(_func(tree, 'add_pagexml_text'))
    if len(g) != 2 or g[0][2] or g[1][2]:
        raise UnknownShape('add_pagexml_text: expected `if element.tag in ...: elif element.tag in ...:`')
    return {'validTags': valid_tags, 'childTable': table, 'leafParents': leaf, 'singletonTable': single,
            'coordsTags': coords_tags, 'baselineTags': baseline_tags, 'textSelfTags': g[0][3], 'textViaLineTags': g[1][3],
            'pageNamespace': _const_str(tree, 'PAGE_NAMESPACE'), 'schemaLocation': _const_str(tree, 'PAGE_SCHEMA_LOC'),
            'xsi': _const_str(tree, 'NS_XSI')}


def generate(repo: str) -> str:
    t = extract(repo)
    pairs = lambda tb: '[' + ',\n   '.join(f'({lean_str(p)}, {lean_list(cs)})' for p, cs in tb) + ']'
    return f'''/-
GENERATED by harness/props/c07_translate.py from pagexml/model/xml.py on every run — do not edit.
The PAGE structure rules as the export code states them.
-/
namespace Pagexml.C07.Gen

/-- VALID_TAGS -/
def validTags : List String :=
  {lean_list(t['validTags'])}

/-- is_valid_pagexml_sub_element: the `parent_tag == X: return child_tag in {{...}}` chain, in source order -/
def childTable : List (String × List String) :=
  {pairs(t['childTable'])}

/-- is_valid_pagexml_sub_element: `parent_tag in {{...}}: return False` -/
def leafParents : List String := {lean_list(t['leafParents'])}

/-- is_pagexml_singleton_relation: the `return True` cases, in source order -/
def singletonTable : List (String × List String) :=
  {pairs(t['singletonTable'])}

/-- add_pagexml_coords / add_pagexml_baseline / add_pagexml_text: the element tags they accept -/
def coordsTags : List String := {lean_list(t['coordsTags'])}
def baselineTags : List String := {lean_list(t['baselineTags'])}
def textSelfTags : List String := {lean_list(t['textSelfTags'])}
def textViaLineTags : List String := {lean_list(t['textViaLineTags'])}

def pageNamespace : String := {lean_str(t['pageNamespace'])}
def schemaLocation : String := {lean_str(t['schemaLocation'])}
def xsiSchemaLocationAttr : String := {lean_str(t['xsi'] + 'schemaLocation')}

end Pagexml.C07.Gen
'''


if __name__ == '__main__':
    import sys
    print(generate(sys.argv[1] if len(sys.argv) > 1 else '/repo'))
