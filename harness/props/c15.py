"""C15 — Grouping and ordering lines loses nothing and follows the layout."""
from __future__ import annotations

import itertools
import math
import random
from typing import Any, Dict, Iterable, List, Optional

from harness.core import OUTSIDE, Case, Check, Finding, call, run_driver
from harness.guard import guarded

MATRIX_MAX = 12   # pairwise relation matrices are compared for line sets up to this size
# --- ties the statement does not break (see "tie orders" below) ---------------------------------------------
TIE_ORDER_CAP = 720        # all processing orders of the tied lines are tried up to this many; above: partition level
TIE_CHUNK = 90             # the orders are sent to the model in chunks of this size (stop at the first match)
TIE_REQUEST_BUDGET = 200000    # model requests one run may spend on tie orders; afterwards: partition level
TIE_CONFIRMED_STOP = 5     # the runner reports 5 disagreements; once that many are confirmed, later mismatches on
#                            inputs with ties are reported without trying their tie orders (the outcome is decided)
# the oracle's reading of "aligned rows": baselines of the cells of one row lie within this many pixels of each
# other.  It is a number of the STATEMENT's reading, not of the code: the model takes the tolerance of
# `is_next_to` from the source (Generated/C15.lean), and `C15_consts_row_tolerance_covers_spec` (specRowTol in
# Props/C15.lean, the same 10) is the obligation that the source's tolerance is at least this.
SPEC_ROW_TOL = 10


def _real():
    import pagexml.model.physical_document_model as pdm
    import pagexml.helper.pagexml_helper as helper
    import pagexml.model.coords as coords
    return pdm, helper, coords


# ------------------------------------------------------------------------------------------
# building real objects from the JSON case
# ------------------------------------------------------------------------------------------

def _box_points(box, dx=0, dy=0):
    l, t, r, b = box
    return [(l + dx, t + dy), (r + dx, t + dy), (r + dx, b + dy), (l + dx, b + dy)]


def _mk_line(spec, dx=0, dy=0):
    pdm, _, _ = _real()
    bl = None
    if spec.get('bl') is not None:
        bl = pdm.Baseline([(x + dx, y + dy) for x, y in spec['bl']])
    return pdm.PageXMLTextLine(doc_id=f"l{spec['id']}", coords=pdm.Coords(_box_points(spec['box'], dx, dy)),
                               baseline=bl, text=spec.get('text'))


def _lid(line) -> int:
    return int(line.id[1:])


def _mk_doc(tree, lines_by_id, dx=0, dy=0):
    """tree: {'id', 'type': page|column|text_region, 'box', 'kids': [...], 'lines': [line ids], 'extra': bool}"""
    pdm, _, _ = _real()
    kids = [(_k, _mk_doc(_k, lines_by_id, dx, dy)) for _k in tree['kids']]
    coords = pdm.Coords(_box_points(tree['box'], dx, dy))
    lines = [lines_by_id[i] for i in tree['lines']]
    did = f"r{tree['id']}"
    if tree['type'] == 'page':
        return pdm.PageXMLPage(doc_id=did, coords=coords,
                               columns=[d for k, d in kids if k['type'] == 'column' and not k.get('extra')],
                               text_regions=[d for k, d in kids if k['type'] != 'column' and not k.get('extra')],
                               extra=[d for k, d in kids if k.get('extra')], lines=lines)
    cls = pdm.PageXMLColumn if tree['type'] == 'column' else pdm.PageXMLTextRegion
    return cls(doc_id=did, coords=coords, text_regions=[d for _, d in kids], lines=lines)


def _model_kids(tree):
    """children in the order sort_regions_in_reading_order collects them: columns, text_regions, extra"""
    if tree['type'] == 'page':
        ks = tree['kids']
        return ([k for k in ks if k['type'] == 'column' and not k.get('extra')] +
                [k for k in ks if k['type'] != 'column' and not k.get('extra')] +
                [k for k in ks if k.get('extra')])
    return tree['kids']


def _model_line(spec):
    return {'id': spec['id'], 'box': spec['box'], 'bl': spec.get('bl'), 'text': spec.get('text') is not None}


def _model_tree(tree, specs_by_id):
    return {'id': tree['id'], 'box': tree['box'],
            'kids': [_model_tree(k, specs_by_id) for k in _model_kids(tree)],
            'lines': [_model_line(specs_by_id[i]) for i in tree['lines']]}


def _tree_nodes(tree):
    yield tree
    for k in tree['kids']:
        yield from _tree_nodes(k)


def _prune_tree(tree, keep, by_id, root=True):
    """drop the lines not in `keep` (and regions left empty), recompute the region boxes"""
    lines = [i for i in tree['lines'] if i in keep]
    kids = [k for k in (_prune_tree(k, keep, by_id, False) for k in tree['kids']) if k is not None]
    if not lines and not kids and not root:
        return None
    boxes = [by_id[i]['box'] for i in lines] + [k['box'] for k in kids]
    return dict(tree, lines=lines, kids=kids, box=_hull(boxes) if boxes else tree['box'])


def _hull(boxes):
    return [min(b[0] for b in boxes), min(b[1] for b in boxes), max(b[2] for b in boxes), max(b[3] for b in boxes)]


def _bl_box(bl):
    xs = [p[0] for p in bl]
    ys = [p[1] for p in bl]
    return min(xs), min(ys), max(xs), max(ys)


# ------------------------------------------------------------------------------------------
# running the real code
# ------------------------------------------------------------------------------------------

def _relval(f):
    r = call(f)
    return r['ok'] if 'ok' in r else r['err']


def _run_lines(specs, dx, dy, matrices: bool) -> Dict[str, Any]:
    _, h, _ = _real()
    lines = [_mk_line(s, dx, dy) for s in specs]
    out: Dict[str, Any] = {}
    out['groups'] = call(lambda: [[_lid(x) for x in g] for g in h.horizontal_group_lines(lines)])
    for d in ('ltr', 'rtl'):
        out['rd_' + d] = call(lambda: [_lid(x) for x in h.sort_lines_in_reading_direction(lines, reading_direction=d)])
    out['sorted'] = call(lambda: [_lid(x) for x in sorted(lines)])
    # (A) the list and its lines are USED objects now: every function once more, in the opposite order, on the same
    # objects — the answers are functions of the layout ("in any order and any number of times") and the caller's
    # list must come back as it was handed over
    hist = []
    if [_lid(x) for x in lines] != [s['id'] for s in specs]:
        hist.append(f'the input list was reordered / changed: {[_lid(x) for x in lines]}')
    again = {'sorted': call(lambda: [_lid(x) for x in sorted(lines)])}
    for d in ('rtl', 'ltr'):
        again['rd_' + d] = call(lambda: [_lid(x) for x in h.sort_lines_in_reading_direction(lines, reading_direction=d)])
    again['groups'] = call(lambda: [[_lid(x) for x in g] for g in h.horizontal_group_lines(lines)])
    for fn, v in again.items():
        if v != out[fn]:
            hist.append(f'{fn}: {out[fn]} on the first call, {v} on the second call on the same objects')
    if _snap_lines(lines, dx, dy) != [(s['id'], s.get('text'), _box_points(s['box'], dx, dy)) for s in specs]:
        hist.append('id / text / coordinates of the lines changed')
    out['history'] = hist
    if matrices:
        out['below'] = [[_relval(lambda: a.is_below(b)) for b in lines] for a in lines]
        out['next_to'] = [[_relval(lambda: a.is_next_to(b)) for b in lines] for a in lines]
        out['lt'] = [[_relval(lambda: a < b) for b in lines] for a in lines]
    return out


def _snap_lines(lines, dx=0, dy=0):
    return [(_lid(l), l.text, [tuple(p) for p in l.coords.points]) for l in lines]


def _snap_doc(doc):
    """what the statement observes of a document: ids, boxes and the order of the children at every level"""
    kids = []
    for attr in ('columns', 'text_regions', 'extra'):
        kids.append([_snap_doc(k) for k in (getattr(doc, attr, None) or [])])
    return (doc.id, [tuple(p) for p in doc.coords.points] if doc.coords is not None else None, kids,
            _snap_lines(getattr(doc, 'lines', None) or []))


def _doc_calls(tree):
    """(name, function of (helper, document)) for every public entry point and option value the statement names:
    the three ordering functions themselves and the dispatcher sort_lines_in_reading_order with every combination
    of row_order and reading_direction, by keyword and by position"""
    calls = [('regions_ro', lambda h, doc: [int(r.id[1:]) for r in h.sort_regions_in_reading_order(doc)])]
    for d in ('ltr', 'rtl'):
        calls.append(('column_' + d, lambda h, doc, d=d: [_lid(x) for x in h.sort_lines_in_column_reading_order(
            doc, reading_direction=d)]))
        calls.append(('disp_column_' + d, lambda h, doc, d=d: [_lid(x) for x in h.sort_lines_in_reading_order(
            doc, row_order=False, reading_direction=d)]))
        calls.append(('pos_column_' + d, lambda h, doc, d=d: [_lid(x) for x in h.sort_lines_in_reading_order(
            doc, False, d)]))
        if tree['type'] != 'page':
            calls.append(('row_' + d, lambda h, doc, d=d: [_lid(x) for x in h.sort_lines_in_row_reading_order(
                doc, reading_direction=d)]))
            calls.append(('disp_row_' + d, lambda h, doc, d=d: [_lid(x) for x in h.sort_lines_in_reading_order(
                doc, row_order=True, reading_direction=d)]))
            calls.append(('pos_row_' + d, lambda h, doc, d=d: [_lid(x) for x in h.sort_lines_in_reading_order(
                doc, True, d)]))
    return calls


def _run_doc(tree, specs, dx, dy) -> Dict[str, Any]:
    pdm, h, _ = _real()
    out: Dict[str, Any] = {}

    def fresh():
        lines = {s['id']: _mk_line(s, dx, dy) for s in specs}
        return _mk_doc(tree, lines, dx, dy)
    calls = _doc_calls(tree)
    for nm, f in calls:
        out[nm] = call(lambda: f(h, fresh()))
    # (A) one document object through ALL the calls, in an order that depends on the case, each call twice: the
    # answers must be those for a fresh document, and the document (ids, boxes, order of children) must not change
    hist = []
    doc = call(fresh)
    if 'ok' in doc:
        doc = doc['ok']
        snap = call(lambda: _snap_doc(doc))
        order = list(calls)
        random.Random(len(specs) * 31 + tree['id'] * 7 + len(tree['kids'])).shuffle(order)
        for nm, f in order + order[::-1]:
            v = call(lambda: f(h, doc))
            if v != out[nm]:
                hist.append(f'{nm}: {out[nm]} on a fresh document, {v} on a document that went through other calls')
        if call(lambda: _snap_doc(doc)) != snap:
            hist.append('ids / boxes / order of the children of the document changed')
    out['history'] = hist
    return out


def _run_regions(regs, dx, dy) -> Dict[str, Any]:
    pdm, _, _ = _real()
    rs = [pdm.PageXMLColumn(doc_id=f"r{r['id']}", coords=pdm.Coords(_box_points(r['box'], dx, dy))) for r in regs]
    first = call(lambda: [int(x.id[1:]) for x in sorted(rs)])
    lt = [[_relval(lambda: a < b) for b in rs] for a in rs]
    second = call(lambda: [int(x.id[1:]) for x in sorted(rs)])
    hist = [] if first == second and [int(x.id[1:]) for x in rs] == [r['id'] for r in regs] else \
        [f'sorted(regions): {first} then {second} on the same objects; input list {[x.id for x in rs]}']
    return {'sorted': first, 'lt': lt, 'history': hist}


# ------------------------------------------------------------------------------------------
# clean grids (the oracle's own reading of "clean layout", evaluated on the numbers of the case)
# ------------------------------------------------------------------------------------------

def _valid_line(s) -> bool:
    l, t, r, b = s['box']
    return r > l and b > t and s.get('bl') is not None and len(s['bl']) > 0


def _baseline_inside(s) -> bool:
    l, t, r, b = s['box']
    bl_l, bl_t, bl_r, bl_b = _bl_box(s['bl'])
    return l <= bl_l and bl_r <= r and t <= bl_t and bl_b <= b


def grid_is_clean(cells) -> bool:
    """cells: line specs with 'row' and 'col'. Mirrors the Lean predicate CleanGrid at the row tolerance
    SPEC_ROW_TOL (the Lean predicate uses the tolerance of the source, which has to be at least that)."""
    for s in cells:
        if not _valid_line(s) or not _baseline_inside(s):
            return False
    seen = set()
    for s in cells:
        if (s['row'], s['col']) in seen:
            return False
        seen.add((s['row'], s['col']))
    for a in cells:
        for b in cells:
            if a is b:
                continue
            if a['row'] < b['row'] and not a['box'][3] < b['box'][1]:
                return False
            if a['col'] < b['col'] and not a['box'][2] < b['box'][0]:
                return False
            if a['row'] == b['row']:
                if min(a['box'][3], b['box'][3]) < max(a['box'][1], b['box'][1]):
                    return False
                _, at, _, ab = _bl_box(a['bl'])
                _, bt, _, bb = _bl_box(b['bl'])
                if at > bb + SPEC_ROW_TOL or ab < bt - SPEC_ROW_TOL:
                    return False
    return True


# ------------------------------------------------------------------------------------------
# tie orders: the processing order of lines with exactly equal top is not fixed by the statement
# ------------------------------------------------------------------------------------------
# STATEMENT (conservation part, quantified over "all finite sets of lines ... (arbitrary overlap)"): "the groups
# partition those lines, each group is ordered left to right, and the reading-direction order is a permutation of
# them".  horizontal_group_lines stacks the lines greedily in the order `sorted(key=top)`; on overlapping layouts
# the outcome depends on the order in which lines with EXACTLY equal `coords.top` are taken, and the statement does
# not say which (the code takes input order because Python's sort is stable; "left to right" is as good).  So for
# the functions downstream of horizontal_group_lines the implementation has to behave like the model on SOME
# processing order of the tied lines: the model is asked again with the INPUT list reordered inside each tie class
# (stable sort => that is exactly another processing order), every order up to TIE_ORDER_CAP; only above the cap is
# the comparison reduced to what the statement says (partition / left to right / permutation).  The tie condition
# is computed from the case input with exact integers (box top of the lines WITH text: the code filters on
# `line.text is not None` after sorting, text-less lines are never compared with anything).  Inputs without such a
# tie, and clean grids (where the statement fixes the result), are compared exactly.

def _has_text(s) -> bool:
    t = s.get('text')          # line spec: None / str; model line: bool
    return t is not None and t is not False


def _classes(items, key, member=lambda x: True) -> List[List[int]]:
    """positions of the items with exactly equal key (classes of two or more only)"""
    d: Dict[Any, List[int]] = {}
    for pos, x in enumerate(items):
        if member(x):
            d.setdefault(key(x), []).append(pos)
    return [ps for ps in d.values() if len(ps) > 1]


def _line_ties(lines) -> List[List[int]]:
    """tie classes of horizontal_group_lines: lines with text and exactly equal box top"""
    return _classes(lines, lambda s: s['box'][1], _has_text)


def _n_orders(classes) -> int:
    n = 1
    for ps in classes:
        n *= math.factorial(len(ps))
    return n


def _reorderings(items, classes):
    """every list that differs from `items` by a permutation inside each class (the list itself comes first)"""
    items = list(items)
    for perms in itertools.product(*(itertools.permutations(ps) for ps in classes)):
        new = list(items)
        for ps, perm in zip(classes, perms):
            for dst, src in zip(ps, perm):
                new[dst] = items[src]
        yield new


def _likely_orders(items, classes):
    """a few natural tie-breaks (by left, by right, by id, reversed input ...), tried before the full enumeration"""
    keys = [lambda s: s['box'][0], lambda s: -s['box'][0], lambda s: s['box'][2], lambda s: -s['box'][2],
            lambda s: s['id'], lambda s: -s['id'], lambda s: s['box'][3], lambda s: -s['box'][3]]
    seen = [list(items)]
    for k in keys + [None]:
        new = list(items)
        for ps in classes:
            srcs = list(reversed(ps)) if k is None else sorted(ps, key=lambda p: k(items[p]))
            for dst, src in zip(ps, srcs):
                new[dst] = items[src]
        if new not in seen:
            seen.append(new)
            yield new


def _sibling_ties(kids) -> List[List[int]]:
    """sibling regions with exactly equal (top, left): "visits regions by top edge, then left edge" says nothing
    about regions that agree in both"""
    return _classes(kids, lambda k: (k['box'][1], k['box'][0]))


def _tree_n(mt, lines_matter: bool) -> int:
    n = _n_orders(_sibling_ties(mt['kids']))
    if lines_matter and not mt['kids']:
        n *= _n_orders(_line_ties(mt['lines']))
    for k in mt['kids']:
        n *= _tree_n(k, lines_matter)
    return n


def _tree_variants(mt, lines_matter: bool) -> list:
    """model trees that differ from `mt` only in the order of sibling regions with equal (top, left) and, if
    `lines_matter`, of the text lines with equal top inside one leaf region (column reading order looks at the lines
    of the leaves only); `mt` itself comes first.  Call only when _tree_n is small."""
    kid_variants = [_tree_variants(k, lines_matter) for k in mt['kids']]
    sib = _sibling_ties(mt['kids'])
    if lines_matter and not mt['kids']:
        line_orders = list(_reorderings(mt['lines'], _line_ties(mt['lines'])))
    else:
        line_orders = [mt['lines']]
    out = []
    for kids in itertools.product(*kid_variants):
        for kids2 in _reorderings(kids, sib):
            for ls in line_orders:
                out.append(dict(mt, kids=kids2, lines=ls))
    return out


def _get_lines(mt) -> list:
    """PageXMLTextRegion.get_lines as the model has it (Model/C15.lean getLines): the kids' lines, then the own"""
    return [l for k in mt['kids'] for l in _get_lines(k)] + list(mt['lines'])


def _partition_level(nm, val, left_of):
    """what the statement says about the result on overlapping layouts, and nothing else"""
    if not isinstance(val, dict) or 'ok' not in val:
        return val
    if nm == 'groups':
        gs = val['ok']
        return {'ids': sorted(i for g in gs for i in g), 'no_empty_group': all(len(g) > 0 for g in gs),
                'left_to_right': all(left_of.get(g[k], 0) <= left_of.get(g[k + 1], 0)
                                     for g in gs for k in range(len(g) - 1))}
    return {'ids': sorted(val['ok'])}


# ------------------------------------------------------------------------------------------
# generators
# ------------------------------------------------------------------------------------------

def _rand_text(rng, p_none=0.2, p_empty=0.1):
    r = rng.random()
    if r < p_none:
        return None
    if r < p_none + p_empty:
        return ''
    return rng.choice(['abc', 'x', 'de fg'])


def _rand_baseline(rng, l, t, r, b, wild=False):
    k = rng.choice([1, 2, 2, 3, 4, 6])
    if wild:
        xs = [rng.randint(l - 30, r + 30) for _ in range(k)]
        if rng.random() < 0.6:
            xs.sort()
        return [[x, rng.randint(t - 10, b + 10)] for x in xs]
    xs = sorted(rng.randint(l, r) for _ in range(k))
    y0 = rng.randint(t, b)
    return [[x, max(t, min(b, y0 + rng.randint(-4, 4)))] for x in xs]


def _rand_lines(rng, n, W=500, H=300, none_bl=0.0, zero=0.0):
    specs = []
    tops = [rng.randint(0, H) for _ in range(4)]
    lefts = [rng.randint(0, W) for _ in range(4)]
    for i in range(n):
        l = rng.choice(lefts) if rng.random() < 0.25 else rng.randint(0, W)
        t = rng.choice(tops) if rng.random() < 0.25 else rng.randint(0, H)
        w = rng.choice([1, 5, 30, 41, 42, 100, 200]) if rng.random() < 0.3 else rng.randint(1, 220)
        hgt = rng.choice([1, 9, 10, 11, 30]) if rng.random() < 0.3 else rng.randint(1, 70)
        if rng.random() < zero:
            w = 0 if rng.random() < 0.7 else w
            hgt = 0 if rng.random() < 0.7 else hgt
        box = [l, t, l + w, t + hgt]
        bl: Optional[list] = _rand_baseline(rng, *box, wild=rng.random() < 0.3)
        if rng.random() < none_bl:
            bl = None
        text = _rand_text(rng)
        if specs and rng.random() < 0.08:
            # two DIFFERENT lines with exactly the same box (and mostly the same text, baseline included): "never loses
            # or duplicates a line that has text" is about lines, not about distinct geometry
            twin = rng.choice(specs)
            box, bl = list(twin['box']), (None if twin['bl'] is None else [list(p) for p in twin['bl']])
            text = twin['text'] if rng.random() < 0.8 else text
        specs.append({'id': i, 'box': box, 'bl': bl, 'text': text})
    return specs


def _rand_grid(rng, max_r=6, max_c=6, sloppy=False, stagger=False):
    """a jittered r x c grid with missing cells; `sloppy` lets jitter exceed the clean limits; `stagger` builds
    rows whose boxes share only a thin band (any two boxes of a row overlap vertically, possibly by a pixel or
    two, far less than half their height) with all baselines of the row inside that band: still aligned rows
    that do not overlap each other, as CleanGrid / grid_is_clean says"""
    if stagger:
        return _stagger_grid(rng, max_r, max_c)
    r, c = rng.randint(1, max_r), rng.randint(1, max_c)
    x = rng.randint(0, 80)
    col_l, col_r = [], []
    for _ in range(c):
        w = rng.randint(60, 200)
        col_l.append(x)
        col_r.append(x + w)
        x += w + (rng.randint(-45, 60) if sloppy and rng.random() < 0.3 else rng.randint(1, 60))
    y = rng.randint(0, 80)
    row_t, row_b = [], []
    for _ in range(r):
        hgt = rng.randint(20, 60)
        row_t.append(y)
        row_b.append(y + hgt)
        y += hgt + (rng.randint(-15, 40) if sloppy and rng.random() < 0.3 else rng.randint(1, 40))
    p_missing = rng.choice([0.0, 0.1, 0.3, 0.6])
    cells = []
    for i in range(r):
        hgt = row_b[i] - row_t[i]
        a = (hgt - 12) // 3
        tol = rng.choice([5, 5, 5, 8, 12]) if sloppy else 5
        base = rng.randint(row_t[i] + a + 5, row_b[i] - a - 5)
        for j in range(c):
            if rng.random() < p_missing:
                continue
            w = col_r[j] - col_l[j]
            left = col_l[j] + rng.randint(0, w // 4)
            right = col_r[j] - rng.randint(0, w // 4)
            top = row_t[i] + rng.randint(0, a)
            bottom = row_b[i] - rng.randint(0, a)
            k = rng.choice([1, 2, 2, 3, 4])
            xs = sorted(rng.randint(left, right) for _ in range(k))
            bl = [[xx, max(top, min(bottom, base + rng.randint(-tol, tol)))] for xx in xs]
            text = None if rng.random() < 0.05 else rng.choice(['abc', '', 'q'])
            cells.append({'row': i, 'col': j, 'box': [left, top, right, bottom], 'bl': bl, 'text': text})
    rng.shuffle(cells)
    for n, s in enumerate(cells):
        s['id'] = n
    return cells


def _stagger_grid(rng, max_r, max_c):
    r, c = rng.randint(1, max_r), rng.randint(1, max_c)
    x = rng.randint(0, 80)
    cols = []
    for _ in range(c):
        w = rng.randint(60, 400)
        cols.append((x, x + w))
        x += w + rng.randint(1, 200)
    p_missing = rng.choice([0.0, 0.1, 0.3, 0.6])
    cells = []
    y = rng.randint(0, 80)
    for i in range(r):
        reach = rng.choice([10, 25, 40, 60])
        band_t = y + reach
        band_b = band_t + rng.choice([1, 1, 2, 4, 9])
        lowest = band_b
        for j in range(c):
            if rng.random() < p_missing:
                continue
            l0, r0 = cols[j]
            w = r0 - l0
            left, right = l0 + rng.randint(0, w // 4), r0 - rng.randint(0, w // 4)
            # the box hangs mostly above or mostly below the common band
            if rng.random() < 0.5:
                top, bottom = band_t - rng.randint(reach // 2, reach), band_b + rng.randint(0, 3)
            else:
                top, bottom = band_t - rng.randint(0, 3), band_b + rng.randint(reach // 2, reach)
            lowest = max(lowest, bottom)
            k = rng.choice([1, 2, 2, 3])
            xs = sorted(rng.randint(left, right) for _ in range(k))
            bl = [[xx, rng.randint(band_t, band_b)] for xx in xs]
            text = None if rng.random() < 0.05 else rng.choice(['abc', '', 'q'])
            cells.append({'row': i, 'col': j, 'box': [left, top, right, bottom], 'bl': bl, 'text': text})
        y = lowest + rng.randint(1, 60)
    rng.shuffle(cells)
    for n, s in enumerate(cells):
        s['id'] = n
    return cells


def _grid_docs(rng, cells):
    """documents over the grid's lines: regions = the grid's columns (optionally cut into chunks)"""
    cols = sorted({s['col'] for s in cells})
    nid = itertools.count(1)
    regions = []
    chunked = rng.random() < 0.4
    for j in cols:
        members = [s for s in cells if s['col'] == j]
        rng.shuffle(members)
        kids = []
        if chunked and len(members) > 1:
            ordered = sorted(members, key=lambda s: s['row'])
            cut = rng.randint(1, len(ordered) - 1)
            for part in (ordered[:cut], ordered[cut:]):
                rng.shuffle(part)
                kids.append({'id': next(nid), 'type': 'text_region', 'box': _hull([s['box'] for s in part]),
                             'kids': [], 'lines': [s['id'] for s in part]})
            rng.shuffle(kids)
        regions.append({'id': next(nid), 'type': 'column', 'box': _hull([s['box'] for s in members]), 'kids': kids,
                        'lines': [] if kids else [s['id'] for s in members]})
    rng.shuffle(regions)
    if not regions:
        return None, None
    box = _hull([r['box'] for r in regions])
    root_type = rng.choice(['page', 'text_region'])
    if root_type == 'text_region':
        for r in regions:
            r['type'] = 'text_region'
    doc = {'id': 0, 'type': root_type, 'box': box, 'kids': regions, 'lines': []}
    flat = {'id': 0, 'type': 'text_region', 'box': box, 'kids': [], 'lines': [s['id'] for s in cells]}
    return doc, flat


def _rand_tree(rng, specs):
    """random document tree with ties in (top, left); lines distributed over the nodes"""
    nid = itertools.count(1)
    free = [s['id'] for s in specs]
    rng.shuffle(free)
    tops = [rng.randint(0, 300) for _ in range(3)]
    lefts = [rng.randint(0, 300) for _ in range(3)]

    def node(depth, typ):
        t = rng.choice(tops) if rng.random() < 0.4 else rng.randint(0, 300)
        l = rng.choice(lefts) if rng.random() < 0.4 else rng.randint(0, 300)
        box = [l, t, l + rng.randint(0, 200), t + rng.randint(0, 200)]
        nk = 0 if depth >= 3 else rng.choice([0, 0, 1, 2, 3, 4])
        kids = []
        for _ in range(nk):
            kt = rng.choice(['column', 'text_region']) if typ == 'page' else 'text_region'
            k = node(depth + 1, kt)
            if typ == 'page' and rng.random() < 0.2:
                k['extra'] = True
            kids.append(k)
        nl = rng.choice([0, 1, 2, 3]) if typ != 'page' else 0
        mine = [free.pop() for _ in range(min(nl, len(free)))]
        return {'id': next(nid), 'type': typ, 'box': box, 'kids': kids, 'lines': mine}
    return node(0, rng.choice(['page', 'text_region', 'column']))


def _lattice_lines():
    xs = [0, 30, 45, 100]
    ys = [0, 8, 11, 30]
    out = []
    for l, r in itertools.combinations(xs, 2):
        for t, b in itertools.combinations(ys, 2):
            for y in (t, b):
                out.append({'box': [l, t, r, b], 'bl': [[l, y], [r, y]], 'text': 'a'})
    return out


@guarded
class C15(Check):
    pid = 'C15'
    props_module = 'PagexmlModel.Props.C15'
    anchors = {
        'pagexml/helper/pagexml_helper.py': ['horizontal_group_lines', 'sort_lines_in_reading_direction',
                                             'sort_lines_in_row_reading_order', 'sort_lines_in_column_reading_order',
                                             'sort_regions_in_reading_order', 'sort_lines_in_reading_order'],
        'pagexml/model/pagexml_document_model.py': ['PageXMLTextLine.__lt__', 'PageXMLTextLine.is_below',
                                                    'PageXMLTextLine.is_next_to', 'sort_lines',
                                                    'PageXMLTextRegion.__lt__', 'get_horizontal_overlap',
                                                    'get_vertical_overlap', 'get_horizontal_diff_ratio',
                                                    'get_vertical_diff_ratio', 'get_horizontal_diff',
                                                    'get_vertical_diff', 'is_horizontally_overlapping',
                                                    'PageXMLTextRegion.get_lines'],
        'pagexml/model/coords.py': ['baseline_is_below', 'find_baseline_overlap_start_indexes'],
    }
    level_note = ''     # filled in below (after the theorems are known)
    assumptions = [
        'sorted(key=...) / list.sort(key=...) is a stable sort (modelled as List.mergeSort); sorted(reverse=True) keeps '
        'the input order of equal keys',
        'sorted(xs) with __lt__ returns a permutation, and the sorted list when __lt__ is a strict total order on xs '
        '(CPython sort contract, DESIGN 3.6); sampled on every clean column / column row',
        'float comparisons `a / d < 0.2`, `> 0.8`, `> 0.5` agree with exact rational comparison for pixel sizes < 2^26',
        'object identity (`other == self`) is modelled by equality of ids; the harness builds lines with distinct ids',
        'documents have no explicit reading order and no table regions (reading order is C05)',
    ]
    nontrivial_rule = ('distinct inputs; non-trivial = at least two lines (lines/grid), at least two regions (tree/regions), '
                       'or a baseline pair with at least three points in total')

    # ---------------------------------------------------------------- constants regenerated from the source
    def translate(self):
        """the numeric literals the model depends on, read from the working tree with `ast` on every run"""
        from harness import translate as tr
        dm = 'pagexml/model/pagexml_document_model.py'
        co = 'pagexml/model/coords.py'
        nxt = 'PageXMLTextLine.is_next_to'
        max_h = tr.as_int(tr.literal_in(dm, nxt, 'get_horizontal_overlap(self, other) > _N0'))
        tol_top = tr.as_int(tr.literal_in(dm, nxt, 'self.baseline.top > other.baseline.bottom + _N0'))
        tol_bottom = tr.as_int(tr.literal_in(dm, nxt, 'self.baseline.bottom < other.baseline.top - _N0'))
        ratios = tr.literals_in(dm, 'sort_lines', 'vertical_ratio < _N0 and horizontal_ratio > _N1')[0]
        below = tr.literal_in(co, 'baseline_is_below', 'num_below / num_overlap > _N0')
        # PageXMLTextRegion.__lt__ calls is_horizontally_overlapping(self, other): literal passed, or the default
        reg_thr = tr.effective_argument(dm, 'PageXMLTextRegion.__lt__', 'is_horizontally_overlapping', 'threshold', 2, dm)
        # PageXMLTextLine.__lt__ calls sort_lines(self, other, as_column=True): the model fixes as_column = true
        fn = tr.find_def(tr.parse_file(dm), 'PageXMLTextLine.__lt__')
        import ast
        as_col = [k.value for n in ast.walk(fn) if isinstance(n, ast.Call) and isinstance(n.func, ast.Name)
                  and n.func.id == 'sort_lines' for k in n.keywords if k.arg == 'as_column']
        if len(as_col) != 1 or tr.literal(as_col[0]) is not True:
            raise tr.TranslateError('PageXMLTextLine.__lt__: expected one call sort_lines(..., as_column=True)')
        body = tr.HEADER.format(
            src=f'{dm}: PageXMLTextLine.is_next_to (overlap limit, two baseline tolerances), sort_lines (two ratios), '
                f'PageXMLTextRegion.__lt__ -> is_horizontally_overlapping (threshold); {co}: baseline_is_below (ratio)') + (
            'namespace Pagexml.Generated.C15\n\n'
            '/-- `is_next_to`: `get_horizontal_overlap(self, other) > N` means "not next to" -/\n'
            f'def nextToMaxHOverlap : Int := {tr.lean_int(max_h)}\n\n'
            '/-- `is_next_to`: `self.baseline.top > other.baseline.bottom + N` means "not next to" -/\n'
            f'def nextToTolTop : Int := {tr.lean_int(tol_top)}\n\n'
            '/-- `is_next_to`: `self.baseline.bottom < other.baseline.top - N` means "not next to" -/\n'
            f'def nextToTolBottom : Int := {tr.lean_int(tol_bottom)}\n\n'
            '/-- `sort_lines`: `vertical_ratio < p/q` (first half of the "side by side" test) -/\n'
            f'def sortLinesVRatio : Int × Int := {tr.lean_ratio(ratios["_N0"])}\n\n'
            '/-- `sort_lines`: `horizontal_ratio > p/q` (second half) -/\n'
            f'def sortLinesHRatio : Int × Int := {tr.lean_ratio(ratios["_N1"])}\n\n'
            '/-- `baseline_is_below`: `num_below / num_overlap > p/q` -/\n'
            f'def baselineBelowRatio : Int × Int := {tr.lean_ratio(below)}\n\n'
            '/-- threshold (p, q) that reaches `is_horizontally_overlapping` from `PageXMLTextRegion.__lt__` -/\n'
            f'def regionHOverlapThr : Int × Int := {tr.lean_ratio(reg_thr)}\n\n'
            'end Pagexml.Generated.C15\n')
        return {'PagexmlModel/Generated/C15.lean': body}

    # ---------------------------------------------------------------- generation
    _confirmed = 0        # disagreements reported so far in this run (see TIE_CONFIRMED_STOP)
    _tie_requests = 0     # model requests spent on tie orders in this run (see TIE_REQUEST_BUDGET)

    def cases(self, rng: random.Random, tier: str) -> Iterable[Case]:
        quick = tier == 'quick'
        out: List[Case] = []
        # corpus ------------------------------------------------------------------------
        out.append(Case('lines', {'lines': [], 'dx': 5, 'dy': 5}, ['corpus']))
        out.append(Case('lines', {'lines': [{'id': 0, 'box': [0, 0, 10, 10], 'bl': [[0, 8], [10, 8]], 'text': None}],
                                  'dx': 0, 'dy': 0}, ['corpus']))
        # the third line is neither below nor next to the second (vertical overlap, baseline gap > 10)
        out.append(Case('lines', {'lines': [
            {'id': 0, 'box': [0, 0, 100, 30], 'bl': [[0, 25], [100, 25]], 'text': 'a'},
            {'id': 1, 'box': [120, 2, 220, 32], 'bl': [[120, 27], [220, 27]], 'text': ''},
            {'id': 2, 'box': [240, 20, 340, 60], 'bl': [[240, 55], [340, 55]], 'text': 'c'},
            {'id': 3, 'box': [0, 40, 100, 70], 'bl': [[0, 65], [100, 65]], 'text': None}], 'dx': -300, 'dy': 1000},
            ['corpus']))
        # zero-size boxes at one place: ZeroDivisionError in sort_lines; two empty baselines: IndexError
        out.append(Case('lines', {'lines': [
            {'id': 0, 'box': [5, 5, 5, 9], 'bl': [[5, 7]], 'text': 'a'},
            {'id': 1, 'box': [5, 6, 5, 8], 'bl': [[5, 7]], 'text': 'b'},
            {'id': 2, 'box': [0, 3, 9, 3], 'bl': [[0, 3], [9, 3]], 'text': 'c'},
            {'id': 3, 'box': [2, 3, 7, 3], 'bl': [[2, 3], [7, 3]], 'text': 'd'}], 'dx': 7, 'dy': -7},
            ['corpus', 'malformed']))
        for b1, b2 in ([[], []], [[], [[0, 0]]], [[[0, 0]], []], [[], [[0, 0], [1, 1]]], [[[0, 0], [1, 1]], []],
                       [[[0, 1]], [[0, 0]]], [[[0, 1], [5, 1], [9, 0]], [[4, 0], [6, 2]]]):
            out.append(Case('baseline', {'b1': b1, 'b2': b2}, ['corpus']))
        # exhaustive: all ordered pairs of lattice lines (relations around the 40 / 10 pixel thresholds)
        lat = _lattice_lines()
        pairs = [(a, b) for a in lat for b in lat]
        if quick:
            pairs = rng.sample(pairs, 500)
        for a, b in pairs:
            out.append(Case('lines', {'lines': [dict(a, id=0), dict(b, id=1, text=rng.choice(['b', '', None]))],
                                      'dx': rng.randint(-50, 50), 'dy': rng.randint(-50, 50)}, ['lattice-pair']))
        # exhaustive: every input order of small clean grids
        sizes = [4] * 6 if quick else [4] * 4 + [5] * 8 + [6] * 3
        for want in sizes:
            for _try in range(200):
                cells = _rand_grid(rng, 3, 3)
                if len(cells) == want and grid_is_clean(cells) and len({s['row'] for s in cells}) > 1 \
                        and len({s['col'] for s in cells}) > 1:
                    break
            else:
                continue
            base = sorted(cells, key=lambda s: s['id'])
            for perm in itertools.permutations(base):
                out.append(Case('grid', {'cells': [dict(s) for s in perm], 'dx': 0, 'dy': 0, 'docs': False},
                                ['grid-all-orders']))
        # random overlapping line sets (conservation)
        n_lines = 700 if quick else 12000
        for _ in range(n_lines):
            n = rng.choice([0, 1, 2, 3, 40]) if rng.random() < 0.15 else rng.randint(2, 40)
            if rng.random() < 0.5:
                n = min(n, MATRIX_MAX)
            W, H = rng.choice([(500, 300), (150, 60), (2000, 40)])
            out.append(Case('lines', {'lines': _rand_lines(rng, n, W, H), 'dx': rng.randint(-3000, 3000),
                                      'dy': rng.randint(-3000, 3000)}, ['random']))
        # jittered grids
        n_grid = 500 if quick else 9000
        for _ in range(n_grid):
            sloppy = rng.random() < 0.25
            stagger = not sloppy and rng.random() < 0.25
            cells = _rand_grid(rng, sloppy=sloppy, stagger=stagger)
            doc, flat = _grid_docs(rng, cells)
            out.append(Case('grid', {'cells': cells, 'dx': rng.randint(-3000, 3000), 'dy': rng.randint(-3000, 3000),
                                     'docs': True, 'doc': doc, 'flat': flat},
                            ['sloppy' if sloppy else 'staggered' if stagger else 'jittered']))
        # random document trees
        n_tree = 300 if quick else 5000
        for _ in range(n_tree):
            specs = _rand_lines(rng, rng.randint(0, 12))
            for s in specs:
                if s['bl'] is None or not _valid_line(s):
                    s['bl'] = [[s['box'][0], s['box'][3]]]
            out.append(Case('tree', {'lines': specs, 'doc': _rand_tree(rng, specs), 'dx': rng.randint(-500, 500),
                                     'dy': rng.randint(-500, 500)}, ['random']))
        # region comparison / sorted(regions)
        n_reg = 300 if quick else 5000
        for _ in range(n_reg):
            k = rng.randint(0, 7)
            regs = []
            for i in range(k):
                l, t = rng.randint(0, 300), rng.randint(0, 300)
                w = rng.choice([0, 0, 1, 50]) if rng.random() < 0.3 else rng.randint(1, 200)
                regs.append({'id': i, 'box': [l, t, l + w, t + rng.randint(0, 100)]})
            out.append(Case('regions', {'regions': regs, 'dx': rng.randint(-500, 500), 'dy': rng.randint(-500, 500)},
                            ['random']))
        # baseline walks (including point lists emptied after construction)
        n_bl = 500 if quick else 10000
        for _ in range(n_bl):
            def pts():
                k = rng.choice([0, 1, 1, 2, 3, 5, 9]) if rng.random() < 0.4 else rng.randint(1, 6)
                xs = [rng.randint(0, 60) for _ in range(k)]
                if rng.random() < 0.7:
                    xs.sort()
                return [[x, rng.randint(0, 12)] for x in xs]
            out.append(Case('baseline', {'b1': pts(), 'b2': pts()}, ['random']))
        # malformed: lines without baseline, zero-size boxes
        n_mal = 250 if quick else 5000
        for _ in range(n_mal):
            n = rng.randint(1, MATRIX_MAX)
            out.append(Case('lines', {'lines': _rand_lines(rng, n, 200, 100, none_bl=rng.choice([0.0, 0.3]),
                                                           zero=rng.choice([0.0, 0.5])),
                                      'dx': rng.randint(-100, 100), 'dy': rng.randint(-100, 100)}, ['malformed']))
        # ---- cases outside the quantifier (nothing below draws from rng: the streams above are unchanged) ----
        # QUANTIFIER: "all finite sets of lines with positive-size boxes and baselines".  A line without baseline or
        # with an empty box is outside it (whatever the code does there - ZeroDivisionError in sort_lines,
        # AttributeError on baseline None - is no part of the statement), and a Baseline with an empty point list
        # cannot even be constructed (`Baseline([])` raises; the 'baseline' cases empty the list afterwards).  The
        # model still mirrors the code there; a difference is recorded in the evidence, it breaks nothing, and the
        # oracle does not judge these cases.  Decided from the case input, not from the generator stream (a
        # 'malformed' draw whose lines all came out valid stays inside).
        for c in out:
            if c.kind == 'lines' and not all(_valid_line(x) for x in c.input['lines']):
                c.tags.append(OUTSIDE)
            elif c.kind == 'baseline' and (not c.input['b1'] or not c.input['b2']):
                c.tags.append(OUTSIDE)
        # QUANTIFIER: "directions ltr/rtl".  What happens for any other direction string (today: ValueError iff there
        # is at least one group, because the check sits inside the loop over the groups) is outside the statement:
        # observed on a share of the line cases, as cases of their own, tagged OUTSIDE.
        line_cases = [c for c in out if c.kind == 'lines']
        for i, c in enumerate(line_cases):
            if 'corpus' in c.tags or i % 4 == 0:
                out.append(Case('direction', {'lines': c.input['lines'], 'dir': 'xx'}, ['invalid-direction', OUTSIDE]))
        self._confirmed = 0
        self._tie_requests = 0
        return out

    # ---------------------------------------------------------------- implementation
    def impl(self, case: Case) -> Any:
        inp = case.input
        if case.kind == 'lines':
            specs = inp['lines']
            return {'base': _run_lines(specs, 0, 0, len(specs) <= MATRIX_MAX),
                    'shifted': _run_lines(specs, inp['dx'], inp['dy'], False)}
        if case.kind == 'grid':
            cells = inp['cells']
            res = {'base': _run_lines(cells, 0, 0, False), 'shifted': _run_lines(cells, inp['dx'], inp['dy'], False)}
            pdm, h, _ = _real()
            for name, dx, dy in (('base', 0, 0), ('shifted', inp['dx'], inp['dy'])):
                cols = {}
                for s in cells:            # input order inside each column = the shuffled order of the case
                    cols.setdefault(s['col'], []).append(s)
                res[name]['col_sorted'] = {str(j): call(lambda: [_lid(x) for x in sorted(_mk_line(s, dx, dy) for s in cs)])
                                           for j, cs in sorted(cols.items())}
                order = []
                for s in cells:
                    if s['col'] not in order:
                        order.append(s['col'])
                regs = [{'id': j, 'box': _hull([s['box'] for s in cols[j]])} for j in order]
                res[name]['cols_sorted'] = _run_regions(regs, dx, dy)['sorted']
                if inp.get('docs') and inp.get('doc') is not None:
                    res[name]['doc'] = _run_doc(inp['doc'], cells, dx, dy)
                    res[name]['flat'] = _run_doc(inp['flat'], cells, dx, dy)
            return res
        if case.kind == 'direction':
            _, h, _ = _real()
            lines = [_mk_line(x) for x in inp['lines']]
            return {'rd': call(lambda: [_lid(x) for x in h.sort_lines_in_reading_direction(
                lines, reading_direction=inp['dir'])])}
        if case.kind == 'tree':
            return {'base': _run_doc(inp['doc'], inp['lines'], 0, 0),
                    'shifted': _run_doc(inp['doc'], inp['lines'], inp['dx'], inp['dy'])}
        if case.kind == 'regions':
            return {'base': _run_regions(inp['regions'], 0, 0),
                    'shifted': _run_regions(inp['regions'], inp['dx'], inp['dy'])}
        if case.kind == 'baseline':
            pdm, _, coords = _real()

            def mk(pts):
                b = pdm.Baseline([(0, 0)])
                b.points = [tuple(p) for p in pts]      # bypasses the constructor: empty lists possible
                return b
            return call(lambda: bool(coords.baseline_is_below(mk(inp['b1']), mk(inp['b2']))))
        raise ValueError(case.kind)

    # ---------------------------------------------------------------- model
    def requests(self, case: Case):
        inp = case.input

        def rq(op, **args):
            return {'p': 'C15', 'op': op, 'args': args}
        if case.kind in ('lines', 'grid'):
            specs = inp['lines'] if case.kind == 'lines' else inp['cells']
            ml = [_model_line(s) for s in specs]
            reqs = [rq('group_lines', lines=ml), rq('reading_direction', lines=ml, dir='ltr'),
                    rq('reading_direction', lines=ml, dir='rtl'), rq('sort_lines', lines=ml)]
            if case.kind == 'lines':
                if len(specs) <= MATRIX_MAX:
                    reqs.append(rq('line_rel', lines=ml))
            elif inp.get('docs') and inp.get('doc') is not None:
                by_id = {s['id']: s for s in specs}
                for key in ('doc', 'flat'):
                    reqs.extend(self._doc_requests(inp[key], by_id))
            return reqs
        if case.kind == 'direction':
            return [rq('reading_direction', lines=[_model_line(x) for x in inp['lines']], dir=inp['dir'])]
        if case.kind == 'tree':
            return self._doc_requests(inp['doc'], {s['id']: s for s in inp['lines']})
        if case.kind == 'regions':
            return [rq('sort_regions', regions=inp['regions']), rq('region_rel', regions=inp['regions'])]
        if case.kind == 'baseline':
            return [rq('baseline_below', b1=inp['b1'], b2=inp['b2'])]
        return []

    def _doc_requests(self, tree, by_id):
        mt = _model_tree(tree, by_id)
        reqs = [{'p': 'C15', 'op': 'regions_ro', 'args': {'doc': mt}}]
        for d in ('ltr', 'rtl'):
            reqs.append({'p': 'C15', 'op': 'column_order', 'args': {'doc': mt, 'dir': d}})
            if tree['type'] != 'page':
                reqs.append({'p': 'C15', 'op': 'row_order', 'args': {'doc': mt, 'dir': d}})
        # the dispatcher sort_lines_in_reading_order (Model: sortLinesInReadingOrder), every option combination
        for d in ('ltr', 'rtl'):
            reqs.append({'p': 'C15', 'op': 'reading_order', 'args': {'doc': mt, 'dir': d, 'row': False}})
            if tree['type'] != 'page':
                reqs.append({'p': 'C15', 'op': 'reading_order', 'args': {'doc': mt, 'dir': d, 'row': True}})
        return reqs

    # ---- comparison up to the processing order of exact ties (see "tie orders" at the top of the module) ----
    def _some_tie_order(self, targets, n, likely, rest, left_of) -> Optional[str]:
        """targets: (name, impl value, model value on the input as given, order -> model request), all functions of
        the same input.  n = number of orders the statement leaves open on this input (1 = no tie: the comparison
        is exact); `likely` (a few natural tie-breaks, tried first) and `rest` yield the reordered inputs.
        None iff every target's implementation value equals the model's answer on one of the orders (above the cap:
        iff it agrees with the model as far as the statement goes).  Each function is matched on its own: nothing
        in the statement ties the order one call takes to the order another call takes."""
        todo = [t for t in targets if t[1] != t[2]]
        if not todo:
            return None
        nm, impl_val, model_val, _ = todo[0]
        exact = f'{nm}: impl={impl_val} model={model_val}'
        if n <= 1:
            return exact
        if self._confirmed >= TIE_CONFIRMED_STOP:
            return exact + f' [input has {n} tie orders; not tried, {self._confirmed} disagreements are reported already]'
        if n <= TIE_ORDER_CAP and self._tie_requests < TIE_REQUEST_BUDGET:
            it = iter(rest)
            chunk = list(likely)
            while todo:
                if chunk:
                    self._tie_requests += len(chunk) * len(todo)
                    answers = run_driver([t[3](o) for o in chunk for t in todo])
                    todo = [t for j, t in enumerate(todo) if t[1] not in answers[j::len(todo)]]
                    if not todo:
                        return None
                chunk = list(itertools.islice(it, TIE_CHUNK))
                if not chunk:
                    break
            nm, impl_val, model_val, _ = todo[0]
            return (f'{nm}: impl={impl_val} equals the model on none of the {n} processing orders of the lines / regions '
                    f'with equal keys; model on the input order={model_val}')
        for nm, impl_val, model_val, _ in todo:
            if _partition_level(nm, impl_val, left_of) != _partition_level(nm, model_val, left_of):
                return f'{nm} (compared as partition / permutation, {n} tie orders): impl={impl_val} model={model_val}'
        return None

    def _cmp_line_fns(self, specs, triples, exact_only) -> Optional[str]:
        """triples: (groups | rd_ltr | rd_rtl, impl value, model value) of one line list"""
        if exact_only:
            for nm, impl_val, model_val in triples:
                if impl_val != model_val:
                    return f'{nm}: impl={impl_val} model={model_val}'
            return None
        ml = [_model_line(x) for x in specs]
        ties = _line_ties(ml)

        def mk(nm):
            op, args = ('group_lines', {}) if nm == 'groups' else ('reading_direction', {'dir': nm[3:]})
            return lambda o: {'p': 'C15', 'op': op, 'args': dict(args, lines=o)}
        return self._some_tie_order([(nm, i, m, mk(nm)) for nm, i, m in triples], _n_orders(ties),
                                    _likely_orders(ml, ties), itertools.islice(_reorderings(ml, ties), 1, None),
                                    {x['id']: x['box'][0] for x in specs})

    def _cmp_doc(self, impl_doc, answers, mt, exact_only) -> Optional[str]:
        """regions_ro / column_<dir> / row_<dir> of a document; `mt` is the model tree the answers were computed on.
        STATEMENT: "column reading order visits regions by top edge, then left edge" - the order of regions with
        different (top, left) is fixed and compared exactly; sibling regions that agree in BOTH are a tie the
        statement does not break (the code keeps their collection order: columns, text_regions, extra).  The lines of
        each region go through sort_lines_in_reading_direction, i.e. horizontal_group_lines: tie orders as above."""
        names = ['regions_ro']
        for d in ('ltr', 'rtl'):
            names.append('column_' + d)
            if 'row_' + d in impl_doc:
                names.append('row_' + d)
        # the dispatcher sort_lines_in_reading_order(doc, row_order, reading_direction) has a model of its own
        # (sortLinesInReadingOrder, op reading_order: row order iff row_order, column order otherwise, in the direction
        # asked for); the real answers with the options by keyword (disp_*) and by position (pos_*) are compared with it
        entries = [(nm, nm, a) for nm, a in zip(names, answers)]
        for nm, a in zip(names[1:], answers[len(names):]):
            for pre in ('disp_', 'pos_'):
                if pre + nm in impl_doc:
                    entries.append((pre + nm, nm, a))
        for shown, nm, a in entries:
            if impl_doc[shown] == a:
                continue
            if exact_only:
                return f'{shown}: impl={impl_doc[shown]} model={a}'
            left_of = {l['id']: l['box'][0] for l in _get_lines(mt)}
            if nm.startswith('row_'):
                # row order = sort_lines_in_reading_direction(doc.get_lines()): the ties are those of the flat list
                flat = _get_lines(mt)

                def mk(o, d=nm[4:]):
                    return {'p': 'C15', 'op': 'reading_direction', 'args': {'lines': o, 'dir': d}}
                ties = _line_ties(flat)
                n = _n_orders(ties)
                if 1 < n <= TIE_ORDER_CAP and self._confirmed < TIE_CONFIRMED_STOP and run_driver([mk(flat)])[0] != a:
                    return f'{nm}: the harness\'s get_lines order {[l["id"] for l in flat]} is not the model\'s'
                likely, rest = _likely_orders(flat, ties), itertools.islice(_reorderings(flat, ties), 1, None)
            else:
                lines_matter = nm != 'regions_ro'
                n = _tree_n(mt, lines_matter)
                likely = []
                rest = itertools.islice(_tree_variants(mt, lines_matter), 1, None) if 1 < n <= TIE_ORDER_CAP else []
                if nm == 'regions_ro':
                    def mk(o):
                        return {'p': 'C15', 'op': 'regions_ro', 'args': {'doc': o}}
                else:
                    def mk(o, d=nm[7:]):
                        return {'p': 'C15', 'op': 'column_order', 'args': {'doc': o, 'dir': d}}
            diff = self._some_tie_order([(shown, impl_doc[shown], a, mk)], n, likely, rest, left_of)
            if diff:
                return diff
        return None

    @staticmethod
    def _cmp_sorted(impl_sorted, model_sorted, lt_impl, lt_model) -> Optional[str]:
        """sorted() with __lt__: exact when __lt__ is a strict total order on the input (taken from the real
        comparison matrix), otherwise only as a permutation (CPython compares other pairs than the model)"""
        def errs(m):
            return {v for row in (m or []) for v in row if isinstance(v, str)}
        if lt_impl is not None:
            n = len(lt_impl)
            clean = not errs(lt_impl)
            total = clean and all(not lt_impl[i][i] for i in range(n)) and all(
                lt_impl[i][j] != lt_impl[j][i] for i in range(n) for j in range(n) if i != j) and all(
                not (lt_impl[i][j] and lt_impl[j][k]) or lt_impl[i][k]
                for i in range(n) for j in range(n) for k in range(n))
            if total:
                return None if impl_sorted == model_sorted else f'sorted (strict total order): impl={impl_sorted} model={model_sorted}'
        if 'ok' in impl_sorted and 'ok' in model_sorted:
            return None if sorted(impl_sorted['ok']) == sorted(model_sorted['ok']) else \
                f'sorted (as multiset): impl={impl_sorted} model={model_sorted}'
        if lt_model is not None:
            e = impl_sorted.get('err') or model_sorted.get('err')
            return None if e in errs(lt_model) else f'sorted: error {e} not produced by any comparison of the model'
        return None

    def compare(self, case, impl_out, model_out):
        d = self._compare(case, impl_out, model_out)
        if d is not None and OUTSIDE not in case.tags:
            self._confirmed += 1
        return d

    def _compare(self, case, impl_out, model_out):
        if case.kind in ('lines', 'grid'):
            b = impl_out['base']
            specs = case.input['lines'] if case.kind == 'lines' else case.input['cells']
            # STATEMENT: for clean layouts the orders are fixed completely (row-major, rows reversed ...): a clean
            # grid is compared exactly whatever ties it has.  Everything else is the conservation part, where the
            # processing order of lines with exactly equal top is open (see "tie orders" at the top of the module).
            clean = case.kind == 'grid' and grid_is_clean(specs)
            d = self._cmp_line_fns(specs, [(nm, b[nm], a) for nm, a in zip(['groups', 'rd_ltr', 'rd_rtl'], model_out[:3])],
                                   exact_only=clean)
            if d:
                return d
            # is_below / is_next_to / __lt__ and sorted(lines) do not depend on any processing order: exact
            rel = None
            rest = model_out[4:]
            if case.kind == 'lines' and len(case.input['lines']) <= MATRIX_MAX:
                rel = rest[0]['ok']
                for nm in ('below', 'next_to', 'lt'):
                    if b[nm] != rel[nm]:
                        return f'{nm} matrix: impl={b[nm]} model={rel[nm]}'
            d = self._cmp_sorted(b['sorted'], model_out[3], b.get('lt'), rel['lt'] if rel else None)
            if d:
                return d
            if case.kind == 'grid' and 'doc' in b:
                n = 9 if case.input['doc']['type'] != 'page' else 5     # requests of _doc_requests for the document
                by_id = {x['id']: x for x in specs}
                return self._cmp_doc(b['doc'], rest[:n], _model_tree(case.input['doc'], by_id), clean) or \
                    self._cmp_doc(b['flat'], rest[n:], _model_tree(case.input['flat'], by_id), clean)
            return None
        if case.kind == 'direction':
            return None if impl_out['rd'] == model_out[0] else f'rd_{case.input["dir"]}: impl={impl_out["rd"]} model={model_out[0]}'
        if case.kind == 'tree':
            by_id = {x['id']: x for x in case.input['lines']}
            return self._cmp_doc(impl_out['base'], model_out, _model_tree(case.input['doc'], by_id), False)
        if case.kind == 'regions':
            b = impl_out['base']
            if b['lt'] != model_out[1]['ok']['lt']:
                return f'region lt matrix: impl={b["lt"]} model={model_out[1]["ok"]["lt"]}'
            return self._cmp_sorted(b['sorted'], model_out[0], b['lt'], None)
        if case.kind == 'baseline':
            return None if impl_out == model_out[0] else f'impl={impl_out} model={model_out[0]}'
        return None

    # ---------------------------------------------------------------- oracle
    def oracle(self, case: Case, out: Any) -> List[Finding]:
        fs: List[Finding] = []

        def bad(key, what):
            fs.append(Finding(f'C15:{key}', what, case, out))
        inp = case.input
        if case.kind in ('lines', 'grid'):
            specs = inp['lines'] if case.kind == 'lines' else inp['cells']
            if OUTSIDE in case.tags or not all(_valid_line(s) for s in specs):
                return fs                       # outside the quantifier (no baseline / empty box): not judged
            by_id = {s['id']: s for s in specs}
            with_text = sorted(s['id'] for s in specs if s.get('text') is not None)
            for name in ('base', 'shifted'):
                o = out[name]
                for fn in ('groups', 'rd_ltr', 'rd_rtl'):
                    if 'ok' not in o[fn]:
                        bad(f'error-on-valid:{fn}', f'{fn} raised {o[fn]} on lines with boxes and baselines')
                if 'ok' in o['groups']:
                    gs = o['groups']['ok']
                    if sorted(i for g in gs for i in g) != with_text:
                        bad('groups-partition', f'groups {gs} do not partition the lines with text {with_text}')
                    if any(len(g) == 0 for g in gs):
                        bad('groups-partition', 'empty group')
                    for g in gs:
                        lefts = [by_id[i]['box'][0] for i in g if i in by_id]
                        if any(lefts[k] > lefts[k + 1] for k in range(len(lefts) - 1)):
                            bad('group-order', f'group {g} is not ordered left to right')
                for d in ('ltr', 'rtl'):
                    if 'ok' in o['rd_' + d] and sorted(o['rd_' + d]['ok']) != with_text:
                        bad(f'direction-perm:{d}', f'{d} order {o["rd_" + d]["ok"]} is not a permutation of {with_text}')
            for name in ('base', 'shifted'):
                if out[name].get('history'):
                    bad('history:lines', f'used objects ({name}): {out[name]["history"][:3]}')
            for fn in ('groups', 'rd_ltr', 'rd_rtl', 'sorted'):
                if out['base'][fn] != out['shifted'][fn]:
                    bad(f'translate:{fn}', f'{fn} changes under translation by ({inp["dx"]},{inp["dy"]}): '
                                           f'{out["base"][fn]} vs {out["shifted"][fn]}')
        if case.kind == 'grid':
            cells = inp['cells']
            if OUTSIDE not in case.tags and all(_valid_line(s) for s in cells):
                for name in ('base', 'shifted'):
                    for which in ('doc', 'flat'):
                        if out[name].get(which, {}).get('history'):
                            bad('history:document', f'used document ({which}, {name}): {out[name][which]["history"][:3]}')
            for fn in ('col_sorted', 'cols_sorted', 'doc', 'flat'):
                if fn in out['base'] and out['base'][fn] != out['shifted'].get(fn):
                    bad(f'translate:{fn}', f'{fn} changes under translation by ({inp["dx"]},{inp["dy"]})')
            if grid_is_clean(cells):
                txt = [s for s in cells if s.get('text') is not None]
                row_major = [s['id'] for s in sorted(txt, key=lambda s: (s['row'], s['col']))]
                rows_rev = [s['id'] for s in sorted(txt, key=lambda s: (s['row'], -s['col']))]
                o = out['base']
                if o['rd_ltr'].get('ok') != row_major:
                    bad('grid:ltr-row-major', f'ltr order {o["rd_ltr"]} is not row-major {row_major}')
                if o['rd_rtl'].get('ok') != rows_rev:
                    bad('grid:rtl-reverses-rows', f'rtl order {o["rd_rtl"]} is not rows reversed {rows_rev}')
                for j, got in o['col_sorted'].items():
                    exp = [s['id'] for s in sorted((s for s in cells if s['col'] == int(j)), key=lambda s: s['row'])]
                    if got.get('ok') != exp:
                        bad('grid:column-top-to-bottom', f'sorted(lines of column {j}) = {got}, top to bottom is {exp}')
                exp_cols = sorted({s['col'] for s in cells})
                if o['cols_sorted'].get('ok') != exp_cols:
                    bad('grid:columns-left-to-right', f'sorted(columns) = {o["cols_sorted"]}, left to right is {exp_cols}')
                if 'doc' in o:
                    fs.extend(self._oracle_doc(case, out, inp['doc'], o['doc'], cells, 'doc'))
                    fs.extend(self._oracle_doc(case, out, inp['flat'], o['flat'], cells, 'flat'))
        if case.kind in ('tree', 'regions'):
            for name in ('base', 'shifted'):
                if out[name].get('history'):
                    bad('history:' + case.kind, f'used objects ({name}): {out[name]["history"][:3]}')
            for fn in out['base']:
                if fn != 'lt' and out['base'][fn] != out['shifted'][fn]:
                    bad(f'translate:{fn}', f'{fn} changes under translation by ({inp["dx"]},{inp["dy"]})')
        return fs

    def _oracle_doc(self, case, out, tree, o, cells, which) -> List[Finding]:
        """clean grid documents: regions visited by (top, left) at every level, lines inside top to bottom
        (row-major over the lines of each leaf region), row order row-major over all lines"""
        fs: List[Finding] = []
        by_id = {s['id']: s for s in cells}

        def expected_leaves(t) -> Optional[list]:
            if not t['kids']:
                return [t]
            keys = [(k['box'][1], k['box'][0]) for k in _model_kids(t)]
            if len(set(keys)) != len(keys):
                return None                 # ties: the statement fixes no order
            res = []
            for k in sorted(_model_kids(t), key=lambda k: (k['box'][1], k['box'][0])):
                sub = expected_leaves(k)
                if sub is None:
                    return None
                res += sub
            return res
        leaves = expected_leaves(tree)
        if leaves is None:
            return fs
        if o['regions_ro'].get('ok') != [t['id'] for t in leaves]:
            fs.append(Finding('C15:grid:regions-top-left', f'{which}: regions {o["regions_ro"]} not in (top, left) order '
                                                            f'{[t["id"] for t in leaves]}', case, out))
        for d, sign in (('ltr', 1), ('rtl', -1)):
            exp = []
            for t in leaves:
                ls = [by_id[i] for i in t['lines'] if by_id[i].get('text') is not None]
                exp += [s['id'] for s in sorted(ls, key=lambda s: (s['row'], sign * s['col']))]
            # every entry point: the function itself, and the dispatcher with the options by keyword / by position
            for pre, via in (('', ''), ('disp_', ' via sort_lines_in_reading_order(row_order=False)'),
                             ('pos_', ' via sort_lines_in_reading_order(doc, False, dir)')):
                if pre + 'column_' + d in o and o[pre + 'column_' + d].get('ok') != exp:
                    fs.append(Finding('C15:grid:column-reading-order' + (':dispatcher' if pre else ''),
                                      f'{which}: column reading order ({d}){via} {o[pre + "column_" + d]} '
                                      f'expected {exp}', case, out))
            allv = [s for t in _tree_nodes(tree) for s in (by_id[i] for i in t['lines']) if s.get('text') is not None]
            expr = [s['id'] for s in sorted(allv, key=lambda s: (s['row'], sign * s['col']))]
            for pre, via in (('', ''), ('disp_', ' via sort_lines_in_reading_order(row_order=True)'),
                             ('pos_', ' via sort_lines_in_reading_order(doc, True, dir)')):
                if pre + 'row_' + d in o and o[pre + 'row_' + d].get('ok') != expr:
                    fs.append(Finding('C15:grid:row-reading-order' + (':dispatcher' if pre else ''),
                                      f'{which}: row reading order ({d}){via} {o[pre + "row_" + d]} '
                                      f'expected {expr}', case, out))
        return fs

    # ---------------------------------------------------------------- bookkeeping
    def nontrivial(self, case: Case) -> bool:
        if case.kind in ('lines', 'direction'):
            return len(case.input['lines']) >= 2
        if case.kind == 'grid':
            return len(case.input['cells']) >= 2
        if case.kind == 'tree':
            return len(list(_tree_nodes(case.input['doc']))) >= 2
        if case.kind == 'regions':
            return len(case.input['regions']) >= 2
        if case.kind == 'baseline':
            return len(case.input['b1']) + len(case.input['b2']) >= 3
        return True

    def shrink_candidates(self, case: Case):
        inp = case.input
        if case.kind == 'lines':
            ls = inp['lines']
            for i in range(len(ls)):
                yield Case('lines', dict(inp, lines=ls[:i] + ls[i + 1:]), case.tags)
            if inp['dx'] or inp['dy']:
                yield Case('lines', dict(inp, dx=0, dy=0), case.tags)
        elif case.kind == 'grid':
            cs = inp['cells']
            if inp.get('docs'):
                yield Case('grid', {'cells': cs, 'dx': inp['dx'], 'dy': inp['dy'], 'docs': False}, case.tags)

            def without(drop):
                rest = [s for s in cs if s['id'] not in drop]
                new = dict(inp, cells=rest)
                if inp.get('docs') and inp.get('doc') is not None:
                    keep = {s['id'] for s in rest}
                    by_id = {s['id']: s for s in cs}
                    new['doc'] = _prune_tree(inp['doc'], keep, by_id)
                    new['flat'] = _prune_tree(inp['flat'], keep, by_id)
                    if not new['doc']['kids']:
                        new['docs'] = False
                return Case('grid', new, case.tags)
            for r in sorted({s['row'] for s in cs}):
                yield without({s['id'] for s in cs if s['row'] == r})
            for c in sorted({s['col'] for s in cs}):
                yield without({s['id'] for s in cs if s['col'] == c})
            for s0 in cs:
                yield without({s0['id']})
            if inp['dx'] or inp['dy']:
                yield Case('grid', dict(inp, dx=0, dy=0), case.tags)
        elif case.kind == 'regions':
            rs = inp['regions']
            for i in range(len(rs)):
                yield Case('regions', dict(inp, regions=rs[:i] + rs[i + 1:]), case.tags)


C15.level_note = (
    'proved in Lean for all inputs, no size bound (Props/C15.lean): conservation of horizontal_group_lines / '
    'sort_lines_in_reading_direction for every finite line list and parametrically in is_below / is_next_to (groups '
    'partition the lines with text, no empty group, groups sorted by left, ltr/rtl output a permutation, invalid direction '
    '-> ValueError iff there is a group); totality of baseline_is_below exactly for non-empty baselines (IndexError '
    'otherwise); for every shuffle of every clean arrangement (CleanRows / CleanColumn / CleanColumns / CleanGrid with missing '
    'cells, any size): groups = rows, ltr row-major, rtl rows reversed, sorted(lines of a column) top to bottom, '
    'sorted(column regions) left to right, column reading order by (top, left) at every nesting level with the lines of '
    'each leaf region row-major, row reading order row-major; translation invariance of every relation and ordering '
    'function for all inputs. '
    'Assumed, sampled by the correspondence: sorted() with __lt__ obeys the sort contract of DESIGN 3.6 (the theorems hold '
    'for every sort function meeting it; a stable insertion sort is proved to meet it); float threshold comparisons equal '
    'the exact rational ones; object identity = id equality. Not modelled: explicit reading order (C05), table regions, '
    'PageXMLPage.get_lines (row order is modelled for text-region / column roots), combine_adjacent_lines (not part of the '
    'statement). The numeric literals of the source (overlap limit 40 and the two tolerances 10 of is_next_to, the '
    'ratios 0.2 / 0.8 of sort_lines, 0.5 of baseline_is_below, the threshold with which PageXMLTextRegion.__lt__ reaches '
    'is_horizontally_overlapping) are REGENERATED from the working tree on every run (translate() -> Generated/C15.lean); '
    'all proofs treat them as unknown numbers except the named relations C15_consts_* (two tolerances equal, limit >= 0, '
    'ratio in [0,1), threshold >= 0, tolerance >= the 10 px of the oracle\'s reading of "aligned rows"), each decided on '
    'the regenerated table. '
    'Correspondence level: id sequences are compared exactly, except that the results downstream of '
    'horizontal_group_lines (groups, ltr/rtl reading direction, column / row reading order of documents) are compared up '
    'to the processing order of lines with text and EXACTLY equal top on inputs that are not clean grids (the '
    'implementation must equal the model on some order of the tied lines: all orders are tried up to 720, above that only '
    'partition / left-to-right / permutation are compared), and sort_regions_in_reading_order up to the order of sibling '
    'regions with equal (top, left); clean grids, inputs without such ties, the relation matrices and sorted() are exact. '
    'Lines without baseline or with an empty box, emptied baselines and direction strings other than ltr/rtl lie outside '
    'the quantifier: observed and recorded only. Entry points (wave 4): the dispatcher sort_lines_in_reading_order is '
    'modelled (sortLinesInReadingOrder: row order iff row_order, else column order, direction handed on; '
    'C15_dispatcher_row_order / _column_order / _is_row_or_column) and called with every combination of row_order and '
    'ltr/rtl, options by keyword and by position. Histories: every function is called again on the same line list / '
    'the same document object after all the others, in a case-dependent order, twice; the answers must be those on '
    'fresh objects and ids, texts, boxes and the order of children must be unchanged (metadata is not observed)')

CHECK = C15()
