"""C08 — Tables are parsed into a faithful row/column grid."""
from __future__ import annotations

import glob
import itertools
import json
import os
import random
import xml.etree.ElementTree as ET
from typing import Any, Dict, Iterable, List

from harness.core import Case, Finding, OUTSIDE, VERIF, call, canon
from harness.props._doc import (DocCheck, Gen, r_doc, all_paths, node_at, random_mutation, mark_nonconformant,
                                apply_mutation, serialise, dump_scan, dump_extra)
from harness.props.c01 import _kids, _points, _text_equiv, read_line, read_doc, has_content

CORPUS = os.path.join(VERIF, 'harness', 'corpus', 'C08')


def read_tables(xml: str):
    root = ET.fromstring(xml.encode('utf-8'))
    page = _kids(root, 'Page')[0]
    tables = []
    for t in _kids(page, 'TableRegion'):
        cells = []
        for c in _kids(t, 'TableCell'):
            cells.append({'id': c.get('id'), 'row': int(c.get('row')), 'col': int(c.get('col')),
                          'lines': [read_line(l) for l in _kids(c, 'TextLine')]})
        tables.append({'id': t.get('id'), 'cells': cells})
    return tables


def listing_in_quantifier(rc: List[List[int]]) -> bool:
    """the statement's quantifier on the (row, col) pairs of a TableRegion's cells IN FILE ORDER: "cells are listed in
    row-major order" (row by row, the columns of a row left to right: the pairs ascend strictly in lexicographic
    order) "and … some row is complete" (with c = the size of the fullest row, some row holds the columns 0 … c-1 and
    no cell lies at a column >= c); r >= 1, c >= 1"""
    if not rc or any(a >= b for a, b in zip(rc, rc[1:])):
        return False
    rows: Dict[int, List[int]] = {}
    for r, c in rc:
        rows.setdefault(r, []).append(c)
    ncols = max(len(v) for v in rows.values())
    return all(0 <= c < ncols for v in rows.values() for c in v) and any(v == list(range(ncols)) for v in rows.values())


def tree_tables_in_quantifier(tree) -> bool:
    """every TableRegion of an element tree lists its cells as the quantifier says (cells without integer row / col
    are caught by _doc.nonconformant)"""
    ok = True

    def go(n):
        nonlocal ok
        if n['t'] == 'TableRegion':
            rc = []
            for k in n['c']:
                if k['t'] == 'TableCell':
                    a = dict(map(tuple, k['a']))
                    try:
                        rc.append([int(a['row']), int(a['col'])])
                    except (KeyError, ValueError):
                        return
            if not listing_in_quantifier(rc):
                ok = False
        for k in n['c']:
            go(k)
    go(tree)
    return ok


def words_of_line(l) -> int:
    if l['words']:
        return len(l['words'])
    t = (l['te'] or {}).get('text') or ''
    return len(t.split(' ')) if t else 0


def region_lines(r):
    out = []
    for s in r['regions']:
        out += region_lines(s)
    return out + r['lines']


def table_variants(src) -> List[Dict[str, Any]]:
    """other documents whose tables carry the SAME ids as those of `src` but have another shape (used to parse several
    documents one after the other in one process): (1) the tables in the opposite order, each cut down to its first
    complete row, no text regions; (2) every table with one more, complete and WIDER row at the end.  Both keep the
    quantifier: cells in row-major order, some row complete."""
    def rows_of(t):
        rows: Dict[int, List[Any]] = {}
        for c in t['cells']:
            rows.setdefault(c['row'], []).append(c)
        return rows

    def cut(t):
        rows = rows_of(t)
        if not rows:
            return t
        ncols = max(len(v) for v in rows.values())
        for v in rows.values():
            if [c['col'] for c in v] == list(range(ncols)):
                return dict(t, cells=list(v))
        return t

    def widen(t, k):
        rows = rows_of(t)
        if not rows:
            return t
        ncols = max(len(v) for v in rows.values())
        proto = t['cells'][0]
        new_row = [dict(proto, id=f'xc{k}-{j}', row=max(rows) + 1, col=j, row_span=None, col_span=None, header=None,
                        orientation=None, corner=None, custom=None, lines=[]) for j in range(ncols + 1)]
        return dict(t, cells=list(t['cells']) + new_row)
    return [dict(src, tables=[cut(t) for t in reversed(src['tables'])], regions=[], ro={'kind': 'absent'}),
            dict(src, tables=[widen(t, k) for k, t in enumerate(src['tables'])])]


def without_row_ids(v):
    """a scan dump / model answer (any nesting) with the `id` of every table ROW removed: a row is recognised as an
    entry of a table's `rows` list (dump_table / Drv.Doc.jRow: id, coords, cells, column_cells, row_idx)"""
    if isinstance(v, list):
        return [without_row_ids(x) for x in v]
    if isinstance(v, dict):
        out = {k: without_row_ids(x) for k, x in v.items()}
        if isinstance(out.get('rows'), list):
            out['rows'] = [{k: x for k, x in r.items() if k != 'id'} if isinstance(r, dict) and 'row_idx' in r else r
                           for r in out['rows']]
        return out
    return v


class C08(DocCheck):
    pid = 'C08'
    model_pid = 'C08'
    props_module = 'PagexmlModel.Props.C08'
    anchors = {
        'pagexml/parser.py': ['parse_tableregion', 'parse_table_cell', 'parse_corner_points', 'make_rows_from_cells',
                              'parse_pagexml_json'],
        'pagexml/model/pagexml_document_model.py': [
            'PageXMLTableRegion.__init__', 'PageXMLTableRegion.shape', 'PageXMLTableRegion.values',
            'PageXMLTableRegion.num_columns', 'PageXMLTableRegion.__getitem__', 'PageXMLTableRegion.stats',
            'PageXMLTableRow.__init__', 'PageXMLTableRow.pad_columns', 'PageXMLTableRow.values',
            'PageXMLTableRow.__getitem__', 'PageXMLTableRow.num_columns', 'PageXMLTableCell.__init__',
            'PageXMLTableCell.get_words', 'get_num_columns', 'PageXMLTextRegion.__init__'],
    }
    level_note = (
        'proved for every source table (any number of rows / columns / cells, unbounded): parseTable(toDict(render t)) = '
        'mirrorTable t, with the single-cell (dict, not list) case an explicit proof case, and the whole scan with tables '
        'next to text regions; under RowMajor (columns < c, strictly ascending within a row, some row complete): one row per '
        'distinct row index, shape = (#rows, c), table[i][j] = the cell with those indices or the empty placeholder, values '
        'rows x c with the space-joined texts of the lines that have a text (a cell line without TextEquiv or with an empty '
        'Unicode is kept as a line and contributes nothing to the value) / "", cell and line counts equal to the source; NOT proved (sampled by '
        'the oracle only): the word count of stats, scan.stats, and that shape / values survive the JSON round trip (C06); '
        'correspondence: tables whose cells are NOT listed in row-major order (pairs (row, col) strictly ascending in file '
        'order) or that have no complete row, and mutated tables that are no conformant TableRegion any more, are outside the '
        'quantifier — the model (which mirrors first-occurrence grouping) is still run on them but a difference is recorded '
        'in the evidence only; two rejections agree whatever the exception class; extra scan.metadata keys are ignored; the '
        'rows of a table are compared without their id (no clause reads the id of a row: PageXML has no row element; '
        'row_idx, coordinates, cells and column_cells of every row stay compared exactly). '
        'Histories (wave 4): every document is parsed a second and a third time in the same process, its tables are read '
        'again after shape / values / [r][c] / stats / the JSON round trip were taken once, and documents whose tables '
        'have the same ids but another shape (one row only; one more and wider row) are parsed in between — each look is '
        'judged against its own source text (the model is pure)')
    assumptions = [
        'the C01 model of xmltodict and of the text-line parser (shared; validated on the same documents)',
        'the hull routine is a function of its input point list (row coordinates; C09)',
        'str.isdigit coincides with ASCII digits on the generated CornerPts texts',
    ]
    nontrivial_rule = 'distinct documents with a table of at least two cells'

    # ---------------------------------------------------------------- generation
    def cases(self, rng: random.Random, tier: str) -> Iterable[Case]:
        out: List[Case] = []
        for path in sorted(glob.glob(os.path.join(CORPUS, '*.json'))):
            c = json.load(open(path, encoding='utf-8'))['case']
            out.append(Case(c['kind'], c['input'], list(c.get('tags', [])) + ['corpus']))
        gen = Gen(rng)
        seq = itertools.count(1)

        def plain_text():
            return ' '.join(gen.word() for _ in range(rng.randint(1, 4)))

        def tline():
            l = gen.line(need_text=True)
            l['te']['unicode'] = plain_text()
            l['te']['plain'] = None
            for w in l['words']:
                if w['te'] is not None:
                    w['te']['unicode'] = gen.word()
            return l

        def textless(l):
            """a cell line without text: no TextEquiv at all, or an empty Unicode element"""
            if rng.random() < 0.5:
                return dict(l, te=None)
            return dict(l, te=dict(l['te'], unicode='', plain=None))

        def cell(i, j, nlines=None, bare=False):
            c = gen.cell(i, j)
            n = rng.choice([0, 1, 1, 3]) if nlines is None else nlines
            # cells with zero, one or several lines; a line may lack a text (d748213)
            c['lines'] = [textless(tline()) if rng.random() < 0.15 else tline() for _ in range(n)]
            if bare:
                c.update(row_span=None, col_span=None, header=None, orientation=None, corner=None)
            return c

        def table(r, c, mask, bare=False, rowmap=None):
            cells = [cell(i if rowmap is None else rowmap[i], j, bare=bare)
                     for i in range(r) for j in range(c) if mask[i][j]]
            return {'id': gen.uid('t') if rng.random() < 0.9 else None, 'orientation': rng.choice([None, None, '0.0', '45']),
                    'custom': None, 'coords': gen.rect() if rng.random() < 0.8 else None, 'cells': cells}

        def page(tables, nregions=0):
            regions = [gen.conformant_region(rng.randint(0, 1)) for _ in range(nregions)]
            return {'ns2019': rng.random() < 0.5, 'meta': None, 'image_filename': 'img.jpg', 'width': 4000, 'height': 4000,
                    'ro_first': rng.random() < 0.5, 'ro': gen.ro_for(regions, rng.choice(['absent', 'full'])),
                    'regions': regions, 'tables': tables}

        def doc(src, *tags, **kw):
            out.append(Case('doc', dict({'src': src, 'fname': 'tab_%d.xml' % next(seq), 'seed': rng.randrange(10 ** 9)}, **kw),
                            list(tags) + ['expect-mirror']))

        # -- exhaustive sparsity masks with at least one complete row
        limit = 6 if tier == 'quick' else 9
        for r in range(1, 7):
            for c in range(1, 7):
                if r * c > limit:
                    continue
                for bits in itertools.product([0, 1], repeat=r * c):
                    mask = [list(bits[i * c:(i + 1) * c]) for i in range(r)]
                    if not any(all(row) for row in mask) or not all(any(row) for row in mask):
                        continue
                    doc(page([table(r, c, mask, bare=rng.random() < 0.5)]), 'mask', f'{r}x{c}')
        # -- single cell / single row / single column, every optional attribute toggled
        for _ in range(8 if tier == 'quick' else 60):
            doc(page([table(1, 1, [[1]])]), 'single-cell')
            c = rng.randint(2, 6)
            doc(page([table(1, c, [[1] * c])]), 'single-row')
            r = rng.randint(2, 6)
            doc(page([table(r, 1, [[1]] * r)]), 'single-column')
        # -- larger random tables, non-contiguous row indices, tables next to text regions, several tables
        for _ in range(50 if tier == 'quick' else 1200):
            r, c = rng.randint(1, 6), rng.randint(1, 6)
            full = rng.randrange(r)
            mask = [[1 if (i == full or rng.random() < 0.6) else 0 for _j in range(c)] for i in range(r)]
            mask = [row for row in mask if any(row)]
            rowmap = None
            if rng.random() < 0.3:
                rowmap = sorted(rng.sample(range(0, 40), len(mask)))
            tabs = [table(len(mask), c, mask, rowmap=rowmap)]
            if rng.random() < 0.2:
                tabs.append(table(1, 2, [[1, 1]]))
            doc(page(tabs, nregions=rng.choice([0, 0, 1, 2])), 'random')
        # -- cell lines without text (no TextEquiv / empty Unicode): first, last, all, between lines with text
        for _ in range(20 if tier == 'quick' else 300):
            r, c = rng.randint(1, 3), rng.randint(1, 3)
            t = table(r, c, [[1] * c for _i in range(r)])
            for victim in rng.sample(t['cells'], rng.randint(1, len(t['cells']))):
                n = rng.choice([1, 2, 3, 4])
                pattern = rng.choice(['all', 'first', 'last', 'middle', 'random'])
                lines = [tline() for _k in range(n)]
                for k in range(n):
                    if (pattern == 'all' or (pattern == 'first' and k == 0) or (pattern == 'last' and k == n - 1)
                            or (pattern == 'middle' and 0 < k < n - 1) or (pattern == 'random' and rng.random() < 0.5)):
                        lines[k] = textless(lines[k])
                victim['lines'] = lines
            doc(page([t], nregions=rng.choice([0, 0, 1])), 'textless-lines')
        # -- outside the quantifier (model correspondence only): no complete row, cells not in row-major order
        for _ in range(20 if tier == 'quick' else 400):
            r, c = rng.randint(1, 4), rng.randint(2, 5)
            mask = [[1 if rng.random() < 0.5 else 0 for _j in range(c)] for _i in range(r)]
            t = table(r, c, mask)
            kind = rng.choice(['no-full-row', 'shuffled'])
            if kind == 'shuffled':
                rng.shuffle(t['cells'])
            # 'outside': not judged by the oracle (as before).  core.OUTSIDE (a difference between model and code is
            # recorded, not a broken obligation) ONLY when the statement's quantifier really excludes the table: cells
            # not in row-major order, or no complete row.  A cell line without text stays compared exactly (the
            # quantifier does not exclude it), and so does a shuffle / mask that happens to leave the listing lawful.
            tags = ['outside', 'outside:' + kind]
            if not listing_in_quantifier([[c['row'], c['col']] for c in t['cells']]):
                tags.append(OUTSIDE)
            out.append(Case('doc', {'src': page([t]), 'fname': 'tab_%d.xml' % next(seq), 'seed': rng.randrange(10 ** 9)}, tags))
        # -- malformed: a mutation inside the TableRegion element
        for _ in range(40 if tier == 'quick' else 800):
            src = page([table(2, 2, [[1, 1], [1, rng.choice([0, 1])]])])
            tree = r_doc(src)
            m = None
            for _k in range(20):
                m = random_mutation(tree, rng)
                if m is not None and len(m['path']) >= 2 and node_at(tree, m['path'][:2])['t'] == 'TableRegion':
                    break
                m = None
            if m is not None:
                out.append(Case('mut', {'src': src, 'fname': 'tab_%d.xml' % next(seq), 'mut': m}, ['malformed', 'mut:' + m['op']]))
        # mutated tables: outside the quantifier when the tree is no conformant document any more (cell without integer
        # row / col, line without Coords, repeated id …) or when the mutation (a cell deleted / duplicated, a row / col
        # rewritten) leaves a listing that is not row-major with a complete row
        mark_nonconformant(out)
        for c in out:
            if c.kind == 'mut' and OUTSIDE not in c.tags and not tree_tables_in_quantifier(
                    apply_mutation(r_doc(c.input['src']), c.input['mut'])):
                c.tags += [OUTSIDE, 'listing-outside']
        return out

    def nontrivial(self, case: Case) -> bool:
        return any(len(t['cells']) >= 2 for t in case.input['src']['tables'])

    # ---------------------------------------------------------------- correspondence: rows without their id
    def compare(self, case, impl_out, model_out):
        # PageXML has no row element: a PageXMLTableRow is derived from the cells, and no clause of the statement reads
        # its id ("one row per distinct row index", shape, [r][c], values, counts, "cell lines keep their ids, text and
        # coordinates", "shape and values survive the JSON round trip" — the ids named are those of cell LINES; the row
        # index is observed as row_idx and through the position in table.rows).  So the rows of the parsed tables are
        # compared without their id — everything else of a row (row_idx, coordinates, cells, column_cells) exactly.
        return super().compare(case, dict(impl_out, real=without_row_ids(impl_out.get('real'))), without_row_ids(model_out))

    # ---------------------------------------------------------------- implementation: the document, then a history
    def impl(self, case: Case) -> Any:
        out = super().impl(case)
        if case.kind != 'doc' or 'outside' in case.tags or 'err' in out['real']:
            return out
        # several documents parsed one after the other in this process (the model is pure: every parse has the answer
        # of a first parse): the same text again; its tables read a second time AFTER shape / values / every [r][c] /
        # stats / the JSON round trip were taken once; documents whose tables have the same ids but another shape;
        # the same text a third time
        from pagexml.parser import parse_pagexml_file
        fname, xml = case.input.get('fname', 'doc.xml'), out['xml']

        def both(scan):
            d = {'scan': dump_scan(scan), 'extra': dump_extra(scan)}
            if scan.table_regions:
                # the other input form of the rebuilder: the dictionary itself (dump_extra hands over its string encoding)
                def trip():
                    from pagexml.parser import parse_pagexml_from_json
                    back = parse_pagexml_from_json(scan.json)
                    return [{'shape': list(t.shape), 'values': [list(v) for v in t.values]} for t in back.table_regions]
                o = call(trip)
                d['extra']['json_trip_tables_dict'] = o['ok'] if 'ok' in o else o
            return d

        def hist():
            scan = parse_pagexml_file(fname, pagexml_data=xml)
            h = {'second': both(scan), 'others': []}
            for v in table_variants(case.input['src']):
                vx = serialise(r_doc(v))
                h['others'].append({'xml': vx, 'real': call(lambda: both(parse_pagexml_file(fname, pagexml_data=vx)))})
            h['reread'] = both(scan)
            h['third'] = both(parse_pagexml_file(fname, pagexml_data=xml))
            return h
        out['hist'] = canon(call(hist))
        return out

    # ---------------------------------------------------------------- oracle
    def oracle(self, case: Case, out: Any) -> List[Finding]:
        if case.kind != 'doc' or 'outside' in case.tags:
            return []
        fs: List[Finding] = []
        seen = set()

        def bad(key, what):
            if key not in seen:
                seen.add(key)
                fs.append(Finding(f'C08:{key}', what, case, {'what': what}))

        real = out['real']
        if 'err' in real:
            src_tables = case.input['src']['tables']
            textless = any(l['te'] is None or l['te']['unicode'].strip() == '' for t in src_tables for c in t['cells']
                           for l in c['lines'])
            key = ('cell-line-without-text' if textless and real['err'] == 'TypeError'
                   else 'single-cell' if any(len(t['cells']) == 1 for t in src_tables) else 'raises')
            bad(f'{key}:{real["err"]}', f'table document rejected with {real["err"]}')
            return fs
        self.judge(out['xml'], real['ok']['scan'], real['ok']['extra'], bad, '', '')
        h = out.get('hist')
        if h is None or fs:
            return fs
        if 'err' in h:
            bad('raises-later:' + h['err'], f'parsing / reading the document again in the same process raised {h["err"]}')
            return fs
        h = h['ok']
        for k, tag, what in (('second', ':second-parse', 'the same text parsed a second time: '),
                             ('reread', ':read-again', 'the tables read again after they were indexed, exported to JSON '
                                                       'and other documents were parsed: '),
                             ('third', ':third-parse', 'the same text parsed again after other documents: ')):
            self.judge(out['xml'], h[k]['scan'], h[k]['extra'], bad, tag, what)
        for o in h['others']:
            if 'err' in o['real']:
                bad('raises-later:' + o['real']['err'], f'a table document parsed after another one is rejected with '
                                                        f'{o["real"]["err"]}')
            else:
                self.judge(o['xml'], o['real']['ok']['scan'], o['real']['ok']['extra'], bad, ':after-another-document',
                           'a document with the same table ids parsed afterwards: ')
        return fs

    def judge(self, xml: str, scan, extra, bad0, tag: str, pre: str):
        """the statement on one parsed scan (dump) against its own source text, read independently"""
        def bad(key, what):
            bad0(key + tag, pre + what)
        fs = None
        out = {'xml': xml}
        exp_tables = read_tables(out['xml'])
        if len(exp_tables) != len(scan['tables']):
            bad('table-count', f'{len(exp_tables)} TableRegion elements, {len(scan["tables"])} parsed')
            return fs
        n_table_lines = n_table_words = 0
        for k, (e, g) in enumerate(zip(exp_tables, scan['tables'])):
            rows = []
            for c in e['cells']:
                if c['row'] not in rows:
                    rows.append(c['row'])
            by_row = {r: [c for c in e['cells'] if c['row'] == r] for r in rows}
            ncols = max(len(v) for v in by_row.values())
            where = f'table {e["id"]!r}'
            # the quantifier: columns ascend strictly within a row, stay below the column count, some row is complete
            in_quantifier = all(all(a['col'] < b['col'] for a, b in zip(v, v[1:])) and all(0 <= c['col'] < ncols for c in v)
                                for v in by_row.values()) and any([c['col'] for c in v] == list(range(ncols))
                                                                  for v in by_row.values())
            if not in_quantifier:
                continue
            if g['shape'] != [len(rows), ncols]:
                bad('shape', f'{where}: shape {g["shape"]}, source has {len(rows)} rows and a fullest row of {ncols} cells')
                continue
            cell_at = {(c['row'], c['col']): c for c in e['cells']}
            want_values = []
            for i, r in enumerate(rows):
                vrow = []
                for j in range(ncols):
                    c = cell_at.get((r, j))
                    item = g['items'][i][j]
                    if c is None:
                        vrow.append('')
                        if 'err' in item or item['id'] is not None or item['value'] != '' or item['lines']:
                            bad('index:missing', f'{where}[{i}][{j}] is {item}, the source has no cell there')
                        elif item['row'] != r or item['col'] != j:
                            bad('index:placeholder', f'{where}[{i}][{j}] placeholder has row/col {item["row"]}/{item["col"]}')
                    else:
                        # the space-joined texts of the lines that have a text (no TextEquiv / empty Unicode: none)
                        text = ' '.join(tx for tx in ((l['te'] or {}).get('text') or '' for l in c['lines']) if tx != '')
                        vrow.append(text)
                        if 'err' in item or item['id'] != c['id']:
                            bad('index:cell', f'{where}[{i}][{j}] is {item}, the source cell there is {c["id"]!r}')
                        elif item['value'] != text or item['lines'] != [l['id'] for l in c['lines']]:
                            bad('index:content', f'{where}[{i}][{j}] value {item["value"]!r} lines {item["lines"]}, source {text!r}')
                want_values.append(vrow)
            if g['values'] != want_values:
                bad('values', f'{where}: values {g["values"]}, expected {want_values}')
            lines = [l for c in e['cells'] for l in c['lines']]
            want_stats = {'rows': len(rows), 'cells': len(e['cells']), 'lines': len(lines),
                          'words': sum(words_of_line(l) for l in lines)}
            n_table_lines += want_stats['lines']
            n_table_words += want_stats['words']
            if g['stats'] != want_stats:
                bad('stats', f'{where}: stats {g["stats"]}, source {want_stats}')
            # cell lines keep ids, text, coordinates
            got_cells = {c['id']: c for row in g['rows'] for c in row['cells']}
            for c in e['cells']:
                gc = got_cells.get(c['id'])
                if gc is None:
                    bad('cell-lost', f'{where}: cell {c["id"]!r} not in the parsed rows')
                    continue
                for el, gl in zip(c['lines'], gc['lines']):
                    if (el['id'], el['coords'], (el['te'] or {}).get('text') or '') != (gl['id'], gl['coords'], gl['text'] or ''):
                        bad('cell-line', f'{where}: line {el["id"]!r} of cell {c["id"]!r} changed')
                if len(c['lines']) != len(gc['lines']):
                    bad('cell-line', f'{where}: cell {c["id"]!r} has {len(gc["lines"])} lines, source {len(c["lines"])}')
            trip = extra.get('json_trip_tables')
            if not isinstance(trip, list) or k >= len(trip):
                bad('json-trip', f'{where}: JSON round trip failed: {trip}')
            elif trip[k]['shape'] != g['shape'] or trip[k]['values'] != g['values']:
                bad('json-trip', f'{where}: after the JSON round trip shape/values are {trip[k]}')
            if 'json_trip_tables_dict' in extra:
                trip = extra['json_trip_tables_dict']
                if not isinstance(trip, list) or k >= len(trip):
                    bad('json-trip:dict-form', f'{where}: JSON round trip through the dictionary failed: {trip}')
                elif trip[k]['shape'] != g['shape'] or trip[k]['values'] != g['values']:
                    bad('json-trip:dict-form', f'{where}: after the JSON round trip (dictionary form) shape/values are {trip[k]}')
        # scan statistics: tables at page level next to text regions
        doc_exp = read_doc(out['xml'])
        reg_lines = [l for r in doc_exp['regions'] if has_content(r) for l in region_lines(r)]
        st = extra['scan_stats']
        if isinstance(st, dict) and 'err' not in st:
            if st.get('lines') != len(reg_lines) + n_table_lines:
                bad('scan-stats:lines', f'scan stats lines {st.get("lines")}, source {len(reg_lines)} + {n_table_lines}')
            if exp_tables and st.get('table_regions') != len(exp_tables):
                bad('scan-stats:tables', f'scan stats table_regions {st.get("table_regions")}, source {len(exp_tables)}')
        else:
            bad('scan-stats', f'scan.stats failed: {st}')
        return fs


CHECK = C08()
