"""C13 — With ignore-errors, a bad member never aborts or corrupts a batch."""
from __future__ import annotations

import itertools
import json
import os
import random
import shutil
import tempfile
from typing import Any, Dict, Iterable, List

from harness import containers as C
from harness import translate_archives as translate
from harness.core import OUTSIDE, Case, Check, Finding, call, short
from harness.props.c12 import _digest, _drain, _err, _parser, _quiet, _scan_view

#: symbols of a member sequence: a good document, the seven fault kinds of the statement (all with an
#: `.xml` name), a non-XML file (name without `.xml`, content that is no XML)
SYMBOLS = ['good'] + C.FAULT_KINDS + ['nonxml', 'nonxml-empty']
#: outside the statement (model correspondence only): a well-formed XML file that is no PageXML under a
#: name without `.xml`
BEYOND = ['wellformed-other-name']
#: Props/C13.lean `covered`
COVERED = ['KeyError', 'AttributeError', 'IndexError', 'ValueError', 'TypeError', 'ExpatError', 'UnicodeDecodeError',
           'UnicodeError']


def _member(sym: str, i: int, rng: random.Random = None) -> Dict[str, Any]:
    r = random.Random(i * 7919 + len(sym)) if rng is None else rng
    spec = C.rand_doc_spec(r, f'scan{i}')
    d = r.choice(['', '', 'p/', 'p/q/', 'ü/'])
    if sym == 'good':
        return {'what': 'good', 'name': f'{d}m{i}.xml', 'd': C.hexs(C.doc_xml(spec).encode('utf-8'))}
    if sym in C.FAULT_KINDS:
        return {'what': sym, 'name': f'{d}m{i}.xml', 'd': C.hexs(C.faulty(sym, spec).encode('utf-8'))}
    if sym == 'nonxml':
        ext, body = r.choice([x for x in C.NONXML if x[1]])
        return {'what': 'nonxml', 'name': f'{d}n{i}.{ext}', 'd': C.hexs(body)}
    if sym == 'nonxml-empty':
        return {'what': 'nonxml', 'name': f'{d}n{i}.{r.choice(["dat", "txt", "jpg"])}', 'd': ''}
    if sym == 'wellformed-other-name':
        return {'what': sym, 'name': f'{d}w{i}.svg', 'd': C.hexs(b'<svg><g/></svg>')}
    raise ValueError(sym)


class C13(Check):
    pid = 'C13'
    props_module = 'PagexmlModel.Props.C13'
    anchors = {'pagexml/parser.py': ['parse_pagexml_files', 'parse_pagexml_files_from_archive', 'parse_pagexml_file',
                                     'parse_pagexml_json'],
               'pagexml/helper/file_helper.py': ['read_page_archive_file']}
    level_note = ('proved for every member sequence (any length, any interleaving) against the except clauses regenerated '
                  'from the source: with ignore_errors every good member is yielded once, in order, and nothing escapes, '
                  'PROVIDED each fault raises one of the classes listed in Props/C13.lean (`covered`: KeyError, '
                  'AttributeError, IndexError, ValueError and its Unicode subclasses, TypeError, ExpatError) — an OSError '
                  'such as PermissionError or, for loose files, '
                  'FileNotFoundError is NOT covered and provably escapes (C13_uncovered_class_escapes); strict mode '
                  'yields the goods before the first bad .xml member and raises its exception; non-XML members '
                  '(name without .xml, ExpatError) are skipped in both modes.  MEASURED per run, not proved: which '
                  'exception class each fault kind raises in the single-file parser')
    assumptions = ['the single-file parser raises, for each fault kind of the statement, a class measured at run time; the '
                   'theorems cover every assignment of covered classes to members',
                   'CPython exception hierarchy for the classes concerned (Model/C13.lean `parent`)',
                   'reading: a "non-XML file" has a name without the .xml suffix and content that is not well-formed XML; '
                   'a well-formed XML file that is not PageXML under another name (e.g. .svg) raises TypeError in strict '
                   'mode — the statement is silent about it, the model mirrors it, the oracle does not judge it']
    technique = 'Lean 4 proof over hand-written model + except clauses regenerated from the source by an ast translator + fault classes measured from the real parser + differential correspondence'
    nontrivial_rule = ('distinct inputs; non-trivial = at least one good and one faulty or non-XML member')
    _measured: Dict[int, Any] = {}

    def translate(self) -> Dict[str, str]:
        return translate.generated_files()

    # ---------------------------------------------------------------- generation
    def _case(self, syms: List[str], route: str, ignore: bool, i: int, tags, nested=False, rng=None) -> Case:
        ext = C.ACCEPTED_EXTS[i % len(C.ACCEPTED_EXTS)]
        members = [_member(s, n, rng) for n, s in enumerate(syms)]
        inp = {'route': route, 'ignore': ignore, 'members': members}
        if route == 'archive':
            inp['ext'] = ext
            inp['nested'] = bool(nested) and ext != '.7z'
        t = list(tags)
        if any(s in BEYOND for s in syms):
            # WAVE 3: members of a kind the statement does not list (a well-formed XML file that is not PageXML under a
            # name without the .xml suffix, …; see `assumptions`): "the statement is silent about it, the model
            # mirrors it, the oracle does not judge it" - outside the quantifier, a difference is only recorded
            t.append('beyond')
            t.append(OUTSIDE)
        return Case('batch', inp, t)

    def cases(self, rng: random.Random, tier: str) -> Iterable[Case]:
        out: List[Case] = []
        quick = tier == 'quick'
        n = 0
        # corpus: the two repaired defects and the boundary classes
        for syms in (['good', 'trunc', 'good'], ['good', 'empty', 'good'], ['nonxml', 'good'], ['good', 'nonxml-empty', 'good'], ['good', 'notxml'],
                     ['empty'], ['nonxml'], [], ['good', 'nonxml', 'notpage', 'good'], ['good', 'good', 'badnum', 'good', 'trunc'],
                     ['good', 'wellformed-other-name', 'good']):
            for route in ('files', 'archive'):
                for ig in (True, False):
                    n += 1
                    out.append(self._case(syms, route, ig, n, ['corpus']))
        # every measured class against every clause: the handler itself
        for cls in ['KeyError', 'AttributeError', 'IndexError', 'ValueError', 'TypeError', 'ExpatError',
                    'FileNotFoundError', 'UnicodeDecodeError', 'OSError', 'PermissionError', 'ZeroDivisionError',
                    'RecursionError', 'MemoryError', 'LookupError']:
            out.append(Case('subclass', {'cls': cls}, ['enum']))
        # exhaustive: every sequence up to length L over the nine symbols, both routes, both modes
        L = 2 if quick else 3
        for ln in range(1, L + 1):
            for syms in itertools.product(SYMBOLS, repeat=ln):
                for route in ('files', 'archive'):
                    for ig in (True, False):
                        n += 1
                        out.append(self._case(list(syms), route, ig, n, ['enum', f'len={ln}']))
        # k goods interleaved with faults at every position (k <= 3, <= 2 faults): thorough
        if not quick:
            for k in (2, 3):
                for nf in (1, 2):
                    for pos in itertools.combinations_with_replacement(range(k + 1), nf):
                        for kinds in itertools.product(C.FAULT_KINDS + ['nonxml', 'nonxml-empty'], repeat=nf):
                            syms: List[str] = []
                            for g in range(k + 1):
                                syms += [kd for p, kd in zip(pos, kinds) if p == g]
                                if g < k:
                                    syms.append('good')
                            n += 1
                            out.append(self._case(syms, 'archive' if n % 2 else 'files', bool((n // 2) % 2), n,
                                                  ['enum', 'interleave']))
        # random: longer sequences, nested archives, all container formats
        for _ in range(150 if quick else 1500):
            ln = rng.choice([3, 4, 5, 6, 8, 12])
            p_good = rng.choice([0.3, 0.6, 0.85])
            syms = [('good' if rng.random() < p_good else rng.choice(SYMBOLS[1:] + (BEYOND if rng.random() < 0.1 else [])))
                    for _ in range(ln)]
            n += 1
            out.append(self._case(syms, rng.choice(['files', 'archive', 'archive']), rng.random() < 0.6, n, ['random'],
                                  nested=rng.random() < 0.3, rng=rng))
        return out

    # ---------------------------------------------------------------- implementation
    def impl(self, case: Case) -> Any:
        if case.kind == 'subclass':
            import builtins
            from xml.parsers import expat
            cls = case.input['cls']
            c = expat.ExpatError if cls == 'ExpatError' else getattr(builtins, cls)
            names = ['KeyError', 'AttributeError', 'IndexError', 'ValueError', 'TypeError', 'ExpatError',
                     'FileNotFoundError', 'OSError', 'LookupError', 'Exception']
            return {d: issubclass(c, expat.ExpatError if d == 'ExpatError' else getattr(builtins, d)) for d in names}
        P = _parser()
        inp = case.input
        scratch = tempfile.mkdtemp(prefix='verif-c13-')
        try:
            ms = inp['members']
            alone = []
            if inp['route'] == 'files':
                root = os.path.join(scratch, 'files')
                paths = []
                for m in ms:
                    p = os.path.join(root, m['name'])
                    os.makedirs(os.path.dirname(p), exist_ok=True)
                    with open(p, 'wb') as fh:
                        fh.write(bytes.fromhex(m['d']))
                    paths.append(p)
                    alone.append(call(lambda: _digest(_scan_view(_quiet(P.parse_pagexml_file, p)))))
                r = _drain(lambda: P.parse_pagexml_files(paths, ignore_errors=inp['ignore']))
                yielded = [{'key': os.path.relpath(s.metadata['filename'], root), 'json': _digest(_scan_view(s))}
                           for s in r['items']]
            else:
                tree = [{'t': 'f', 'p': m['name'], 'd': m['d']} for m in ms]
                for m in ms:
                    raw = bytes.fromhex(m['d'])
                    base = m['name'].rsplit('/', 1)[-1]
                    alone.append(call(lambda: _digest(_scan_view(_quiet(P.parse_pagexml_file, base, pagexml_data=raw)))))
                kind = C.KIND_OF_EXT[inp['ext']]
                if inp.get('nested'):
                    tree = [{'t': 'n', 'p': 'wrap/inner.zip' if kind != 'zip' else 'wrap/inner.tar',
                             'k': 'zip' if kind != 'zip' else 'tar', 'm': tree}]
                path = os.path.join(scratch, 'batch' + inp['ext'])
                with open(path, 'wb') as fh:
                    fh.write(C.container_bytes(kind, tree, scratch))
                r = _drain(lambda: P.parse_pagexml_files_from_archive(path, ignore_errors=inp['ignore']))
                yielded = [{'key': s.metadata['pagefile_info']['archived_filepath'], 'json': _digest(_scan_view(s))}
                           for s in r['items']]
            self._measured[id(case)] = alone
            for a in alone:     # evidence: a measured class the theorems do not cover (informational)
                if 'err' in a and a['err'] not in COVERED and f'uncovered-class:{a["err"]}' not in case.tags:
                    case.tags.append(f'uncovered-class:{a["err"]}')
            return {'alone': alone, 'yielded': yielded, 'exn': r['exn']}
        finally:
            shutil.rmtree(scratch, ignore_errors=True)

    # ---------------------------------------------------------------- model
    def requests(self, case: Case):
        if case.kind == 'subclass':
            names = ['KeyError', 'AttributeError', 'IndexError', 'ValueError', 'TypeError', 'ExpatError',
                     'FileNotFoundError', 'OSError', 'LookupError', 'Exception']
            return [{'p': 'C13', 'op': 'is_subclass', 'args': {'c': case.input['cls'], 'd': d}} for d in names]
        # the measured map fault -> exception class is handed to the model as data: impl() has run before
        # requests() (core.run_check), its measurement of every member parsed alone is cached per case
        alone = self._measured.get(id(case))
        if alone is None:
            alone = self.impl(case)['alone']
        return [self._batch_request(case, alone)]

    def _batch_request(self, case: Case, alone) -> Dict[str, Any]:
        inp = case.input
        members = []
        for i, (m, a) in enumerate(zip(inp['members'], alone)):
            name = m['name'].rsplit('/', 1)[-1] if inp['route'] == 'archive' else m['name']
            members.append({'name': name, 'id': i} if 'ok' in a else {'name': name, 'fault': a['err']})
        return {'p': 'C13', 'op': 'batch', 'args': {'route': inp['route'], 'ignore': inp['ignore'], 'members': members}}

    def compare(self, case, impl_out, model_out):
        if case.kind == 'subclass':
            got = [impl_out[d] for d in impl_out]
            want = [m['ok'] for m in model_out]
            return None if got == want else f'issubclass: impl={impl_out} model={want}'
        inp = case.input
        ans = model_out[0]['ok']
        names = [m['name'] for m in inp['members']]
        got = [names.index(y['key']) if y['key'] in names else -1 for y in impl_out['yielded']]
        if got != ans['yielded'] or impl_out['exn'] != ans['exn']:
            return f'impl yielded {got} exn={impl_out["exn"]}; model yielded {ans["yielded"]} exn={ans["exn"]} ' \
                   f'(measured {[a.get("err", "good") for a in impl_out["alone"]]})'
        return None

    # ---------------------------------------------------------------- oracle
    def oracle(self, case: Case, out: Any) -> List[Finding]:
        fs: List[Finding] = []
        if case.kind != 'batch' or 'beyond' in case.tags:
            return fs
        inp = case.input
        route = inp['route']

        def bad(key, what):
            fs.append(Finding(f'C13:{key}', what, case, out))
        ms = inp['members']
        alone = out['alone']
        # generator sanity: a good document parses alone, a faulty one does not (else the case judges nothing)
        for m, a in zip(ms, alone):
            if (m['what'] == 'good') != ('ok' in a):
                if m['what'] == 'good':
                    bad('good-member-rejected', f'{m["name"]}: well-formed document rejected when parsed alone: {a}')
                return fs
        goods = [(m['name'], a['ok']) for m, a in zip(ms, alone) if m['what'] == 'good']
        got = [(y['key'], y['json']) for y in out['yielded']]
        if inp['ignore']:
            if out['exn'] is not None:
                # the member that ended the batch: between the last good member yielded and the next good one,
                # the first faulty member whose own exception class is the one that escaped
                gi = [i for i, m in enumerate(ms) if m['what'] == 'good']
                n_y = len(got)
                lo = gi[n_y - 1] + 1 if 0 < n_y <= len(gi) else 0
                hi = gi[n_y] if n_y < len(gi) else len(ms)
                cands = [ms[i]['what'] for i in range(lo, hi) if ms[i]['what'] != 'good' and alone[i].get('err') == out['exn']]
                culprit = cands[0] if cands else '?'
                bad(f'ignore-aborted:{route}:{culprit}', f'ignore_errors=True but {out["exn"]} escaped after {len(got)} scans')
            elif got != goods:
                keys = [k for k, _ in got]
                if keys == [k for k, _ in goods]:
                    bad(f'content-differs:{route}', 'a scan yielded by the batch differs from the same member parsed alone')
                else:
                    bad(f'ignore-members:{route}', f'yielded {keys}, expected every good member once in order: {[k for k, _ in goods]}')
        else:
            def is_bad(m):
                if m['what'] == 'good':
                    return False
                if route == 'archive' and m['what'] == 'nonxml':
                    return False       # skipped in both modes
                return True
            first = next((i for i, m in enumerate(ms) if is_bad(m)), None)
            if first is None:
                if out['exn'] is not None:
                    what = 'nonxml' if any(m['what'] == 'nonxml' for m in ms) else 'none'
                    bad(f'strict-raised-without-bad-member:{route}:{what}', f'{out["exn"]} raised although no PageXML member is bad')
                elif got != goods:
                    bad(f'strict-members:{route}', f'yielded {[k for k, _ in got]}, expected {[k for k, _ in goods]}')
            else:
                want = [(m['name'], a['ok']) for m, a in list(zip(ms, alone))[:first] if m['what'] == 'good']
                if out['exn'] is None:
                    bad(f'strict-silently-dropped:{route}:{ms[first]["what"]}',
                        f'bad member {ms[first]["name"]} ({ms[first]["what"]}) did not raise without ignore_errors')
                elif got != want:
                    bad(f'strict-prefix:{route}', f'yielded {[k for k, _ in got]} before raising, expected {[k for k, _ in want]}')
                elif out['exn'] != alone[first].get('err'):
                    bad(f'strict-other-exception:{route}', f'raised {out["exn"]}, the first bad member alone raises {alone[first]}')
        return fs

    def nontrivial(self, case: Case) -> bool:
        if case.kind != 'batch':
            return True
        w = [m['what'] for m in case.input['members']]
        return 'good' in w and any(x != 'good' for x in w)

    def shrink_candidates(self, case: Case):
        if case.kind != 'batch':
            return
        ms = case.input['members']
        for i in range(len(ms)):
            yield Case('batch', dict(case.input, members=ms[:i] + ms[i + 1:]), case.tags)
        if case.input.get('nested'):
            yield Case('batch', dict(case.input, nested=False), case.tags)
        if case.input.get('ext') not in (None, '.zip'):
            yield Case('batch', dict(case.input, ext='.zip'), case.tags)
        for i, m in enumerate(ms):
            if '/' in m['name']:
                yield Case('batch', dict(case.input, members=ms[:i] + [dict(m, name=m['name'].rsplit('/', 1)[-1])] + ms[i + 1:]),
                           case.tags)


CHECK = C13()
