"""C13 — With ignore-errors, a bad member never aborts or corrupts a batch."""
from __future__ import annotations

import itertools
import json
import os
import random
import shutil
import tempfile
from typing import Any, Dict, Iterable, List

from harness import containers as C
from harness import translate_archives as translate
from harness.core import OUTSIDE, Case, Check, Finding, call, short
from harness.props.c12 import _digest, _drain, _err, _parser, _quiet, _scan_view

#: symbols of a member sequence: a good document, the seven fault kinds of the statement (all with an
#: `.xml` name), a non-XML file (name without `.xml`, content that is no XML)
SYMBOLS = ['good'] + C.FAULT_KINDS + ['nonxml', 'nonxml-empty']
#: outside the statement (model correspondence only): a well-formed XML file that is no PageXML under a
#: name without `.xml`
BEYOND = ['wellformed-other-name']
#: Props/C13.lean `covered`
COVERED = ['KeyError', 'AttributeError', 'IndexError', 'ValueError', 'TypeError', 'ExpatError', 'UnicodeDecodeError',
           'UnicodeError']


def _passes(inp) -> List[Dict[str, Any]]:
    """WAVE 4: the calls of the batch reader made in one process, in order: {'ignore', 'batch'} with batch 0 = the
    case's members, 1 = `other` (a DIFFERENT batch under the same names); default: one call"""
    ps = inp.get('passes') or [{'ignore': inp['ignore']}]
    return [{'ignore': bool(p['ignore']), 'batch': int(p.get('batch', 0))} for p in ps]


def _pass_suffix(passes, n: int) -> str:
    """class of history of pass n: '' first call of the process, ':repeat' the same batch was read before,
    ':after-other' only the other batch was read before"""
    before = [p['batch'] for p in passes[:n]]
    if not before:
        return ''
    return ':repeat' if passes[n]['batch'] in before else ':after-other'


def _other_batch(members) -> List[Dict[str, Any]]:
    """a different batch under the SAME names: every good member replaced by a faulty one and vice versa"""
    out = []
    for n, m in enumerate(members):
        if m['what'] == 'good':
            out.append(_member(['trunc', 'badnum', 'empty', 'notpage'][n % 4], 500 + n, name=m['name']))
        elif m['what'] in C.FAULT_KINDS:
            out.append(_member('good', 500 + n, name=m['name']))
        else:
            out.append(dict(m))
    return out


def _ext_for(sym: str) -> str:
    return {'nonxml': 'txt', 'nonxml-empty': 'dat', 'wellformed-other-name': 'svg'}.get(sym, 'xml')


def _member(sym: str, i: int, rng: random.Random = None, name: str = None) -> Dict[str, Any]:
    m = _member0(sym, i, rng)
    if name is not None:        # WAVE 4: explicit full path (same base name in different directories)
        m['name'] = name
    return m


def _member0(sym: str, i: int, rng: random.Random = None) -> Dict[str, Any]:
    r = random.Random(i * 7919 + len(sym)) if rng is None else rng
    spec = C.rand_doc_spec(r, f'scan{i}')
    d = r.choice(['', '', 'p/', 'p/q/', 'ü/'])
    if sym == 'good':
        # "every well-formed PageXML member is still yielded": a member is PageXML by its content, whatever its name
        # (upper-case .XML from DOS / Windows tools, .pagexml, a backup suffix, no extension at all)
        ext = '.xml' if rng is None or r.random() >= 0.12 else r.choice(['.XML', '.pagexml', '.xml.orig', '', '.page'])
        return {'what': 'good', 'name': f'{d}m{i}{ext}', 'd': C.hexs(C.doc_xml(spec).encode('utf-8'))}
    if sym in C.FAULT_KINDS:
        return {'what': sym, 'name': f'{d}m{i}.xml', 'd': C.hexs(C.faulty(sym, spec).encode('utf-8'))}
    if sym == 'nonxml':
        ext, body = r.choice([x for x in C.NONXML if x[1]])
        return {'what': 'nonxml', 'name': f'{d}n{i}.{ext}', 'd': C.hexs(body)}
    if sym == 'nonxml-empty':
        return {'what': 'nonxml', 'name': f'{d}n{i}.{r.choice(["dat", "txt", "jpg"])}', 'd': ''}
    if sym == 'wellformed-other-name':
        return {'what': sym, 'name': f'{d}w{i}.svg', 'd': C.hexs(b'<svg><g/></svg>')}
    raise ValueError(sym)


class C13(Check):
    pid = 'C13'
    props_module = 'PagexmlModel.Props.C13'
    anchors = {'pagexml/parser.py': ['parse_pagexml_files', 'parse_pagexml_files_from_archive', 'parse_pagexml_file',
                                     'parse_pagexml_json'],
               'pagexml/helper/file_helper.py': ['read_page_archive_file']}
    level_note = ('proved for every member sequence (any length, any interleaving) against the except clauses regenerated '
                  'from the source: with ignore_errors every good member is yielded once, in order, and nothing escapes, '
                  'PROVIDED each fault raises one of the classes listed in Props/C13.lean (`covered`: KeyError, '
                  'AttributeError, IndexError, ValueError and its Unicode subclasses, TypeError, ExpatError) — an OSError '
                  'such as PermissionError or, for loose files, '
                  'FileNotFoundError is NOT covered: a class no regenerated clause handles provably escapes, whatever the '
                  'tables are (C13_uncovered_class_escapes); strict mode '
                  'yields the goods before the first bad .xml member and raises its exception; non-XML members '
                  '(name without .xml, ExpatError) are skipped in both modes.  MEASURED per run, not proved: which '
                  'exception class each fault kind raises in the single-file parser.  Histories (input field `passes`): '
                  'the model is a pure function of the member sequence, so the SAME model answer is demanded of every call '
                  'when the reader runs several times in one process (same batch twice, ignore_errors flipped, after a '
                  'different batch under the same names); members are identified by their full path, base names may repeat '
                  'across directories (the model uses the name for the `.xml` suffix test only)')
    assumptions = ['the single-file parser raises, for each fault kind of the statement, a class measured at run time; the '
                   'theorems cover every assignment of covered classes to members',
                   'CPython exception hierarchy for the classes concerned (Model/C13.lean `parent`)',
                   'reading: a "non-XML file" has a name without the .xml suffix and content that is not well-formed XML; '
                   'a well-formed XML file that is not PageXML under another name (e.g. .svg) raises TypeError in strict '
                   'mode — the statement is silent about it, the model mirrors it, the oracle does not judge it']
    technique = 'Lean 4 proof over hand-written model + except clauses regenerated from the source by an ast translator + fault classes measured from the real parser + differential correspondence'
    nontrivial_rule = ('distinct inputs; non-trivial = at least one good and one faulty or non-XML member')
    _measured: Dict[int, Any] = {}

    def translate(self) -> Dict[str, str]:
        return translate.generated_files()

    # ---------------------------------------------------------------- generation
    def _case(self, syms: List[str], route: str, ignore: bool, i: int, tags, nested=False, rng=None, ext=None,
              names=None, passes=None, other=None) -> Case:
        ext = ext or C.ACCEPTED_EXTS[i % len(C.ACCEPTED_EXTS)]
        members = [_member(s, n, rng, names[n] if names else None) for n, s in enumerate(syms)]
        seen = set()
        for n, m in enumerate(members):     # full paths must be distinct (zip opens members by name)
            if m['name'] in seen:
                m['name'] = f'dup{n}/' + m['name']
            seen.add(m['name'])
        inp = {'route': route, 'ignore': ignore, 'members': members}
        if passes is not None:
            inp['passes'] = passes
        if other is not None:
            inp['other'] = other
        if route == 'archive':
            inp['ext'] = ext
            inp['nested'] = bool(nested) and ext != '.7z'
        t = list(tags)
        if any(s in BEYOND for s in syms):
            # WAVE 3: members of a kind the statement does not list (a well-formed XML file that is not PageXML under a
            # name without the .xml suffix, …; see `assumptions`): "the statement is silent about it, the model
            # mirrors it, the oracle does not judge it" - outside the quantifier, a difference is only recorded
            t.append('beyond')
            t.append(OUTSIDE)
        return Case('batch', inp, t)

    def cases(self, rng: random.Random, tier: str) -> Iterable[Case]:
        out: List[Case] = []
        quick = tier == 'quick'
        n = 0
        # corpus: the two repaired defects and the boundary classes
        for syms in (['good', 'trunc', 'good'], ['good', 'empty', 'good'], ['nonxml', 'good'], ['good', 'nonxml-empty', 'good'], ['good', 'notxml'],
                     ['empty'], ['nonxml'], [], ['good', 'nonxml', 'notpage', 'good'], ['good', 'good', 'badnum', 'good', 'trunc'],
                     ['good', 'wellformed-other-name', 'good']):
            for route in ('files', 'archive'):
                for ig in (True, False):
                    n += 1
                    out.append(self._case(syms, route, ig, n, ['corpus']))
        # every measured class against every clause: the handler itself
        for cls in ['KeyError', 'AttributeError', 'IndexError', 'ValueError', 'TypeError', 'ExpatError',
                    'FileNotFoundError', 'UnicodeDecodeError', 'OSError', 'PermissionError', 'ZeroDivisionError',
                    'RecursionError', 'MemoryError', 'LookupError']:
            out.append(Case('subclass', {'cls': cls}, ['enum']))
        # exhaustive: every sequence up to length L over the nine symbols, both routes, both modes
        L = 2 if quick else 3
        for ln in range(1, L + 1):
            for syms in itertools.product(SYMBOLS, repeat=ln):
                for route in ('files', 'archive'):
                    for ig in (True, False):
                        n += 1
                        out.append(self._case(list(syms), route, ig, n, ['enum', f'len={ln}']))
        # k goods interleaved with faults at every position (k <= 3, <= 2 faults): thorough
        if not quick:
            for k in (2, 3):
                for nf in (1, 2):
                    for pos in itertools.combinations_with_replacement(range(k + 1), nf):
                        for kinds in itertools.product(C.FAULT_KINDS + ['nonxml', 'nonxml-empty'], repeat=nf):
                            syms: List[str] = []
                            for g in range(k + 1):
                                syms += [kd for p, kd in zip(pos, kinds) if p == g]
                                if g < k:
                                    syms.append('good')
                            n += 1
                            out.append(self._case(syms, 'archive' if n % 2 else 'files', bool((n // 2) % 2), n,
                                                  ['enum', 'interleave']))
        # random: longer sequences, nested archives, all container formats
        for _ in range(150 if quick else 1500):
            ln = rng.choice([3, 4, 5, 6, 8, 12])
            p_good = rng.choice([0.3, 0.6, 0.85])
            syms = [('good' if rng.random() < p_good else rng.choice(SYMBOLS[1:] + (BEYOND if rng.random() < 0.1 else [])))
                    for _ in range(ln)]
            n += 1
            out.append(self._case(syms, rng.choice(['files', 'archive', 'archive']), rng.random() < 0.6, n, ['random'],
                                  nested=rng.random() < 0.3, rng=rng))
        out.extend(self._wave4_cases(rng, quick, n))
        return out

    # WAVE 4 ------------------------------------------------------------------------------------------
    #: where a batch lives: every accepted archive extension flat and (7z apart: beyond C12's quantifier) nested in
    #: another archive, and the loose-file route
    VARIANTS = [('archive', e, nst) for e in C.ACCEPTED_EXTS for nst in (False, True) if not (nst and e == '.7z')] + \
               [('files', None, False)]

    @staticmethod
    def _histories(ig: bool, members) -> List[Any]:
        """(tag, passes, other batch): the reader called twice, with the option flipped, after another batch under
        the same names was read (skipping its faulty members / aborted by one)"""
        return [('twice', [{'ignore': ig}, {'ignore': ig}], None),
                ('flip', [{'ignore': ig}, {'ignore': not ig}], None),
                ('after-other-ignored', [{'ignore': True, 'batch': 1}, {'ignore': ig}], _other_batch(members)),
                ('after-other-strict', [{'ignore': False, 'batch': 1}, {'ignore': ig}], _other_batch(members))]

    def _wave4_cases(self, rng: random.Random, quick: bool, n: int) -> List[Case]:
        out: List[Case] = []
        hcount = [0]

        def family(syms, names, tag):
            """one member layout in every place, both modes; plus its 2-pass variants (quick: one history per case,
            rotating; thorough: all)"""
            nonlocal n
            hcount[0] += 1      # the rotation shifts by one per family: over the families every place meets every history
            for route, ext, nst in self.VARIANTS:
                for ig in (True, False):
                    n += 1
                    kw = dict(nested=nst, ext=ext, names=names)
                    base = self._case(syms, route, ig, n, ['enum', tag], **kw)
                    out.append(base)
                    hs = self._histories(ig, base.input['members'])
                    if quick:
                        hcount[0] += 1
                        hs = [hs[hcount[0] % len(hs)]]
                    for htag, passes, other in hs:
                        out.append(self._case(syms, route, ig, n, ['enum', tag, 'history', htag], passes=passes,
                                              other=other, **kw))
        # (D) every fault kind x every place x both modes, explicitly
        for sym in SYMBOLS[1:]:
            family(['good', sym, 'good'], None, 'fault-grid')
            family([sym, 'good'], None, 'fault-grid')
        # (C) the same base name in different directories
        x = _ext_for
        pick = rng.randrange(len(C.FAULT_KINDS))
        for k, f in enumerate(C.FAULT_KINDS):
            family([f, 'good'], ['inv1/0002.xml', 'inv2/0002.xml'], 'samebase')
            family(['good', f], ['inv1/0002.xml', 'inv2/0002.xml'], 'samebase')
            if quick and k not in (pick, (pick + 3) % len(C.FAULT_KINDS)):
                continue
            family([f, 'good', 'good', 'good'], ['inv1/0002.xml', 'inv2/0001.xml', 'inv2/0002.xml', 'inv3/0002.xml'], 'samebase')
            family(['nonxml', 'good', 'nonxml-empty', f, 'good'],
                   ['inv1/notes.txt', 'inv1/0002.xml', 'inv2/notes.txt', 'inv2/0002.xml', '0002.xml'], 'samebase')
        family(['good', 'good'], ['inv1/0002.xml', 'inv2/0002.xml'], 'samebase')
        family(['good', 'good', 'good'], ['inv1/0002.xml', '0002.xml', 'inv1/sub/0002.xml'], 'samebase')
        # random: base names drawn from a small pool (distinct full paths), several passes
        for _ in range(120 if quick else 1500):
            ln = rng.choice([2, 3, 4, 5, 6, 8, 12])
            p_good = rng.choice([0.3, 0.6, 0.85])
            syms = [('good' if rng.random() < p_good else rng.choice(SYMBOLS[1:])) for _ in range(ln)]
            names, used = [], set()
            for i, sy in enumerate(syms):
                nm = None
                if rng.random() < 0.7:
                    nm = rng.choice(['inv1/', 'inv2/', 'inv2/sub/', '']) + rng.choice(['0001', '0002', 'page']) + '.' + x(sy)
                if nm is None or nm in used:
                    nm = f'{rng.choice(["", "inv1/", "p/q/"])}m{i}.{x(sy)}'
                used.add(nm)
                names.append(nm)
            route, ext, nst = rng.choice(self.VARIANTS)
            if ext == '.7z' and quick and ln > 6:
                ext = '.zip'
            ig = rng.random() < 0.6
            n += 1
            c = self._case(syms, route, ig, n, ['random', 'samebase'], nested=nst, rng=rng, ext=ext, names=names)
            if rng.random() < 0.5:
                ps = [{'ignore': rng.random() < 0.6, 'batch': int(rng.random() < 0.3)} for _ in range(rng.choice([1, 2, 2, 3]))]
                ps.append({'ignore': ig, 'batch': 0})
                c.input['passes'] = ps
                if any(p['batch'] for p in ps):
                    c.input['other'] = _other_batch(c.input['members'])
                c.tags.append('history')
            out.append(c)
        return out

    # ---------------------------------------------------------------- implementation
    _7z_cache: Dict[str, bytes] = {}

    def _container(self, kind: str, tree, scratch: str) -> bytes:
        """the archive bytes of a member tree; py7zr is slow to write (~0.1 s): the single-pass case and its
        history variants hold the same members, the bytes are built once"""
        if kind != 'sevenz':
            return C.container_bytes(kind, tree, scratch)
        key = C.sha(json.dumps(tree, sort_keys=True).encode('utf-8'))
        if key not in self._7z_cache:
            if len(self._7z_cache) > 200:
                self._7z_cache.clear()
            self._7z_cache[key] = C.container_bytes(kind, tree, scratch)
        return self._7z_cache[key]

    def impl(self, case: Case) -> Any:
        if case.kind == 'subclass':
            import builtins
            from xml.parsers import expat
            cls = case.input['cls']
            c = expat.ExpatError if cls == 'ExpatError' else getattr(builtins, cls)
            names = ['KeyError', 'AttributeError', 'IndexError', 'ValueError', 'TypeError', 'ExpatError',
                     'FileNotFoundError', 'OSError', 'LookupError', 'Exception']
            return {d: issubclass(c, expat.ExpatError if d == 'ExpatError' else getattr(builtins, d)) for d in names}
        P = _parser()
        inp = case.input
        scratch = tempfile.mkdtemp(prefix='verif-c13-')
        try:
            passes = _passes(inp)
            batches = [inp['members'], inp.get('other') or []]
            used = sorted({p['batch'] for p in passes} | {0})
            alone: Dict[int, List[Any]] = {0: [], 1: []}
            where: Dict[int, Any] = {}
            for b in used:      # every batch is on disk before the first call
                ms = batches[b]
                if inp['route'] == 'files':
                    root = os.path.join(scratch, 'files' if b == 0 else 'files-other')
                    paths = []
                    for m in ms:
                        p = os.path.join(root, m['name'])
                        os.makedirs(os.path.dirname(p), exist_ok=True)
                        with open(p, 'wb') as fh:
                            fh.write(bytes.fromhex(m['d']))
                        paths.append(p)
                        alone[b].append(call(lambda: _digest(_scan_view(_quiet(P.parse_pagexml_file, p)))))
                    where[b] = (root, paths)
                else:
                    tree = [{'t': 'f', 'p': m['name'], 'd': m['d']} for m in ms]
                    for m in ms:
                        raw = bytes.fromhex(m['d'])
                        base = m['name'].rsplit('/', 1)[-1]
                        alone[b].append(call(lambda: _digest(_scan_view(_quiet(P.parse_pagexml_file, base, pagexml_data=raw)))))
                    kind = C.KIND_OF_EXT[inp['ext']]
                    if inp.get('nested'):
                        tree = [{'t': 'n', 'p': 'wrap/inner.zip' if kind != 'zip' else 'wrap/inner.tar',
                                 'k': 'zip' if kind != 'zip' else 'tar', 'm': tree}]
                    path = os.path.join(scratch, ('batch' if b == 0 else 'other') + inp['ext'])
                    with open(path, 'wb') as fh:
                        fh.write(self._container(kind, tree, scratch))
                    where[b] = (None, path)
            pouts = []
            for ps in passes:   # the calls, in order, in this process
                b = ps['batch']
                if inp['route'] == 'files':
                    root, paths = where[b]
                    arg = list(paths)
                    r = _drain(lambda: P.parse_pagexml_files(arg, ignore_errors=ps['ignore']))
                    po = {'yielded': [{'key': os.path.relpath(s.metadata['filename'], root), 'json': _digest(_scan_view(s))}
                                      for s in r['items']], 'exn': r['exn'], 'arg_unchanged': arg == paths}
                else:
                    path = where[b][1]
                    r = _drain(lambda: P.parse_pagexml_files_from_archive(path, ignore_errors=ps['ignore']))
                    po = {'yielded': [{'key': (s.metadata.get('pagefile_info') or {}).get('archived_filepath'),
                                       'json': _digest(_scan_view(s))} for s in r['items']], 'exn': r['exn']}
                pouts.append(po)
            self._measured[id(case)] = alone
            for a in alone[0] + alone[1]:     # evidence: a measured class the theorems do not cover (informational)
                if 'err' in a and a['err'] not in COVERED and f'uncovered-class:{a["err"]}' not in case.tags:
                    case.tags.append(f'uncovered-class:{a["err"]}')
            return {'alone': alone[0], 'alone_other': alone[1], 'passes': pouts}
        finally:
            shutil.rmtree(scratch, ignore_errors=True)

    # ---------------------------------------------------------------- model
    def requests(self, case: Case):
        if case.kind == 'subclass':
            names = ['KeyError', 'AttributeError', 'IndexError', 'ValueError', 'TypeError', 'ExpatError',
                     'FileNotFoundError', 'OSError', 'LookupError', 'Exception']
            return [{'p': 'C13', 'op': 'is_subclass', 'args': {'c': case.input['cls'], 'd': d}} for d in names]
        # the measured map fault -> exception class is handed to the model as data: impl() has run before
        # requests() (core.run_check), its measurement of every member parsed alone is cached per case
        alone = self._measured.get(id(case))
        if alone is None:
            o = self.impl(case)
            alone = {0: o['alone'], 1: o['alone_other']}
        # the model is pure: one request per call, the same answer must hold however often the reader ran before
        return [self._batch_request(case, alone[ps['batch']], ps) for ps in _passes(case.input)]

    def _batch_request(self, case: Case, alone, ps=None) -> Dict[str, Any]:
        inp = case.input
        ps = ps or {'ignore': inp['ignore'], 'batch': 0}
        members = []
        for i, (m, a) in enumerate(zip(inp['members'] if ps['batch'] == 0 else inp['other'], alone)):
            # the archive route hands the BASE name to the parser; the model uses the name for the `.xml` suffix
            # test only (Model/C13.lean `nameLacks`), members are identified by position (`id`)
            name = m['name'].rsplit('/', 1)[-1] if inp['route'] == 'archive' else m['name']
            members.append({'name': name, 'id': i} if 'ok' in a else {'name': name, 'fault': a['err']})
        return {'p': 'C13', 'op': 'batch', 'args': {'route': inp['route'], 'ignore': ps['ignore'], 'members': members}}

    def compare(self, case, impl_out, model_out):
        if case.kind == 'subclass':
            got = [impl_out[d] for d in impl_out]
            want = [m['ok'] for m in model_out]
            return None if got == want else f'issubclass: impl={impl_out} model={want}'
        inp = case.input
        for n, (ps, po, mo) in enumerate(zip(_passes(inp), impl_out['passes'], model_out)):
            ans = mo['ok']
            # members are identified by their FULL path (distinct within a batch; base names may repeat)
            names = [m['name'] for m in (inp['members'] if ps['batch'] == 0 else inp['other'])]
            got = [names.index(y['key']) if y['key'] in names else -1 for y in po['yielded']]
            if got != ans['yielded'] or po['exn'] != ans['exn']:
                al = impl_out['alone'] if ps['batch'] == 0 else impl_out['alone_other']
                return f'call {n + 1} of {len(impl_out["passes"])} (ignore={ps["ignore"]}, batch {ps["batch"]}): impl yielded {got} ' \
                       f'exn={po["exn"]}; model yielded {ans["yielded"]} exn={ans["exn"]} ' \
                       f'(measured {[a.get("err", "good") for a in al]})'
        return None

    # ---------------------------------------------------------------- oracle
    def oracle(self, case: Case, out: Any) -> List[Finding]:
        # an outcome of the real code that the judgement cannot even read is an outcome to report, never a crash (exit 2)
        try:
            return self._oracle(case, out)
        except Exception as e:  # noqa
            return [Finding('C13:answer-shape', f'the outcome of the real code cannot be judged: {type(e).__name__}: {e}', case, out)]

    def _oracle(self, case: Case, out: Any) -> List[Finding]:
        fs: List[Finding] = []
        if case.kind != 'batch' or 'beyond' in case.tags:
            return fs
        inp = case.input
        passes = _passes(inp)
        for n, (ps, po) in enumerate(zip(passes, out['passes'])):
            # the statement judged on EVERY call: "never lets an unreadable member abort the batch: every well-formed
            # member is still yielded exactly once, in order …" holds for the second call as for the first
            suffix = _pass_suffix(passes, n)
            where = f'call {n + 1} of {len(passes)}: ' if len(passes) > 1 else ''

            def bad(key, what, suffix=suffix, where=where):
                fs.append(Finding(f'C13:{key}{suffix}', where + what, case, out))
            ms = inp['members'] if ps['batch'] == 0 else inp['other']
            alone = out['alone'] if ps['batch'] == 0 else out['alone_other']
            if po.get('arg_unchanged') is False:
                bad('argument-mutated:files', 'the list of files passed in was changed by the reader')
            self._judge(bad, inp['route'], ms, alone, ps['ignore'], po['yielded'], po['exn'])
        return fs

    @staticmethod
    def _judge(bad, route, ms, alone, ignore, yielded, exn) -> None:
        """one call of a batch reader judged against the statement"""
        # generator sanity: a good document parses alone, a faulty one does not (else the case judges nothing)
        for m, a in zip(ms, alone):
            if (m['what'] == 'good') != ('ok' in a):
                if m['what'] == 'good':
                    bad('good-member-rejected', f'{m["name"]}: well-formed document rejected when parsed alone: {a}')
                return
        goods = [(m['name'], a['ok']) for m, a in zip(ms, alone) if m['what'] == 'good']
        got = [(y['key'], y['json']) for y in yielded]
        if ignore:
            if exn is not None:
                # the member that ended the batch: between the last good member yielded and the next good one,
                # the first faulty member whose own exception class is the one that escaped
                gi = [i for i, m in enumerate(ms) if m['what'] == 'good']
                n_y = len(got)
                lo = gi[n_y - 1] + 1 if 0 < n_y <= len(gi) else 0
                hi = gi[n_y] if n_y < len(gi) else len(ms)
                cands = [ms[i]['what'] for i in range(lo, hi) if ms[i]['what'] != 'good' and alone[i].get('err') == exn]
                culprit = cands[0] if cands else '?'
                bad(f'ignore-aborted:{route}:{culprit}', f'ignore_errors=True but {exn} escaped after {len(got)} scans')
            elif got != goods:
                keys = [k for k, _ in got]
                if keys == [k for k, _ in goods]:
                    bad(f'content-differs:{route}', 'a scan yielded by the batch differs from the same member parsed alone')
                else:
                    bad(f'ignore-members:{route}', f'yielded {keys}, expected every good member once in order: {[k for k, _ in goods]}')
        else:
            def is_bad(m):
                if m['what'] == 'good':
                    return False
                if route == 'archive' and m['what'] == 'nonxml':
                    return False       # skipped in both modes
                return True
            first = next((i for i, m in enumerate(ms) if is_bad(m)), None)
            if first is None:
                if exn is not None:
                    what = 'nonxml' if any(m['what'] == 'nonxml' for m in ms) else 'none'
                    bad(f'strict-raised-without-bad-member:{route}:{what}', f'{exn} raised although no PageXML member is bad')
                elif got != goods:
                    bad(f'strict-members:{route}', f'yielded {[k for k, _ in got]}, expected {[k for k, _ in goods]}')
            else:
                want = [(m['name'], a['ok']) for m, a in list(zip(ms, alone))[:first] if m['what'] == 'good']
                if exn is None:
                    bad(f'strict-silently-dropped:{route}:{ms[first]["what"]}',
                        f'bad member {ms[first]["name"]} ({ms[first]["what"]}) did not raise without ignore_errors')
                elif got != want:
                    bad(f'strict-prefix:{route}', f'yielded {[k for k, _ in got]} before raising, expected {[k for k, _ in want]}')
                elif exn != alone[first].get('err'):
                    bad(f'strict-other-exception:{route}', f'raised {exn}, the first bad member alone raises {alone[first]}')

    def nontrivial(self, case: Case) -> bool:
        if case.kind != 'batch':
            return True
        w = [m['what'] for m in case.input['members']]
        return 'good' in w and any(x != 'good' for x in w)

    def shrink_candidates(self, case: Case):
        if case.kind != 'batch':
            return
        inp = case.input
        ms = inp['members']
        ps = inp.get('passes')
        if ps:      # fewer calls first; a history without the other batch
            for i in range(len(ps)):
                rest = ps[:i] + ps[i + 1:]
                if rest:
                    yield Case('batch', dict(inp, passes=rest), case.tags)
            if not any(p.get('batch') for p in ps) and inp.get('other'):
                yield Case('batch', {k: v for k, v in inp.items() if k != 'other'}, case.tags)
        for i in range(len(ms)):
            yield Case('batch', dict(inp, members=ms[:i] + ms[i + 1:]), case.tags)
        oth = inp.get('other') or []
        for i in range(len(oth)):
            yield Case('batch', dict(inp, other=oth[:i] + oth[i + 1:]), case.tags)
        if inp.get('nested'):
            yield Case('batch', dict(inp, nested=False), case.tags)
        if inp.get('ext') not in (None, '.zip'):
            yield Case('batch', dict(inp, ext='.zip'), case.tags)
        for which, lst in (('members', ms), ('other', oth)):
            taken = {m['name'] for m in lst}
            for i, m in enumerate(lst):
                base = m['name'].rsplit('/', 1)[-1]
                # never two members with the same full path (zip opens members by name)
                if '/' in m['name'] and base not in taken:
                    yield Case('batch', dict(inp, **{which: lst[:i] + [dict(m, name=base)] + lst[i + 1:]}), case.tags)


CHECK = C13()
